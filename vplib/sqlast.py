"""sqlparser AST (JSON, as returned by harness `c07_parse`) -> the model AST of coq/Model/SqlAst.v.

Three things live here:
  * `convert(stmt, interner)`: sqlparser `Statement::Query` JSON -> python model AST (nested tuples) + the lexical
    constructs (identifier quote characters, INTERVAL) the model AST does not carry.  Node kinds that are not modelled
    raise `Unmodelled(kind)` -- callers count them; nothing is skipped silently.
  * `coq_query(q)` / `coq_te(te)` / `coq_extras(x)`: printers of Coq terms (Model.SqlAst / Model.SqlScope / Model.DialectFeat).
  * a python MIRROR of Model/SqlScope.v (`diag_codes`) and Model/DialectFeat.v (`dialect_report`): line-by-line
    transliterations, cross-validated against `coq_eval` on every Coq-evaluated case by vplib/props/c07.py.

python model AST
  expr    ("col", q|None, c) ("lit",) ("star", q|None) ("app", f, [e]) ("win", f, [a], [p], [o], frame|None) ("sub", query); frame = (units 1|2|3, bound, bound|None), bound = ("cur",)|("prec", n|None)|("fol", n|None)
  query   ("query", rec, [(name, query)], setexpr, [order exprs], (limit, offset, offset_rows, fetch))
  setexpr ("select", dkind, [don], [items], [trefs], [w], [g], [h]) ("setop", op, quant, l, r) ("squery", query)
  item    ("iexpr", e, alias) ("iwild", q, ek, [excl])
  tref    ("ttable", joined, n, alias, [on]) ("tderived", joined, query, alias, [on])
names are ints (0 = none); op in Union/Except/Intersect; quant in QAll/QDistinct/QNone; dkind in DNone/DDistinct/DOn.
"""


class Unmodelled(Exception):
    pass


# aggregate function names of the twelve engines (upper case, as function names are interned): Model/SqlScopeX.v recognises an
# aggregate call by its id lying in [agg_lo, agg_hi] = [2, 40]
AGGREGATES = ["COUNT", "SUM", "MIN", "MAX", "AVG", "STDDEV", "STDDEV_SAMP", "STDDEV_POP", "VARIANCE", "VAR_SAMP", "VAR_POP", "EVERY", "BOOL_AND",
              "BOOL_OR", "ANY_VALUE", "STRING_AGG", "GROUP_CONCAT", "ARRAY_AGG", "LISTAGG", "COUNT_IF", "COUNTIF", "LOGICAL_AND", "LOGICAL_OR", "MEDIAN",
              "GROUPARRAY", "BIT_AND", "BIT_OR", "BIT_XOR", "APPROX_COUNT_DISTINCT", "STDEV", "STDEVP", "VAR", "VARP", "ARG_MIN", "ARG_MAX", "ANY", "UNIQ",
              "CORR", "COVAR_POP"]
AGG_LO, AGG_HI = 2, 40
assert len(AGGREGATES) == AGG_HI - AGG_LO + 1


class Interner:
    def __init__(self):
        self.ids = {"CONCAT": 1}      # Model.DialectFeat.f_concat = 1
        self.names = {1: "CONCAT"}
        for i, a in enumerate(AGGREGATES):
            self.ids[a] = AGG_LO + i
            self.names[AGG_LO + i] = a
        self.next = AGG_HI + 1

    def id(self, s):
        if s not in self.ids:
            n = self.next
            self.next += 1
            self.ids[s] = n
            self.names[n] = s
        return self.ids[s]

    def name(self, n):
        return self.names.get(n, "#%d" % n)


def _only(d, what):
    if not isinstance(d, dict) or len(d) != 1:
        raise Unmodelled("%s shape %r" % (what, str(d)[:60]))
    (k, v), = d.items()
    return k, v


class Conv:
    def __init__(self, interner):
        self.I = interner
        self.quotes = set()
        self.interval = False

    # ---- identifiers
    def ident(self, j):
        if not isinstance(j, dict) or "value" not in j:
            raise Unmodelled("ident %r" % str(j)[:60])
        if j.get("quote_style"):
            self.quotes.add(j["quote_style"])
        return j["value"]

    def objname(self, parts):
        out = []
        for p in parts:
            k, v = _only(p, "ObjectNamePart")
            if k != "Identifier":
                raise Unmodelled("ObjectNamePart." + k)
            out.append(self.ident(v))
        return out

    # ---- expressions
    def exprs(self, js):
        return [self.expr(j) for j in js]

    def expr(self, j):
        if isinstance(j, str):
            if j == "Wildcard":
                return ("star", None)
            raise Unmodelled("Expr." + j)
        k, v = _only(j, "Expr")
        I = self.I
        if k == "Identifier":
            return ("col", None, I.id(self.ident(v)))
        if k == "CompoundIdentifier":
            parts = [self.ident(p) for p in v]
            if len(parts) == 2:
                return ("col", I.id(parts[0]), I.id(parts[1]))
            raise Unmodelled("CompoundIdentifier/%d" % len(parts))
        if k == "Value":
            return ("lit",)
        if k == "TypedString":
            return ("lit",)
        if k == "Interval":
            self.interval = True
            return ("app", 0, [self.expr(v["value"])])
        if k == "BinaryOp":
            return ("app", 0, [self.expr(v["left"]), self.expr(v["right"])])
        if k == "UnaryOp":
            return ("app", 0, [self.expr(v["expr"])])
        if k in ("Nested", "IsNull", "IsNotNull", "IsTrue", "IsFalse", "IsNotTrue", "IsNotFalse", "IsUnknown", "IsNotUnknown"):
            return ("app", 0, [self.expr(v)])
        if k == "InList":
            return ("app", 0, [self.expr(v["expr"])] + self.exprs(v["list"]))
        if k == "InSubquery":
            return ("app", 0, [self.expr(v["expr"]), ("sub", self.query(v["subquery"]))])
        if k == "Between":
            return ("app", 0, [self.expr(v["expr"]), self.expr(v["low"]), self.expr(v["high"])])
        if k in ("Like", "ILike", "SimilarTo", "RLike"):
            return ("app", 0, [self.expr(v["expr"]), self.expr(v["pattern"])])
        if k in ("IsDistinctFrom", "IsNotDistinctFrom"):
            return ("app", 0, [self.expr(v[0]), self.expr(v[1])])
        if k == "Case":
            xs = [self.expr(v["operand"])] if v.get("operand") else []
            for c in v["conditions"]:
                xs += [self.expr(c["condition"]), self.expr(c["result"])]
            if v.get("else_result"):
                xs.append(self.expr(v["else_result"]))
            return ("app", 0, xs)
        if k == "Cast":
            return ("app", 0, [self.expr(v["expr"])])
        if k in ("Ceil", "Floor", "Extract", "Collate"):
            return ("app", 0, [self.expr(v["expr"])])
        if k == "AtTimeZone":
            return ("app", 0, [self.expr(v["timestamp"]), self.expr(v["time_zone"])])
        if k == "Substring":
            xs = [self.expr(v["expr"])]
            for f in ("substring_from", "substring_for"):
                if v.get(f):
                    xs.append(self.expr(v[f]))
            return ("app", 0, xs)
        if k == "Trim":
            xs = [self.expr(v["expr"])]
            if v.get("trim_what"):
                xs.append(self.expr(v["trim_what"]))
            for c in v.get("trim_characters") or []:
                xs.append(self.expr(c))
            return ("app", 0, xs)
        if k == "Position":
            return ("app", 0, [self.expr(v["expr"]), self.expr(v["in"])])
        if k == "Tuple":
            return ("app", 0, self.exprs(v))
        if k == "Array":
            return ("app", 0, self.exprs(v["elem"]))
        if k == "Subquery":
            return ("sub", self.query(v))
        if k == "Exists":
            return ("sub", self.query(v["subquery"]))
        if k == "Wildcard":
            return ("star", None)
        if k == "QualifiedWildcard":
            names = self.objname(v[0] if isinstance(v, list) and v and isinstance(v[0], list) else v)
            if len(names) != 1:
                raise Unmodelled("QualifiedWildcard/%d" % len(names))
            return ("star", I.id(names[0]))
        if k == "Function":
            return self.function(v)
        raise Unmodelled("Expr." + k)

    def function(self, v):
        I = self.I
        names = self.objname(v["name"])
        f = I.id(names[-1].upper())
        args = []
        a = v.get("args")
        if a == "None" or a is None:
            pass
        elif isinstance(a, dict) and "List" in a:
            lst = a["List"]
            for c in lst.get("clauses") or []:
                raise Unmodelled("Function.clauses")
            for x in lst["args"]:
                k, w = _only(x, "FunctionArg")
                if k == "Named":
                    w = w["arg"]
                elif k == "ExprNamed":
                    args.append(self.expr(w["name"]))
                    w = w["arg"]
                elif k != "Unnamed":
                    raise Unmodelled("FunctionArg." + k)
                if w == "Wildcard":
                    args.append(("star", None))
                else:
                    k2, w2 = _only(w, "FunctionArgExpr")
                    if k2 == "Expr":
                        args.append(self.expr(w2))
                    elif k2 == "QualifiedWildcard":
                        nm = self.objname(w2)
                        if len(nm) != 1:
                            raise Unmodelled("QualifiedWildcard/%d" % len(nm))
                        args.append(("star", I.id(nm[0])))
                    else:
                        raise Unmodelled("FunctionArgExpr." + k2)
        elif isinstance(a, dict) and "Subquery" in a:
            args.append(("sub", self.query(a["Subquery"])))
        else:
            raise Unmodelled("Function.args %r" % str(a)[:40])
        if v.get("parameters") not in (None, "None"):
            raise Unmodelled("Function.parameters")
        if v.get("filter"):
            args.append(self.expr(v["filter"]))
        for ob in v.get("within_group") or []:
            args.append(self.expr(ob["expr"]))
        over = v.get("over")
        if over is None:
            return ("app", f, args)
        k, w = _only(over, "WindowType")
        if k != "WindowSpec":
            raise Unmodelled("WindowType." + k)
        if w.get("window_name"):
            raise Unmodelled("WindowSpec.window_name")
        part = self.exprs(w.get("partition_by") or [])
        order = [self.expr(o["expr"]) for o in (w.get("order_by") or [])]
        fr = w.get("window_frame")
        frame = None
        if fr:
            units = {"Rows": 1, "Range": 2, "Groups": 3}.get(fr.get("units"))
            if units is None:
                raise Unmodelled("WindowFrame.units %r" % fr.get("units"))
            sb = self.frame_bound(fr.get("start_bound"))
            eb = self.frame_bound(fr.get("end_bound")) if fr.get("end_bound") is not None else None
            frame = (units, sb, eb)
        return ("win", f, args, part, order, frame)

    def frame_bound(self, b):
        """-> ("cur",) | ("prec", n | None) | ("fol", n | None); n a non-negative integer literal, None = UNBOUNDED"""
        if b == "CurrentRow":
            return ("cur",)
        k, v = _only(b, "WindowFrameBound")
        if k not in ("Preceding", "Following"):
            raise Unmodelled("WindowFrameBound." + k)
        n = None
        if v is not None:
            try:
                num = v["Value"]["value"]["Number"][0]
                n = int(num)
            except Exception:
                raise Unmodelled("WindowFrameBound offset %r" % str(v)[:60])
            if n < 0:
                raise Unmodelled("WindowFrameBound negative offset")
        return ("prec" if k == "Preceding" else "fol", n)

    # ---- queries
    def query(self, j):
        I = self.I
        for f in ("locks", "pipe_operators"):
            if j.get(f):
                raise Unmodelled("Query." + f)
        for f in ("for_clause", "settings", "format_clause"):
            if j.get(f) is not None:
                raise Unmodelled("Query." + f)
        rec = False
        ctes = []
        w = j.get("with")
        if w:
            rec = bool(w.get("recursive"))
            for c in w["cte_tables"]:
                al = c["alias"]
                if al.get("columns"):
                    raise Unmodelled("Cte.alias.columns")
                if c.get("from") is not None:
                    raise Unmodelled("Cte.from")
                ctes.append((I.id(self.ident(al["name"])), self.query(c["query"])))
        body = self.setexpr(j["body"])
        order = []
        ob = j.get("order_by")
        if ob:
            if ob.get("interpolate") is not None:
                raise Unmodelled("OrderBy.interpolate")
            k, v = _only(ob["kind"], "OrderByKind")
            if k != "Expressions":
                raise Unmodelled("OrderByKind." + k)
            for o in v:
                if o.get("with_fill") is not None:
                    raise Unmodelled("OrderByExpr.with_fill")
                order.append(self.expr(o["expr"]))
        lim = off = offrows = False
        lc = j.get("limit_clause")
        if lc:
            k, v = _only(lc, "LimitClause")
            if k == "LimitOffset":
                if v.get("limit_by"):
                    raise Unmodelled("LimitClause.limit_by")
                if v.get("limit") is not None:
                    lim = True
                    self.expr(v["limit"])
                if v.get("offset") is not None:
                    off = True
                    self.expr(v["offset"]["value"])
                    offrows = v["offset"].get("rows") not in (None, "None")
            elif k == "OffsetCommaLimit":
                lim = off = True
            else:
                raise Unmodelled("LimitClause." + k)
        fetch = j.get("fetch") is not None
        return ("query", rec, ctes, body, order, (lim, off, offrows, fetch))

    def setexpr(self, j):
        k, v = _only(j, "SetExpr")
        if k == "Select":
            return self.select(v)
        if k == "Query":
            return ("squery", self.query(v))
        if k == "SetOperation":
            op = v["op"]
            if op not in ("Union", "Except", "Intersect"):
                raise Unmodelled("SetOperator." + str(op))
            q = v["set_quantifier"]
            qq = {"All": "QAll", "Distinct": "QDistinct", "None": "QNone"}.get(q)
            if qq is None:
                raise Unmodelled("SetQuantifier." + str(q))
            return ("setop", op, qq, self.setexpr(v["left"]), self.setexpr(v["right"]))
        raise Unmodelled("SetExpr." + k)

    def select(self, v):
        I = self.I
        for f in ("top", "into", "prewhere", "qualify", "connect_by", "value_table_mode", "exclude"):
            if v.get(f) is not None:
                raise Unmodelled("Select." + f)
        for f in ("lateral_views", "cluster_by", "distribute_by", "sort_by", "named_window"):
            if v.get(f):
                raise Unmodelled("Select." + f)
        d = v.get("distinct")
        don = []
        if d is None:
            dk = "DNone"
        elif d == "Distinct":
            dk = "DDistinct"
        elif isinstance(d, dict) and "On" in d:
            dk = "DOn"
            don = self.exprs(d["On"])
        else:
            raise Unmodelled("Distinct %r" % str(d)[:30])
        items = []
        for it in v["projection"]:
            k, w = _only(it, "SelectItem")
            if k == "UnnamedExpr":
                items.append(("iexpr", self.expr(w), 0))
            elif k == "ExprWithAlias":
                items.append(("iexpr", self.expr(w["expr"]), I.id(self.ident(w["alias"]))))
            elif k == "Wildcard":
                ek, ex = self.wild_opts(w)
                items.append(("iwild", 0, ek, ex))
            elif k == "QualifiedWildcard":
                kind, opts = w
                kk, nm = _only(kind, "SelectItemQualifiedWildcardKind")
                if kk != "ObjectName":
                    raise Unmodelled("QualifiedWildcardKind." + kk)
                names = self.objname(nm)
                if len(names) != 1:
                    raise Unmodelled("QualifiedWildcard/%d" % len(names))
                ek, ex = self.wild_opts(opts)
                items.append(("iwild", I.id(names[0]), ek, ex))
            else:
                raise Unmodelled("SelectItem." + k)
        trefs = []
        for twj in v["from"]:
            trefs.append(self.tref(twj["relation"], False, []))
            for jn in twj["joins"]:
                jo = jn["join_operator"]
                if isinstance(jo, str):
                    if jo not in ("CrossJoin", "CrossApply", "OuterApply"):
                        raise Unmodelled("JoinOperator." + jo)
                    on = []
                else:
                    k, c = _only(jo, "JoinOperator")
                    if k not in ("Inner", "Join", "Left", "LeftOuter", "Right", "RightOuter", "FullOuter", "CrossJoin"):
                        raise Unmodelled("JoinOperator." + k)
                    if c == "None" or c == "Natural" or c is None:
                        on = []
                    else:
                        kc, e = _only(c, "JoinConstraint")
                        if kc == "On":
                            on = [self.expr(e)]
                        else:
                            raise Unmodelled("JoinConstraint." + kc)
                trefs.append(self.tref(jn["relation"], True, on))
        w = [self.expr(v["selection"])] if v.get("selection") is not None else []
        gb = v.get("group_by")
        g = []
        if isinstance(gb, dict) and "Expressions" in gb:
            exs, mods = gb["Expressions"]
            if mods:
                raise Unmodelled("GroupBy.modifiers")
            g = self.exprs(exs)
        elif gb is not None:
            raise Unmodelled("GroupBy %r" % str(gb)[:30])
        h = [self.expr(v["having"])] if v.get("having") is not None else []
        return ("select", dk, don, items, trefs, w, g, h)

    def wild_opts(self, o):
        for f in ("opt_ilike", "opt_rename", "opt_replace"):
            if o.get(f) is not None:
                raise Unmodelled("Wildcard." + f)
        I = self.I
        if o.get("opt_exclude") is not None:
            k, w = _only(o["opt_exclude"], "ExcludeSelectItem")
            ids = [w] if k == "Single" else w
            return 1, [I.id(self.ident(i)) for i in ids]
        if o.get("opt_except") is not None:
            w = o["opt_except"]
            return 2, [I.id(self.ident(i)) for i in [w["first_element"]] + w["additional_elements"]]
        return 0, []

    def alias(self, a):
        if a is None:
            return None
        if a.get("columns"):
            raise Unmodelled("TableAlias.columns")
        return self.ident(a["name"])

    def tref(self, j, joined, on):
        I = self.I
        k, v = _only(j, "TableFactor")
        if k == "Table":
            for f in ("with_hints", "partitions", "index_hints"):
                if v.get(f):
                    raise Unmodelled("Table." + f)
            for f in ("version", "json_path", "sample"):
                if v.get(f) is not None:
                    raise Unmodelled("Table." + f)
            names = self.objname(v["name"])
            al = self.alias(v.get("alias"))
            if v.get("args") is not None:
                for a in (v["args"].get("args") or []):
                    pass            # arguments of a table function: literals (not scoped)
                return ("ttable", joined, 0, I.id(al if al is not None else names[-1]), on)
            return ("ttable", joined, I.id(".".join(names)), I.id(al if al is not None else names[-1]), on)
        if k == "Derived":
            if v.get("lateral"):
                raise Unmodelled("Derived.lateral")
            al = self.alias(v.get("alias"))
            return ("tderived", joined, self.query(v["subquery"]), I.id(al) if al is not None else 0, on)
        if k in ("TableFunction", "Function"):
            al = self.alias(v.get("alias"))
            return ("ttable", joined, 0, I.id(al) if al is not None else 0, on)
        raise Unmodelled("TableFactor." + k)


def convert(stmt, interner):
    """-> (query, extras) ; extras = list of lexical constructs ("KQuote", ch) / ("KInterval",)"""
    k, v = _only(stmt, "Statement")
    if k != "Query":
        raise Unmodelled("Statement." + k)
    c = Conv(interner)
    q = c.query(v)
    extras = [("KQuote", ord(ch)) for ch in sorted(c.quotes)] + ([("KInterval",)] if c.interval else [])
    return q, extras


# ------------------------------------------------------------------------------------------------ Coq printers

def _opt(n):
    return "None" if n is None else "(Some %d)" % n


def coq_expr(e):
    k = e[0]
    if k == "col":
        return "(ECol %s %d)" % (_opt(e[1]), e[2])
    if k == "lit":
        return "ELit"
    if k == "star":
        return "(EStar %s)" % _opt(e[1])
    if k == "app":
        return "(EApp %d %s)" % (e[1], coq_exprs(e[2]))
    if k == "win":
        return "(EWin %d %s %s %s %s)" % (e[1], coq_exprs(e[2]), coq_exprs(e[3]), coq_exprs(e[4]), coq_frame(e[5]))
    if k == "sub":
        return "(ESub %s)" % coq_query(e[1])
    raise ValueError(k)


def coq_bound(b):
    if b[0] == "cur":
        return "WCur"
    return "(%s %s)" % ("WPrec" if b[0] == "prec" else "WFol", _opt(b[1]))


def coq_frame(fr):
    if fr is None:
        return "WNone"
    return "(WFrame %d %s %s)" % (fr[0], coq_bound(fr[1]), "None" if fr[2] is None else "(Some %s)" % coq_bound(fr[2]))


def coq_exprs(xs):
    return "(es [%s])" % "; ".join(coq_expr(x) for x in xs) if xs else "ENil"


def _b(x):
    return "true" if x else "false"


def coq_query(q):
    _, rec, ctes, body, order, lim = q
    cs = "(cs_of [%s])" % "; ".join("(%d, %s)" % (n, coq_query(cq)) for n, cq in ctes) if ctes else "CNil"
    return "(Query %s %s %s %s (mkLimit %s %s %s %s))" % (_b(rec), cs, coq_setexpr(body), coq_exprs(order), _b(lim[0]), _b(lim[1]), _b(lim[2]), _b(lim[3]))


def coq_names(ns):
    return "[%s]" % "; ".join(str(n) for n in ns)


def coq_setexpr(s):
    k = s[0]
    if k == "select":
        _, dk, don, items, trefs, w, g, h = s
        it = "INil"
        for x in reversed(items):
            if x[0] == "iexpr":
                it = "(IExpr %s %d %s)" % (coq_expr(x[1]), x[2], it)
            else:
                it = "(IWild %d %d %s %s)" % (x[1], x[2], coq_names(x[3]), it)
        tr = "TNil"
        for x in reversed(trefs):
            if x[0] == "ttable":
                tr = "(TTable %s %d %d %s %s)" % (_b(x[1]), x[2], x[3], coq_exprs(x[4]), tr)
            else:
                tr = "(TDerived %s %s %d %s %s)" % (_b(x[1]), coq_query(x[2]), x[3], coq_exprs(x[4]), tr)
        return "(SSelect %s %s %s %s %s %s %s)" % (dk, coq_exprs(don), it, tr, coq_exprs(w), coq_exprs(g), coq_exprs(h))
    if k == "setop":
        return "(SSetOp %s %s %s %s)" % (s[1], s[2], coq_setexpr(s[3]), coq_setexpr(s[4]))
    if k == "squery":
        return "(SQuery %s)" % coq_query(s[1])
    raise ValueError(k)


def coq_te(te):
    return "[%s]" % "; ".join("base_table %d %s %s" % (n, coq_names(r[0]), _b(r[1])) for n, r, _ in te)


def coq_extras(xs):
    return "[%s]" % "; ".join("KQuote %d" % x[1] if x[0] == "KQuote" else "KInterval" for x in xs)


def coq_prof(p):
    return "(mkProf %s %s %s %s %s %s)" % tuple(_b(p.get(k, False)) for k in ("al_where", "al_group", "al_having", "al_order_nested", "zero_cols", "implicit_rec"))


# ------------------------------------------------------------------------------------------------ mirror of Model/SqlScope.v

OPEN = ((), True)
STRICT = {"al_where": False, "al_group": False, "al_having": False, "al_order_nested": False, "zero_cols": False, "implicit_rec": False}


def base_table(n, cols, opn):
    return (n, (tuple(cols), opn), "N")


def lookup(te, n):
    for m, r, v in te:
        if m == n:
            return (r, v)
    return None


def hide_self(te):
    return [(m, r, "H" if v == "V" else v) for m, r, v in te]


def tab_rel(te, n):
    if n == 0:
        return OPEN
    x = lookup(te, n)
    return x[0] if x else OPEN


def tab_ok(te, n):
    if n == 0:
        return True
    x = lookup(te, n)
    return bool(x) and x[1] != "H"


def exposes(r, c):
    return r[1] or c in r[0]


def find_alias(fr, q):
    for a, r in fr:
        if a == q:
            return r
    return None


def res_qual(sc, q, c):
    for fr in sc:
        r = find_alias(fr, q)
        if r is not None:
            return exposes(r, c)
    return False


def has_alias(sc, q):
    return any(find_alias(fr, q) is not None for fr in sc)


def frame_exposes(fr, c):
    return any(exposes(r, c) for _, r in fr)


def res_bare(sc, c):
    return any(frame_exposes(fr, c) for fr in sc)


def frame_all(fr):
    cols = []
    for _, r in fr:
        cols += list(r[0])
    return (tuple(cols), any(r[1] for _, r in fr))


def item_name(e, a):
    if a == 0:
        return e[2] if e[0] == "col" else 0
    return a


def out_items(fr, items):
    cols, opn = [], False
    for it in items:
        if it[0] == "iexpr":
            cols.append(item_name(it[1], it[2]))
        else:
            _, q, _ek, ex = it
            if q == 0:
                w = frame_all(fr)
            else:
                w = find_alias(fr, q) or OPEN
            cols += [c for c in w[0] if c not in ex]
            opn = opn or w[1]
    return (tuple(cols), opn)


def env_ctes(te, ctes):
    for n, q in ctes:
        te = [(n, out_query(te, q), "N")] + te
    return te


def out_query(te, q):
    return out_setexpr(env_ctes(te, q[2]), q[3])


def out_setexpr(te, s):
    if s[0] == "select":
        return out_items(from_frame(te, s[4]), s[3])
    if s[0] == "setop":
        return out_setexpr(te, s[3])
    return out_query(te, s[1])


def from_frame(te, trefs):
    fr = []
    for t in trefs:
        if t[0] == "ttable":
            fr.append((t[3], tab_rel(te, t[2])))
        else:
            fr.append((t[3], out_query(hide_self(te), t[2])))
    return fr


def order_scope(te, sc, body):
    return [from_frame(te, body[4])] + sc if body[0] == "select" else sc


def item_aliases(items):
    return [it[2] for it in items if it[0] == "iexpr" and it[2] != 0]


def o_expr(P, te, sc, al, cl, e):
    k = e[0]
    if k == "col":
        return [("OBare", sc, al, cl, e[2])] if e[1] is None else [("OQual", sc, cl, e[1], e[2])]
    if k == "lit":
        return []
    if k == "star":
        return [] if e[1] is None else [("OStarQ", sc, cl, e[1])]
    if k == "app":
        return o_exprs(P, te, sc, al, cl, e[2])
    if k == "win":
        return o_exprs(P, te, sc, al, cl, e[2]) + o_exprs(P, te, sc, al, cl, e[3]) + o_exprs(P, te, sc, al, cl, e[4])
    return o_query(P, hide_self(te), sc, e[1])


def o_exprs(P, te, sc, al, cl, xs):
    out = []
    for e in xs:
        out += o_expr(P, te, sc, al, cl, e)
    return out


def o_okeys(P, te, sc, outs, xs):
    out = []
    for e in xs:
        if e[0] == "col" and e[1] is None:
            out.append(("OBare", sc, outs, 5, e[2]))
        else:
            out += o_expr(P, te, sc, outs if P["al_order_nested"] else [], 5, e)
    return out


def o_query(P, te, sc, q):
    _, rc, ctes, body, order, _lim = q
    out = o_ctes(P, te, rc, ctes)
    te2 = env_ctes(te, ctes)
    out += o_setexpr(P, te2, sc, body)
    out += o_okeys(P, te2, order_scope(te2, sc, body), list(out_setexpr(te2, body)[0]), order)
    return out


def o_ctes(P, te, rc, ctes):
    out = []
    seen = []
    for n, q in ctes:
        out.append(("OCteName", list(seen), n))
        r = out_query(te, q)
        out += o_query(P, ([(n, r, "V")] + te) if (rc or P.get("implicit_rec")) else te, [], q)
        te = [(n, r, "N")] + te
        seen = [n] + seen
    return out


def o_setexpr(P, te, sc, s):
    if s[0] == "select":
        _, _dk, don, items, trefs, w, g, h = s
        fr = from_frame(te, trefs)
        sc2 = [fr] + sc
        als = item_aliases(items)
        out = [("OFrame", fr), ("OProj", len(items))]
        out += o_from(P, te, sc2, trefs)
        out += o_items(P, te, sc2, fr, items)
        out += o_exprs(P, te, sc2, [], 7, don)
        out += o_exprs(P, te, sc2, als if P["al_where"] else [], 2, w)
        out += o_exprs(P, te, sc2, als if P["al_group"] else [], 3, g)
        out += o_exprs(P, te, sc2, als if P["al_having"] else [], 4, h)
        return out
    if s[0] == "setop":
        return o_setexpr(P, te, sc, s[3]) + o_setexpr(P, te, sc, s[4]) + [("OArity", out_setexpr(te, s[3]), out_setexpr(te, s[4]))]
    return o_query(P, te, sc, s[1])


def o_items(P, te, sc, fr, items):
    out = []
    for it in items:
        if it[0] == "iexpr":
            out += o_expr(P, te, sc, [], 1, it[1])
        else:
            _, q, _ek, ex = it
            out.append(("OWildFrom", fr) if q == 0 else ("OWildQ", fr, q))
            out += [("OExcl", fr, q, c) for c in ex]
    return out


def o_from(P, te, sc, trefs):
    out = []
    for t in trefs:
        if t[0] == "ttable":
            out.append(("OTab", te, t[2]))
        else:
            out += o_query(P, hide_self(te), [], t[2])
        out += o_exprs(P, te, sc, [], 6, t[4])
    return out


def frame_aliases(fr):
    return [a for a, _ in fr if a != 0]


def nodup(l):
    return len(set(l)) == len(l)


def obl_ok(P, o):
    k = o[0]
    if k == "OTab":
        return tab_ok(o[1], o[2])
    if k == "OBare":
        return o[4] in o[2] or res_bare(o[1], o[4])
    if k == "OQual":
        return res_qual(o[1], o[3], o[4])
    if k == "OStarQ":
        return has_alias(o[1], o[3])
    if k == "OFrame":
        return nodup(frame_aliases(o[1]))
    if k == "OProj":
        return P["zero_cols"] or o[1] != 0
    if k == "OArity":
        return o[1][1] or o[2][1] or len(o[1][0]) == len(o[2][0])
    if k == "OWildFrom":
        return len(o[1]) > 0
    if k == "OWildQ":
        return find_alias(o[1], o[2]) is not None
    if k == "OExcl":
        if o[2] == 0:
            return frame_exposes(o[1], o[3])
        r = find_alias(o[1], o[2])
        return r is not None and exposes(r, o[3])
    if k == "OCteName":
        return o[2] not in o[1]
    raise ValueError(k)


def first_dup(l):
    for i, x in enumerate(l):
        if x in l[i + 1:]:
            return x
    return 0


def diag_code(o):
    k = o[0]
    if k == "OTab":
        x = lookup(o[1], o[2])
        return (2 if (x and x[1] == "H") else 1, o[2], 0, 0)
    if k == "OBare":
        return (3, o[3], o[4], 0)
    if k == "OQual":
        return (4, o[2], o[3], o[4])
    if k == "OStarQ":
        return (5, o[2], o[3], 0)
    if k == "OFrame":
        return (6, first_dup(frame_aliases(o[1])), 0, 0)
    if k == "OProj":
        return (7, 0, 0, 0)
    if k == "OArity":
        return (8, len(o[1][0]), len(o[2][0]), 0)
    if k == "OWildFrom":
        return (9, 0, 0, 0)
    if k == "OWildQ":
        return (10, o[2], 0, 0)
    if k == "OExcl":
        return (11, o[2], o[3], 0)
    if k == "OCteName":
        return (12, o[2], 0, 0)
    raise ValueError(k)


def diag_codes(P, te, q):
    return [diag_code(o) for o in o_query(P, te, [], q) if not obl_ok(P, o)]


CLAUSES = {1: "SELECT list", 2: "WHERE", 3: "GROUP BY", 4: "HAVING", 5: "ORDER BY", 6: "ON", 7: "DISTINCT ON"}


def diag_text(d, I):
    k, a, b, c = d
    n = I.name
    return {1: lambda: "table %r is not in scope" % n(a), 2: lambda: "recursive reference to %r inside a sub-query" % n(a),
            3: lambda: "column %r does not resolve in %s" % (n(b), CLAUSES[a]), 4: lambda: "%s.%s does not resolve in %s" % (n(b), n(c), CLAUSES[a]),
            5: lambda: "%s.* names no FROM item (%s)" % (n(b), CLAUSES[a]), 6: lambda: "duplicate FROM alias %r" % n(a), 7: lambda: "empty projection",
            8: lambda: "set operation arity %d vs %d" % (a, b), 9: lambda: "* without FROM", 10: lambda: "%s.* names no FROM item" % n(a),
            11: lambda: "excluded column %r not exposed" % n(b), 12: lambda: "duplicate CTE name %r" % n(a),
            21: lambda: "column %r is ambiguous in %s" % (n(b), CLAUSES[a]), 22: lambda: "%s.%s is ambiguous in %s (the relation has two columns of that name)" % (n(b), n(c), CLAUSES[a]),
            23: lambda: "window frame (%s) is not valid: %s" % ({1: "ROWS", 2: "RANGE", 3: "GROUPS"}.get(a, a), FRAME_WHY.get(b, b)),
            24: lambda: "column %s%s in %s of an aggregate SELECT is neither grouped nor inside an aggregate" % ((n(b) + ".") if b else "", n(c), CLAUSES[a]),
            25: lambda: "%s in the select list of an aggregate SELECT is not grouped" % ((n(a) + ".*") if a else "*")}[k]()


FRAME_WHY = {1: "starts at UNBOUNDED FOLLOWING", 2: "ends at UNBOUNDED PRECEDING", 3: "its end lies before its start", 4: "RANGE with an offset bound needs exactly one ORDER BY key"}


# ------------------------------------------------------------------------------------------------ mirror of Model/SqlScopeX.v

XSTRICT = {"bare_agg": False}


def coq_xprof(xp):
    return "(mkXProf %s)" % _b(xp["bare_agg"])


def is_agg(f):
    return AGG_LO <= f <= AGG_HI


def ha_expr(e):
    k = e[0]
    if k == "app":
        return is_agg(e[1]) or any(ha_expr(x) for x in e[2])
    if k == "win":
        return any(ha_expr(x) for x in e[2] + e[3] + e[4])
    return False


def fc_expr(e):
    k = e[0]
    if k == "col":
        return [(e[1], e[2])]
    if k == "app":
        return [] if is_agg(e[1]) else fc_exprs(e[2])
    if k == "win":
        return fc_exprs(e[2]) + fc_exprs(e[3]) + fc_exprs(e[4])
    return []


def fc_exprs(xs):
    out = []
    for e in xs:
        out += fc_expr(e)
    return out


def kc_expr(e):
    k = e[0]
    if k == "col":
        return [(e[1], e[2])]
    if k == "app":
        return kc_exprs(e[2])
    if k == "win":
        return kc_exprs(e[2]) + kc_exprs(e[3]) + kc_exprs(e[4])
    return []


def kc_exprs(xs):
    out = []
    for e in xs:
        out += kc_expr(e)
    return out


def ks_exprs(xs):
    return [e[1] for e in xs if e[0] == "star"]


def oname_eq(a, b):
    return a is None or b is None or a == b


def key_match(kc, ks, q, c):
    return any(k[1] == c and oname_eq(k[0], q) for k in kc) or any(oname_eq(s_, q) for s_ in ks)


def star_match(ks, q):
    return any(s_ is None or q == 0 or s_ == q for s_ in ks)


def agg_select(items, g, h):
    return bool(g) or any(it[0] == "iexpr" and ha_expr(it[1]) for it in items) or any(ha_expr(e) for e in h)


def frame_count(fr, c):
    return sum(list(r[0]).count(c) for _, r in fr)


def bare_count(sc, c):
    for fr in sc:
        if frame_exposes(fr, c):
            return frame_count(fr, c)
    return 0


def qual_count(sc, q, c):
    for fr in sc:
        r = find_alias(fr, q)
        if r is not None:
            return list(r[0]).count(c)
    return 0


def bound_has_offset(b):
    return b[0] in ("prec", "fol") and b[1] is not None


def frame_rules(units, s_, e_, nord):
    """-> the first broken rule (1..4) or 0"""
    e2 = e_ if e_ is not None else ("cur",)
    if s_ == ("fol", None):
        return 1
    if e2 == ("prec", None):
        return 2
    if (s_[0] == "cur" and e2[0] == "prec") or (s_[0] == "fol" and e2[0] in ("prec", "cur")):
        return 3
    if units == 2 and (bound_has_offset(s_) or bound_has_offset(e2)) and nord != 1:
        return 4
    return 0


def x_expr(P, te, sc, al, cl, e):
    k = e[0]
    if k == "col":
        return [("XAmbBare", sc, al, cl, e[2])] if e[1] is None else [("XAmbQual", sc, cl, e[1], e[2])]
    if k in ("lit", "star"):
        return []
    if k == "app":
        return x_exprs(P, te, sc, al, cl, e[2])
    if k == "win":
        out = x_exprs(P, te, sc, al, cl, e[2]) + x_exprs(P, te, sc, al, cl, e[3]) + x_exprs(P, te, sc, al, cl, e[4])
        if e[5] is not None:
            out.append(("XWFrame", e[5][0], e[5][1], e[5][2], len(e[4])))
        return out
    return x_query(P, hide_self(te), sc, e[1])


def x_exprs(P, te, sc, al, cl, xs):
    out = []
    for e in xs:
        out += x_expr(P, te, sc, al, cl, e)
    return out


def x_okeys(P, te, sc, outs, xs):
    out = []
    for e in xs:
        if e[0] == "col" and e[1] is None:
            out.append(("XAmbBare", sc, outs, 5, e[2]))
        else:
            out += x_expr(P, te, sc, outs if P["al_order_nested"] else [], 5, e)
    return out


def x_query(P, te, sc, q):
    _, rc, ctes, body, order, _lim = q
    out = []
    te1 = te
    for n, cq in ctes:
        r = out_query(te1, cq)
        out += x_query(P, ([(n, r, "V")] + te1) if (rc or P.get("implicit_rec")) else te1, [], cq)
        te1 = [(n, r, "N")] + te1
    te2 = env_ctes(te, ctes)
    out += x_setexpr(P, te2, sc, body)
    outs = list(out_setexpr(te2, body)[0])
    out += x_okeys(P, te2, order_scope(te2, sc, body), outs, order)
    if body[0] == "select" and agg_select(body[3], body[6], body[7]):
        kc, ks = kc_exprs(body[6]), ks_exprs(body[6])
        out += [("XGrouped", kc, ks, outs, 5, q_, c_) for q_, c_ in fc_exprs(order)]
    return out


def x_setexpr(P, te, sc, s):
    if s[0] == "select":
        _, _dk, don, items, trefs, w, g, h = s
        fr = from_frame(te, trefs)
        sc2 = [fr] + sc
        als = item_aliases(items)
        out = []
        for t in trefs:
            if t[0] != "ttable":
                out += x_query(P, hide_self(te), [], t[2])
            out += x_exprs(P, te, sc2, [], 6, t[4])
        for it in items:
            if it[0] == "iexpr":
                out += x_expr(P, te, sc2, [], 1, it[1])
        out += x_exprs(P, te, sc2, [], 7, don)
        out += x_exprs(P, te, sc2, als if P["al_where"] else [], 2, w)
        out += x_exprs(P, te, sc2, als if P["al_group"] else [], 3, g)
        out += x_exprs(P, te, sc2, als if P["al_having"] else [], 4, h)
        if agg_select(items, g, h):
            kc, ks = kc_exprs(g), ks_exprs(g)
            for it in items:
                if it[0] == "iexpr":
                    out += [("XGrouped", kc, ks, [], 1, q_, c_) for q_, c_ in fc_expr(it[1])]
                else:
                    out.append(("XGroupedWild", ks, it[1]))
            out += [("XGrouped", kc, ks, als if P["al_having"] else [], 4, q_, c_) for q_, c_ in fc_exprs(h)]
        return out
    if s[0] == "setop":
        return x_setexpr(P, te, sc, s[3]) + x_setexpr(P, te, sc, s[4])
    return x_query(P, te, sc, s[1])


def xobl_ok(XP, o):
    k = o[0]
    if k == "XAmbBare":
        return (list(o[2]).count(o[4]) if o[4] in o[2] else bare_count(o[1], o[4])) <= 1
    if k == "XAmbQual":
        return qual_count(o[1], o[3], o[4]) <= 1
    if k == "XWFrame":
        return frame_rules(o[1], o[2], o[3], o[4]) == 0
    if k == "XGrouped":
        return XP["bare_agg"] or key_match(o[1], o[2], o[5], o[6]) or (o[5] is None and o[6] in o[3])
    if k == "XGroupedWild":
        return XP["bare_agg"] or star_match(o[1], o[2])
    raise ValueError(k)


def xdiag_code(o):
    k = o[0]
    if k == "XAmbBare":
        return (21, o[3], o[4], 0)
    if k == "XAmbQual":
        return (22, o[2], o[3], o[4])
    if k == "XWFrame":
        return (23, o[1], frame_rules(o[1], o[2], o[3], o[4]) or 4, 0)
    if k == "XGrouped":
        return (24, o[4], o[5] or 0, o[6])
    if k == "XGroupedWild":
        return (25, o[2], 0, 0)
    raise ValueError(k)


def xdiag_codes(XP, P, te, q):
    return [xdiag_code(o) for o in x_query(P, te, [], q) if not xobl_ok(XP, o)]


# ------------------------------------------------------------------------------------------------ mirror of Model/DialectFeat.v

OPC = {"Union": 0, "Except": 1, "Intersect": 2}
QC = {"QAll": 0, "QDistinct": 1, "QNone": 2}


def lim_uses(lim, ordered):
    l, off, offrows, fetch = lim
    out = []
    if l:
        out.append((1, 0, 0))
    if fetch:
        out.append((4, 0, 0))
    if off and not l and not fetch:
        out.append((2, 0, 0))
    if (offrows or fetch) and not ordered:
        out.append((3, 0, 0))
    return out


def u_expr(e):
    k = e[0]
    if k in ("col", "lit", "star"):
        return []
    if k == "app":
        return ([(13, 0, 0)] if e[1] == 1 and len(e[2]) > 2 else []) + u_exprs(e[2])
    if k == "win":
        return u_exprs(e[2]) + u_exprs(e[3]) + u_exprs(e[4])
    return u_query(e[1])


def u_exprs(xs):
    out = []
    for e in xs:
        out += u_expr(e)
    return out


def u_query(q):
    _, rc, ctes, body, order, lim = q
    out = [(9, 0, 0)] if rc else []
    for _, cq in ctes:
        out += u_query(cq)
    out += u_setexpr(body) + u_exprs(order) + lim_uses(lim, bool(order))
    return out


def u_setexpr(s):
    if s[0] == "select":
        _, dk, don, items, trefs, w, g, h = s
        out = [(5, 0, 0)] if dk == "DOn" else []
        if not items:
            out.append((11, 0, 0))
        for it in items:
            if it[0] == "iexpr":
                out += u_expr(it[1])
            elif it[2] == 1:
                out.append((7, 0, 0))
            elif it[2] == 2:
                out.append((8, 0, 0))
        for t in trefs:
            if t[0] == "tderived":
                out += u_query(t[2])
            out += u_exprs(t[4])
        out += u_exprs(don) + u_exprs(w)
        if any(e[0] == "star" and e[1] is not None for e in g):
            out.append((12, 0, 0))
        out += u_exprs(g) + u_exprs(h)
        return out
    if s[0] == "setop":
        return [(6, OPC[s[1]], QC[s[2]])] + u_setexpr(s[3]) + u_setexpr(s[4])
    return [(10, 0, 0)] + u_query(s[1])


def extras_codes(xs):
    return [(14, x[1], 0) if x[0] == "KQuote" else (15, 0, 0) for x in xs]


def supported(d, c):
    k, a, b = c
    isin = lambda l: d in l
    if k == 1:
        return not isin(["mssql"])
    if k == 4:
        return not isin(["sqlite", "mysql", "bigquery"])
    if k == 2:
        return not isin(["sqlite", "mysql"])
    if k == 3:
        return not isin(["mssql"])
    if k == 5:
        return isin(["postgres", "duckdb", "clickhouse", "glaredb"])
    if k == 6:
        if b == 1:
            return not isin(["sqlite", "mssql"])
        if b == 2:
            return not isin(["bigquery"])
        if a == 0:
            return True
        return not isin(["sqlite", "mssql", "bigquery", "duckdb"])
    if k == 7:
        return isin(["duckdb", "snowflake"])
    if k == 8:
        return isin(["bigquery"])
    if k == 9:
        return not isin(["mssql"])
    if k == 10:
        return not isin(["sqlite"])
    if k == 11:
        return isin(["postgres"])
    if k == 12:
        return not isin(["sqlite"])
    if k == 13:
        return not isin(["sqlite", "redshift"])
    if k == 14:
        if a == 96:
            return isin(["mysql", "bigquery", "clickhouse"])
        if a == 34:
            return not isin(["mysql", "bigquery"])
        if a == 91:
            return isin(["mssql"])
        return False
    if k == 15:
        return not isin(["sqlite", "mssql"])
    raise ValueError(c)


def dialect_report(d, q, extras):
    us = u_query(q) + extras_codes(extras)
    return us, [c for c in us if not supported(d, c)]


CONSTRUCTS = {1: "LIMIT", 2: "OFFSET without LIMIT", 3: "OFFSET/FETCH without ORDER BY", 4: "FETCH", 5: "DISTINCT ON", 6: "set operation",
              7: "* EXCLUDE", 8: "* EXCEPT", 9: "WITH RECURSIVE", 10: "parenthesised set operand", 11: "zero-column SELECT", 12: "GROUP BY t.*",
              13: "CONCAT with more than two arguments", 14: "identifier quote", 15: "INTERVAL literal"}


def construct_text(c):
    k, a, b = c
    if k == 6:
        return "%s %s" % (["UNION", "EXCEPT", "INTERSECT"][a], ["ALL", "DISTINCT", "(implicit distinct)"][b])
    if k == 14:
        return "identifier quoted with %s" % chr(a)
    return CONSTRUCTS[k]

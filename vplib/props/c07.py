"""C07 -- every accepted program compiles to SQL the selected dialect parses and binds.

Streams (after the translators and the proof step):
  parse    (a) every compile success x 12 dialects is re-parsed by sqlparser in the matching dialect: exactly one statement
  tokens       sqlparser's token stream of the emitted text has no comment and no `;` token (single statement)
  scope    (b) sqlparser AST -> model AST (vplib/sqlast.py); `well_scoped` by the python mirror on ALL cases and by Coq
               (coq_eval) on a sample; the mirror is cross-validated against Coq on every Coq-evaluated case
  dialect  (b) `dialect_ok`: constructs used by the emitted query vs the engine-fact table, same two evaluators
  sqlite   (c) sqlite3_prepare + run of sql.sqlite / sql.generic output against a schema holding the referenced tables
  ops      (d) for every (dialect, operator of std.sql.prql): the model's `op_outcome` (Coq, from the regenerated table)
               vs the compiler: `null` template => compile error, never emitted
  limit        the model of translate_select_pipeline's LIMIT/OFFSET/FETCH logic (`limit_model`, the subject of
               c07_take_ok_*) vs the compiler on take ranges x ordered x 12 dialects
"""
import json
import re

from ..common import Check, coq_eval, harness, coq_codes
from ..translate import gen_dialect_feat
from .. import sqlast as A
from . import c07_gen as CG
from . import c07_lib as L

TRUSTED = [
    "Coq 8.16.1 kernel (coqc, vm_compute); no axioms: every theorem is 'Closed under the global context'",
    "translator vplib/translate/gen_dialect_feat.py (scanners over sql/dialect.rs and sql/gen_expr.rs; prqlc's own parser for sql/std.sql.prql; fail closed)",
    "specification tables written by hand: Model/DialectFeat.v `supported` (engine facts: executed on SQLite, the compiler's own support matrix, elementary vendor grammar) and the per-dialect alias profile of Model/SqlScope.v (SQLite only; all other engines judged by the strict standard rules)",
    "SQL scoping rules as modelled in Model/SqlScope.v (hand-written specification; over-approximation: ON sees the whole FROM list; ambiguity of bare columns is not modelled)",
    "sqlparser 0.60 per-dialect parsers and tokenizer (the oracle the property names) and the converter vplib/sqlast.py (fails loudly on node kinds it does not model); the python mirror is cross-validated against Coq on every Coq-evaluated case",
    "harness (prqlc::compile, sqlparser, rusqlite bundled SQLite 3.49) and the program generator vplib/props/c07_gen.py",
    "ten of twelve engines cannot be executed here: for them 'binds' is the model's scope verdict plus sqlparser's re-parse",
]

XPROFILE = {"sqlite": {"bare_agg": True}}       # SQLite accepts bare columns next to aggregates


def xprofile(d):
    return XPROFILE.get(d, A.XSTRICT)


PROFILE = {"sqlite": {"al_where": True, "al_group": True, "al_having": True, "al_order_nested": True, "zero_cols": False, "implicit_rec": False},
           "postgres": dict(A.STRICT, zero_cols=True),
           "mssql": dict(A.STRICT, implicit_rec=True)}      # T-SQL: recursion of a CTE is implicit (matters once WITH RECURSIVE is no longer emitted there: fixes/C07-N6)


def profile(d):
    return PROFILE.get(d, A.STRICT)


def run():
    ck = Check("C07", level="proof")
    info = gen_dialect_feat.generate()
    pr = ck.prove()
    if "error" in info:
        ck.coverage["translator_error"] = info["error"]
    broken = not pr["ok"]
    if broken:
        # the executable models must exist for the search even when an obligation no longer checks
        from ..common import coq_make, Lock
        with Lock("coq"):
            coq_make(["Model/SqlScope.vo", "Model/DialectFeat.vo"])
    names = info.get("names") or L.FALLBACK_NAMES
    rng = ck.rng

    # ------------------------------------------------------------------ cases
    g = CG.G(rng)
    cases = []
    for f in ck.findings:
        for rp in L.replays_of(f):
            cases.append({"src": rp["src"], "fam": "replay", "tags": rp.get("tags", []), "only": rp.get("target")})
    cases += CG.G.repaired_cases()          # programs whose defect was repaired in /repo: no classifier knows them
    for fam in CG.G.FAMILIES:
        for _ in range(ck.n(6, 40)):
            cases.append(g.case(fam))
    for _ in range(ck.n(420, 6000) * (2 if broken else 1)):
        cases.append(g.case())
    creqs, cmeta = [], []
    for ci, c in enumerate(cases):
        for d in names:
            if c.get("only") and c["only"] != d:
                continue
            creqs.append({"src": c["src"], "target": "sql." + d})
            cmeta.append((ci, d))
    cans = harness("compile", creqs)
    accepted = []     # records
    for (ci, d), a in zip(cmeta, cans):
        c = cases[ci]
        ck.stat("compile", "fam:" + c["fam"])
        if "ok" in a:
            ck.stat("compile", "accepted:" + c["fam"])
            accepted.append({"ci": ci, "src": c["src"], "fam": c["fam"], "tags": c["tags"], "target": d, "sql": a["ok"]})
        elif "err" in a:
            ck.stat("compile", "rejected:" + c["fam"])
            r = a["err"][0].get("reason") or ""
            if "not supported" in r or "does not support" in r:
                ck.stat("compile", "error:unsupported-construct-reported")
        else:
            ck.stat("compile", "panic(C12):" + L.panic_site(a))
    ck.coverage["programs"] = len(cases)
    ck.coverage["accepted_pairs"] = len(accepted)

    def report(rec, kind, msg, extra=None):
        case = {"src": rec["src"], "target": "sql." + rec["target"], "sql": rec["sql"], "fam": rec["fam"], "tags": rec["tags"], "kind": kind, "msg": msg}
        if extra:
            case.update(extra)
        fid = L.classify(case)
        if fid is not None and fid.startswith("oracle-"):
            ck.stat(kind, "skipped:" + fid)
            return
        ck.disagreement("%s [%s]: %s | %s => %s" % (kind, rec["target"], msg[:160], rec["src"].replace("\n", " | ")[:200], rec["sql"][:240]), case, lambda _c, f=fid: f)

    # ------------------------------------------------------------------ (a) re-parse, exactly one statement
    pans = harness("c07_parse", [{"sql": r["sql"], "dialect": r["target"]} for r in accepted])
    for r, a in zip(accepted, pans):
        ck.count("parse", r["target"] + "|" + r["sql"])
        ck.stat("parse", "dialect:" + r["target"])
        r["ast"] = None
        if "parse_err" in a:
            ck.stat("parse", "error")
            extra = None
            if r["target"] == "ansi":
                b = harness("c07_parse", [{"sql": L.quote_underscore_idents(r["sql"]), "dialect": "ansi"}], shards=1)[0]
                extra = {"parses_when_underscore_idents_quoted": b.get("n") == 1}
            report(r, "parse", "sqlparser (%s) rejects the emitted SQL: %s" % (r["target"], a["parse_err"]), extra)
        elif a.get("n") != 1:
            report(r, "parse", "emitted text is %s statements, not one" % a.get("n"))
        else:
            r["ast"] = a["ast"][0]

    # ------------------------------------------------------------------ tokens: no comment, no separator
    tans = harness("c07_toks", [{"sql": r["sql"], "dialect": r["target"]} for r in accepted])
    for r, a in zip(accepted, tans):
        ck.count("tokens", r["target"] + "|" + r["sql"], nontrivial=False)
        if "toks" not in a:
            ck.stat("tokens", "tokenizer-error")
            continue
        bad = [t for t in a["toks"] if t[0] in ("Comment", "SemiColon")]
        # a numeral with a type suffix (sqlparser prints the `long` flag of Value::Number as L): a numeral of none of the twelve dialects
        bad += [["LongSuffixNumber", t[1]] for t in a["toks"] if t[0] == "Number" and t[1][-1:] in "Ll"]
        glued = 0
        for t, u in zip(a["toks"], a["toks"][1:]):
            if t[2] == u[2] and t[4] == u[3]:
                glued += 1
                if t[1][-1:] in "-/" and u[1][:1] in "-*" and (t[1][-1:], u[1][:1]) in (("-", "-"), ("/", "*")):
                    bad.append(["GluedOpener", t[1] + u[1]])
        ck.stat("tokens", "glued-pairs", glued)
        if bad:
            report(r, "tokens", "token stream contains %s %r: %s" % (bad[0][0], bad[0][1][:40], "not a numeral of the dialect" if bad[0][0] == "LongSuffixNumber" else "not a single statement"))

    # ------------------------------------------------------------------ (b) model AST, scope + dialect verdicts
    I = A.Interner()
    te = [A.base_table(I.id(t), [I.id(c) for c in cs], False) for t, cs in CG.SCHEMA.items()]
    judged = []
    for r in accepted:
        if r["ast"] is None:
            continue
        try:
            q, extras = A.convert(r["ast"], I)
        except A.Unmodelled as ex:
            ck.stat("scope", "unmodelled:" + str(ex).split(" ")[0])
            ck.coverage.setdefault("unmodelled", {})
            k = str(ex).split(" ")[0]
            ck.coverage["unmodelled"][k] = ck.coverage["unmodelled"].get(k, 0) + 1
            if "sstring" not in r["tags"]:
                report(r, "scope", "sqlparser node kind not modelled by the converter: %s" % ex)
            continue
        r["q"], r["extras"] = q, extras
        P = profile(r["target"])
        r["diags"] = A.diag_codes(P, te, q)
        r["uses"], r["unsup"] = A.dialect_report(r["target"], q, extras)
        xo = A.x_query(P, te, [], q)
        r["xdiags"] = [A.xdiag_code(o) for o in xo if not A.xobl_ok(xprofile(r["target"]), o)]
        for o in xo:
            ck.stat("scopex", "obligations:" + {"XAmbBare": "ambiguity", "XAmbQual": "ambiguity", "XWFrame": "frame", "XGrouped": "grouping", "XGroupedWild": "grouping"}[o[0]])
        if any(o[0] in ("XGrouped", "XGroupedWild") for o in xo):
            ck.stat("scopex", "aggregate-select:" + ("strict" if not xprofile(r["target"])["bare_agg"] else "sqlite-profile"))
        judged.append(r)
        ck.count("scope", r["target"] + "|" + r["sql"])
        ck.stat("scope", "verdict:" + ("OK" if not r["diags"] else "Bad"))
        ck.stat("scope", "ctes:%d" % min(len(q[2]), 4))
        for u in set(r["uses"]):
            ck.stat("dialect", "uses:" + A.construct_text(u))
        ck.count("dialect", r["target"] + "|" + r["sql"], nontrivial=bool(r["uses"]))
        for d_ in r["diags"][:1]:
            report(r, "scope", "emitted SQL is not well scoped: " + A.diag_text(d_, I), {"diag": list(d_), "diag_names": [I.name(x) for x in d_[1:]]})
        ck.stat("scopex", "verdict:" + ("OK" if not r["xdiags"] else "Bad"))
        seen_x = set()
        for d_ in r["xdiags"]:
            if d_[0] in seen_x:          # the first diagnostic of each kind (ambiguity / frame / grouping are independent defects)
                continue
            seen_x.add(d_[0])
            ck.stat("scopex", "diag:%s:%s" % ({21: "ambiguous-bare", 22: "ambiguous-qualified", 23: "frame", 24: "ungrouped-column", 25: "ungrouped-star"}.get(d_[0], d_[0]), r["target"]))
            report(r, "scopex", "emitted SQL does not bind: " + A.diag_text(d_, I), {"diag": list(d_), "diag_names": [I.name(x) for x in d_[1:]]})
        for u in r["unsup"][:1]:
            report(r, "dialect", "emitted SQL uses a construct %s does not accept: %s" % (r["target"], A.construct_text(u)), {"construct": list(u)})
    # Coq evaluation: every case the mirror judges Bad (capped) + a random sample of the rest
    bad = [r for r in judged if r["diags"] or r["unsup"] or r["xdiags"]]
    good = [r for r in judged if not (r["diags"] or r["unsup"] or r["xdiags"])]
    rng.shuffle(bad)
    rng.shuffle(good)
    sample = bad[: ck.n(150, 1500)] + good[: ck.n(350, 4000)]
    if pr["ok"] or "error" not in info:
        header = ("From Coq Require Import List NArith.\nFrom PV Require Import Lib.ListX Model.SqlAst Model.SqlScope Model.SqlScopeX Model.DialectFeat.\n"
                  "Import ListNotations.\nLocal Open Scope N_scope.\n")
        exprs = []
        for r in sample:
            exprs.append("(let q := %s in (diag_codes %s %s q, dialect_report %s q %s, xdiag_codes %s %s %s q))" % (
                A.coq_query(r["q"]), A.coq_prof(profile(r["target"])), A.coq_te(te), coq_codes(r["target"]).replace("%N", ""), A.coq_extras(r["extras"]),
                A.coq_xprof(xprofile(r["target"])), A.coq_prof(profile(r["target"])), A.coq_te(te)))
        try:
            vals = coq_eval(header, exprs)
        except RuntimeError as ex:
            vals = None
            ck.coverage["coq_eval_error"] = str(ex)[-600:]
            ck.violation("the model cannot be evaluated in Coq", {"kind": "coq-eval", "error": str(ex)[-800:]}, no_input=True)
        if vals is not None:
            for r, v in zip(sample, vals):
                ck.count("scope-coq", r["target"] + "|" + r["sql"])
                cd = [tuple(x) for x in v[0]]
                cu = [tuple(x) for x in v[1][0]]
                cx = [tuple(x) for x in v[1][1]]
                cxd = [tuple(x) for x in v[2]]
                if cd != [tuple(x) for x in r["diags"]] or cu != [tuple(x) for x in r["uses"]] or cx != [tuple(x) for x in r["unsup"]] or cxd != [tuple(x) for x in r["xdiags"]]:
                    ck.violation("python mirror and Coq model disagree on %s" % r["sql"][:200],
                                 {"kind": "mirror-mismatch", "sql": r["sql"], "target": r["target"], "coq": [cd, cu, cx, cxd], "mirror": [r["diags"], r["uses"], r["unsup"], r["xdiags"]]})
            ck.coverage["coq_cross_validated"] = len(sample)

    # ------------------------------------------------------------------ (c) SQLite prepare/run for sqlite and generic
    xs = [r for r in accepted if r["target"] in ("sqlite", "generic")]
    xans = harness("exec", [{"setup": CG.sqlite_setup(), "sql": r["sql"]} for r in xs])
    for r, a in zip(xs, xans):
        ck.count("sqlite", r["target"] + "|" + r["sql"])
        if "rows" in a:
            ck.stat("sqlite", "prepared:" + r["target"])
            continue
        msg = str(a.get("exec_err") or a)
        short = msg.split(" in ")[0]
        if L.SQLITE_VIOLATION.search(short):
            ck.stat("sqlite", "error:" + re.sub(r"\d+", "N", short)[:60])
            # the model's first scope diagnostic of the same text (if any) goes with the case: classifiers read arities from it
            report(r, "sqlite", "SQLite rejects the emitted SQL: " + short, {"scope_diag": list(r["diags"][0])} if r.get("diags") else None)
        else:
            ck.stat("sqlite", "engine-gap:" + re.sub(r"\d+", "N", short)[:60])

    # ------------------------------------------------------------------ (d) unsupported operators are compile errors
    ops_stream(ck, info, names)
    # ------------------------------------------------------------------ LIMIT/OFFSET/FETCH model vs compiler
    limit_stream(ck, info, names, I)
    # ------------------------------------------------------------------ value-level clause model vs the hook of translate_select_pipeline
    clauses_stream(ck, info, names, cases)
    # ------------------------------------------------------------------ translate_cid: qualified or bare, vs the hook
    cid_stream(ck, cases)

    ck.proof_broken_violation(found_input=bool([v for v in ck.violations if not v[2]]))
    ck.assumptions += ["tables t,u,v,`my table` have the columns of c07_gen.SCHEMA (closed schema for the model, CREATE TABLE for SQLite)",
                       "sql.generic output is executed on SQLite; constructs of standard SQL that SQLite lacks (EXCEPT ALL, typed-string literals, ...) are skipped there and counted",
                       "function existence / arity on the target engine is not part of the property (counted as engine-gap)",
                       "panics and internal compiler errors are not accepted programs (C12); counted"]
    ck.finish(TRUSTED, "cases = generated programs (15 construct families, see c07_gen) + replays of the known findings, each compiled for the 12 dialects; a case of a stream = (dialect, emitted SQL); distinct = hash of that pair; non-trivial = compile success (dialect stream: uses at least one dialect-sensitive construct)")


def ops_stream(ck, info, names):
    ops = sorted({op for _, op, _, _ in info.get("ops", [])}) if "ops" in info else sorted(L.OP_PROGRAMS)
    uncovered = [o for o in ops if o not in L.OP_PROGRAMS]
    ck.coverage["ops_uncovered"] = uncovered
    pairs = [(d, o) for d in names for o in ops if o in L.OP_PROGRAMS]
    model = {}
    if "ops" in info and (ck.proof["ok"] or True):
        header = ("From Coq Require Import List NArith.\nFrom PV Require Import Lib.ListX Model.DialectFeat Gen.GenDialectFeat.\n"
                  "Import ListNotations.\nLocal Open Scope N_scope.\n")
        try:
            vals = coq_eval(header, ["outcome_code (op_outcome std_ops native_ops %s %s)" % (coq_codes(d).replace("%N", ""), coq_codes("std." + o).replace("%N", "")) for d, o in pairs])
            model = dict(zip(pairs, vals))
        except RuntimeError as ex:
            ck.coverage["ops_model_error"] = str(ex)[-400:]
    if not model:
        # generated table not loadable in Coq: python reading of the same rule drives the search
        tbl = {(m, o): isnull for m, o, isnull, _ in info.get("ops", [])}
        natives = set(info.get("natives") or ["std." + x for x in ("mul", "add", "sub", "eq", "ne", "gt", "lt", "gte", "lte", "and", "or", "concat")])
        for d, o in pairs:
            if "std." + o in natives:
                model[(d, o)] = 0
            elif (d, o) in tbl:
                model[(d, o)] = 1 if tbl[(d, o)] else 0
            elif ("", o) in tbl:
                model[(d, o)] = 1 if tbl[("", o)] else 0
            else:
                model[(d, o)] = 1 if tbl else None
    ans = harness("compile", [{"src": L.OP_PROGRAMS[o], "target": "sql." + d} for d, o in pairs])
    for (d, o), a in zip(pairs, ans):
        ck.count("ops", d + "|" + o)
        want = model.get((d, o))
        if "ok" in a:
            got = 0
        elif "err" in a:
            got = 1
            ck.stat("ops", "error:" + ("not-supported" if any("is not supported for dialect" in (e.get("reason") or "") for e in a["err"]) else "earlier-error"))
        else:
            got = 2
        ck.stat("ops", "outcome:%s" % ["emitted", "compile-error", "panic-or-abort"][got])
        if want is None:
            continue
        if want != got:
            what = {0: "emitted", 1: "a compile error (no implementation for the dialect)"}[want]
            ck.disagreement("operator %s for %s: model says %s, compiler: %s" % (o, d, what, json.dumps(a)[:200]),
                            {"kind": "ops", "target": "sql." + d, "src": L.OP_PROGRAMS[o], "op": o, "model": want, "compiler": a, "tags": [], "sql": a.get("ok", ""), "msg": ""}, L.classify)
    for o in uncovered:
        if any(isnull for m, oo, isnull, _ in info.get("ops", []) if oo == o and m):
            ck.violation("operator %s has a null template and no program of the harness uses it" % o, {"kind": "ops-uncovered", "op": o}, no_input=True)


def limit_stream(ck, info, names, I):
    rngs = [(s, e) for s in (None, 1, 2, 4) for e in (None, 1, 3, 7) if not (s is None and e is None)]
    cases = []
    for d in names:
        for ordered in (False, True):
            for s, e in rngs:
                if s is not None and e is not None and e < s:
                    continue
                t = "take %s..%s" % ("" if s is None else s, "" if e is None else e)
                cases.append((d, ordered, s, e, "from t\n%s%s" % ("sort a\n" if ordered else "", t)))
    ans = harness("compile", [{"src": c[4], "target": "sql." + c[0]} for c in cases])
    ok = [(c, a["ok"]) for c, a in zip(cases, ans) if "ok" in a]
    pans = harness("c07_parse", [{"sql": sql, "dialect": c[0]} for c, sql in ok])
    feats = info.get("feats")
    model = None
    if feats:
        header = ("From Coq Require Import List NArith.\nFrom PV Require Import Model.SqlAst Model.DialectFeat.\nImport ListNotations.\nLocal Open Scope N_scope.\n")
        o = lambda x: "None" if x is None else "(Some %d)" % x
        try:
            vals = coq_eval(header, ["(let r := limit_model %s %s %s %s %s in (l_limit (fst r), l_offset (fst r), l_offset_rows (fst r), l_fetch (fst r), snd r))" % (
                "true" if feats[c[0]]["use_fetch"] else "false", "false" if feats[c[0]].get("limit_for_bare_offset") is None else "true",
                "true" if c[1] else "false", o(c[2]), o(c[3])) for c, _ in ok])
            model = vals
        except RuntimeError as ex:
            ck.coverage["limit_model_error"] = str(ex)[-400:]
    for k, ((c, sql), a) in enumerate(zip(ok, pans)):
        ck.count("limit", c[0] + "|" + c[4])
        if a.get("n") != 1:
            continue
        try:
            q, _ = A.convert(a["ast"][0], I)
        except A.Unmodelled:
            continue
        got = tuple(q[5]) + (bool(q[4]),)
        if model is not None and tuple(model[k]) != got:
            ck.disagreement("LIMIT/OFFSET/FETCH shape differs from the model for %s on %s: model %s, compiler %s (%s)" % (c[4].replace("\n", " | "), c[0], model[k], got, sql),
                            {"kind": "limit", "src": c[4], "target": "sql." + c[0], "sql": sql, "model": list(model[k]), "compiler": list(got), "tags": [], "msg": ""}, lambda _c: None)


CLAUSE_DIRECTED = [
    "from t\ntake 2..4\ntake 2..", "from t\nsort a\ntake 3\ntake 2", "from t\ntake 5..3", "from t\ntake 3\ntake 5..", "from t\ntake 2..\ntake 3..\ntake ..4",
    "from t\nselect {a}\ngroup {a} (take 1)\ntake 3", "from t\nselect {a, b}\ngroup {a, b} (take 1)\ntake 2..", "from t\nselect {x = a + 1}\ngroup {x} (take 1)\ntake 2..5",
    "from t\ngroup {a, b, c, g, id} (take 1)\ntake 4", "from t\nsort {a, -b}\ntake 2..7\nfilter a > 1\ntake 3..", "from t\ntake 9223372036854775807..",
    "from t\ntake 3..\ntake 9223372036854775807..", "from t\ntake ..9223372036854775807\ntake 2..", "from t\njoin u (==id)\ntake 2..3", "from t\nsort a\nderive {r = a + 1}\ntake 1..",
    "from t\naggregate {n = count this}\ntake 1", "from t\nsort a\ntake 2\nsort b\ntake 1..1",
    # a take in front of a distinct shares its SELECT (relational finding F19): the forced ORDER BY key is the first select item
    "from t\nselect {a}\ntake 3\ngroup {a} (take 1)", "from t\nselect {x = a + 1, b}\ntake 2..5\ngroup {x, b} (take 1)", "from t\ntake 4\ngroup {a, b, c, g, id} (take 1)",
    "from t\nselect {a, b}\ntake 2..\ngroup {a, b} (take 1)",
    # LIMIT at and beyond 2^32: expr_of_i64 sets the `long` flag (C07-N17)
    "from t\ntake 4294967295", "from t\ntake 4294967296", "from t\ntake 3..4294967300", "from t\nsort a\ntake 2..\ntake ..4294967296",
]


def clauses_stream(ck, info, names, cases):
    """Tie B for Model/SelectClauses.v: every real call of translate_select_pipeline (hooks verif:select_pipeline_in / _mid / _out,
    /repo commit 7400a50) vs `select_limit` evaluated in Coq on the row of the regenerated feature table -- limit, offset (+ROWS),
    fetch, ORDER BY (number of keys or the forced key), compared field by field"""
    srcs = list(CLAUSE_DIRECTED)
    for s in (None, 1, 2, 4):
        for e in (None, 1, 3, 7):
            if s is None and e is None or (s is not None and e is not None and e < s):
                continue
            for pre in ("", "sort a\n"):
                srcs.append("from t\n%stake %s..%s" % (pre, "" if s is None else s, "" if e is None else e))
    pool = [c["src"] for c in cases if c["fam"] in ("take", "distinct", "core", "core_nosel", "sort_dropped", "empty", "sort_setop", "join") and "take" in c["src"]]
    ck.rng.shuffle(pool)
    srcs += pool[: ck.n(60, 1500)]
    srcs = list(dict.fromkeys(srcs))
    reqs = [{"src": src, "target": "sql." + d, "want": [], "msg_prefix": "verif:select_pipeline"} for src in srcs for d in names]
    ans = harness("log", reqs)
    feats = info.get("feats") or {}
    if "error" in info:
        ck.coverage["clauses_skipped"] = "translator failed closed: " + info["error"][:200]
        return
    calls = {}       # canonical key -> (dialect, nsort, distinct, proj, takes, expected, src)
    I = {}           # text -> id

    def tid(t):
        return I.setdefault(t, len(I) + 1)
    seen_hook = False
    ok_compiles = 0
    for rq, a in zip(reqs, ans):
        stack, triples = [], []
        for e in a.get("entries", []):
            m = e.get("Message") or ""
            for tag in ("in", "mid", "out"):
                pre = "verif:select_pipeline_%s " % tag
                if m.startswith(pre):
                    seen_hook = True
                    d = json.loads(m[len(pre):])
                    if tag == "in":
                        stack.append({"in": d})
                    elif tag == "mid" and stack:
                        stack[-1]["mid"] = d
                    elif tag == "out" and stack:
                        t = stack.pop()
                        t["out"] = d
                        triples.append(t)
        if "ok" in a:
            ok_compiles += 1
            if stack:
                ck.violation("hook lines of translate_select_pipeline do not pair up (in without out) in a successful compile", {"kind": "clauses-pairing", "src": rq["src"], "target": rq["target"]})
        if "err" in a and stack and any("take range is too large" in (e.get("reason") or "") for e in a["err"]):
            # the call that raised: the innermost `in` without `out`; the model has to fail on the same input
            din = stack[-1]["in"]
            tk = [(tr["start"], tr["end"]) for tr in din["pipeline"] if tr["kind"] == "Take"]
            key = json.dumps([din["dialect"].lower(), 0, False, [], tk, "ERR"], sort_keys=True)
            calls.setdefault(key, (din["dialect"].lower(), 0, False, [], tk, "ERR", rq))
        for t in triples:
            if "mid" not in t:
                ck.violation("hook verif:select_pipeline_mid missing between in and out", {"kind": "clauses-pairing", "src": rq["src"], "target": rq["target"]})
                continue
            din, dmid, dout = t["in"], t["mid"], t["out"]
            dn = din["dialect"].lower()
            if dn in feats:
                f = feats[dn]
                if bool(f["use_fetch"]) != bool(din["use_fetch"]) or f.get("limit_for_bare_offset") != din["limit_for_bare_offset"]:
                    ck.disagreement("dialect values read by translate_select_pipeline differ from the regenerated table for %s: %s vs use_fetch=%s limit_for_bare_offset=%s" % (
                        dn, (f["use_fetch"], f.get("limit_for_bare_offset")), din["use_fetch"], din["limit_for_bare_offset"]),
                        {"kind": "clauses-feat", "src": rq["src"], "target": rq["target"], "tags": [], "sql": "", "msg": ""}, lambda _c: None)
            q = dout["query"]
            if not isinstance(q, dict):
                ck.violation("translate_select_pipeline returned a query the hook does not describe: %s" % q, {"kind": "clauses-unmodelled", "src": rq["src"], "target": rq["target"]})
                continue
            takes, nsort, distinct = [], 0, False
            for tr in din["pipeline"]:
                if tr["kind"] == "Take":
                    takes.append((tr["start"], tr["end"]))
                elif tr["kind"] == "Sort":
                    nsort = len(tr["keys"])
                elif tr["kind"] == "Distinct":
                    distinct = True
            proj = []
            for it in dmid["projection"]:
                if isinstance(it, str):
                    proj.append(("w",))
                elif "unnamed" in it:
                    proj.append(("u", tid(it["unnamed"])))
                else:
                    proj.append(("a", tid(it["alias"])))
            exp = {"limit": q["limit"], "offset": q["offset"], "fetch": (q["fetch"] or {}).get("quantity") if q["fetch"] else None, "order_by": q["order_by"],
                   "limit_by": q["limit_by"], "fetch_flags": [q["fetch"]["with_ties"], q["fetch"]["percent"]] if q["fetch"] else None}
            key = json.dumps([dn, nsort, distinct, proj, takes, exp], sort_keys=True)
            calls.setdefault(key, (dn, nsort, distinct, proj, takes, exp, rq))
    ck.coverage["clauses_compiles"] = ok_compiles
    if ok_compiles and not seen_hook:
        # fail closed: the observation point is gone (or the tree predates commit 7400a50)
        ck.violation("no verif:select_pipeline_* line in any of %d successful compiles: the hook of translate_select_pipeline is missing" % ok_compiles,
                     {"kind": "clauses-hook-missing"}, no_input=True)
        return
    keys = sorted(calls)

    def cz(b):
        if b is None:
            return "None"
        if isinstance(b, int):
            return "(Some (BInt (%d)%%Z))" % b
        return "(Some BOther)"
    header = ("From Coq Require Import List NArith ZArith.\nFrom PV Require Import Lib.ListX Model.Checked Model.RangeArith Model.SelectClauses Gen.GenDialectFeat.\n"
              "Import ListNotations.\n")
    exprs = []
    for k in keys:
        dn, nsort, distinct, proj, takes, exp, rq = calls[k]
        pj = "; ".join({"w": "PWild", "u": "PUnnamed %d%%N", "a": "PAliased %d%%N"}[p[0]] % p[1:] for p in proj)
        tk = "; ".join("ERange %s %s" % (cz(s), cz(e)) for s, e in takes)
        exprs.append("clauses_code (match find_feat feats [%s]%%N with Some f => select_limit (use_fetch f) (bare_offset_limit f) %d%%nat %s [%s] [%s] | None => Panic end)" % (
            ";".join(str(ord(c)) for c in dn), nsort, "true" if distinct else "false", pj, tk))
    try:
        vals = coq_eval(header, exprs) if exprs else []
    except RuntimeError as ex:
        ck.coverage["clauses_model_error"] = str(ex)[-600:]
        ck.violation("the clause model cannot be evaluated in Coq", {"kind": "coq-eval", "error": str(ex)[-800:]}, no_input=True)
        return
    names_of = {v: t for t, v in I.items()}
    agree = 0
    for k, v in zip(keys, vals):
        dn, nsort, distinct, proj, takes, exp, rq = calls[k]
        ck.count("clauses", k, nontrivial=bool(takes))
        ck.stat("clauses", "takes:%d" % min(len(takes), 3))
        ck.stat("clauses", "dialect:" + dn)
        tag, body = v[0], v[1]
        got = None
        if exp == "ERR":
            ck.stat("clauses", "error:take-range-too-large")
            if tag == 0:
                agree += 1
            else:
                ck.disagreement("compiler reports `take range is too large`, Model/SelectClauses.v returns a clause record: %s for %s" % (rq["src"].replace("\n", " | "), dn),
                                {"kind": "clauses", "src": rq["src"], "target": rq["target"], "model": list(v), "compiler": "error", "tags": [], "sql": "", "msg": ""}, lambda _c: None)
            continue
        if tag == 1:
            lk, lz, ls, off, fe, od = body
            got = {"limit": None if lk == 0 else (str(lz) if lk == 1 else str(lz) + "L" if lk == 3 else "".join(chr(c) for c in ls)),
                   "offset": None if off[0] == 0 else {"value": str(off[1]), "rows": "Rows" if off[2] else "None"},
                   "fetch": None if fe[0] == 0 else str(fe[1])}
            if od[0] == 0:
                ordok = len(exp["order_by"] or []) == od[1] and isinstance(exp["order_by"], (list, type(None)))
                ck.stat("clauses", "order:keys" if od[1] else "order:none")
            else:
                want_expr = "(SELECT NULL)" if od[0] == 1 else names_of.get(od[2])
                ordok = exp["order_by"] == [{"expr": want_expr, "asc": None, "nulls_first": None}]
                ck.stat("clauses", "order:forced-null" if od[0] == 1 else "order:forced-first-item")
            same = ordok and got["limit"] == exp["limit"] and got["offset"] == exp["offset"] and got["fetch"] == exp["fetch"] \
                and exp["limit_by"] == 0 and exp["fetch_flags"] in (None, [False, False])
            for fld in ("limit", "offset", "fetch"):
                if got[fld] is not None:
                    ck.stat("clauses", "has:" + fld)
        else:
            same = False
        if same:
            agree += 1
        else:
            ck.disagreement("clause tail of translate_select_pipeline differs from Model/SelectClauses.v on %s for %s: model %s (order %s), compiler %s" % (
                rq["src"].replace("\n", " | "), dn, got if tag == 1 else ["Fail", "", "Panic"][tag], body[5] if tag == 1 else "-", exp),
                {"kind": "clauses", "src": rq["src"], "target": rq["target"], "model": list(v), "compiler": exp, "tags": [], "sql": "", "msg": ""}, lambda _c: None)
    ck.coverage["clauses_calls_distinct"] = len(keys)
    ck.coverage["clauses_agree"] = agree


CID_DIRECTED = [
    "from t\njoin u (t.id == u.id)\nselect {t.a, u.d, z = t.b + 1}\nsort {u.d}\ntake 3\nfilter z > 1",
    "from t\nselect {a, b}\nsort b\ntake 2", "from x = t\njoin y = t (x.id == y.g)\nselect {x.a, ya = y.a}\nsort {y.a}",
    "from t\njoin u (t.g == u.g)\ntake 5\nfilter u.id > 1", "from t\ngroup {g} (aggregate {n = count this})\nsort {-n}",
    "from t\nderive {k = a * 2}\nsort k\nselect {b}\ntake 3", "from t\njoin u (==id)\njoin v (t.id == v.id)\nselect {t.a, u.d, v.s}\nsort {v.s, t.a}",
    "let x = (from t | select {id, a} | sort a)\nfrom x\njoin u (x.id == u.id)\nselect {x.a, u.d}", "from t\nfilter a > 1\nderive {z = s\"ABS({a} - {b})\"}\nsort z",
    "from `my table`\nfilter `a b` > 1\nsort `order`\ntake 2", "from t\ngroup {g} (sort a | take 1)", "from t\nselect {a}\nappend (from u | select {a})\nsort a",
]


def cid_stream(ck, cases, targets=("postgres", "sqlite", "mssql", "snowflake")):
    """Tie B for Model/TranslateCid.v: every real call of translate_cid on a relation column or post-projection (hook
    verif:translate_cid, hooks/translate-cid.diff) vs the model; the FROM list of the SELECT being assembled is taken from
    the enclosing verif:select_pipeline_in, so `omit_ident_prefix = (count_tables == 1)` is part of the comparison"""
    pool = [c["src"] for c in cases if c["fam"] in ("core", "core_nosel", "join", "let", "sort_dropped", "window", "setops", "quoted", "distinct", "take")]
    ck.rng.shuffle(pool)
    srcs = list(dict.fromkeys(CID_DIRECTED + pool[: ck.n(70, 1500)]))
    reqs = [{"src": src, "target": "sql." + d, "want": [], "msg_prefix": "verif:"} for src in srcs for d in targets]
    ans = harness("log", reqs)
    I = {}

    def tid(t):
        return I.setdefault(t, len(I) + 1)
    calls = {}
    seen = False
    okc = 0
    for rq, a in zip(reqs, ans):
        if "ok" in a:
            okc += 1
        stack = []
        for e in a.get("entries", []):
            m = e.get("Message") or ""
            if m.startswith("verif:select_pipeline_in "):
                d = json.loads(m[len("verif:select_pipeline_in "):])
                stack.append([tr["rel"].get("alias") for tr in d["pipeline"] if tr["kind"] in ("From", "Join")])
            elif m.startswith("verif:select_pipeline_out "):
                if stack:
                    stack.pop()
            elif m.startswith("verif:translate_cid "):
                seen = True
                d = json.loads(m[len("verif:translate_cid "):])
                i = d["in"]
                fr = stack[-1] if stack else None
                key = json.dumps([i["pre"], i["omit"], i["decl"], i["wildcard"], i["inst_name"], i["column"], None if fr is None else len(fr), d["out"]])
                calls.setdefault(key, (i, d["out"], fr, rq))
    ck.coverage["cid_compiles"] = okc
    if okc and not seen:
        ck.violation("no verif:translate_cid line in any of %d successful compiles: the hook of translate_cid (hooks/translate-cid.diff) is missing" % okc,
                     {"kind": "cid-hook-missing"}, no_input=True)
        return
    keys = sorted(calls)
    header = ("From Coq Require Import List NArith.\nFrom PV Require Import Model.Checked Model.SqlAst Model.TranslateCid.\nImport ListNotations.\nLocal Open Scope N_scope.\n")
    exprs = []
    for k in keys:
        i, out, fr, rq = calls[k]
        omit = "(omit_prefix %d%%nat)" % len(fr) if fr is not None else ("true" if i["omit"] else "false")
        col = "CStar" if i["wildcard"] else "(CName %d)" % tid(i["column"])
        inst = "None" if i["inst_name"] is None else "(Some %d)" % tid(i["inst_name"])
        exprs.append("cid_code (translate_cid %s %s %s %s %s)" % ("true" if i["pre"] else "false", omit, "DRelCol" if i["decl"] == "relcol" else "DCompute", inst, col))
    try:
        vals = coq_eval(header, exprs) if exprs else []
    except RuntimeError as ex:
        ck.violation("the translate_cid model cannot be evaluated in Coq", {"kind": "coq-eval", "error": str(ex)[-800:]}, no_input=True)
        return
    names_of = {v: t for t, v in I.items()}
    agree = 0
    for k, v in zip(keys, vals):
        i, out, fr, rq = calls[k]
        ck.count("cid", k)
        ck.stat("cid", ("pre" if i["pre"] else "post") + ":" + i["decl"] + (":star" if i["wildcard"] else ""))
        ck.stat("cid", "frame:%s" % ("none" if fr is None else min(len(fr), 3)))
        if fr is not None:
            ck.stat("cid", "instance-in-frame:%s" % (i["inst_name"] in fr))
        tag, q, c = v
        got = None
        if tag == 1:
            got = ([names_of[q]] if q else []) + (["*"] if c == 0 else [names_of[c]])
        if got == out:
            agree += 1
            ck.stat("cid", "form:" + ("qualified" if len(out) == 2 else "bare"))
        else:
            ck.disagreement("translate_cid differs from Model/TranslateCid.v on %s [%s]: in %s frame %s, model %s, compiler %s" % (
                rq["src"].replace("\n", " | ")[:200], rq["target"], i, fr, got if tag == 1 else ["Fail", "", "Panic"][tag], out),
                {"kind": "cid", "src": rq["src"], "target": rq["target"], "in": i, "frame": fr, "model": list(v), "compiler": out, "tags": [], "sql": "", "msg": ""}, lambda _c: None)
    ck.coverage["cid_calls_distinct"] = len(keys)
    ck.coverage["cid_agree"] = agree

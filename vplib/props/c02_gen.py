"""C02 helpers: expression trees (python tuples), printers (PRQL source with the minimal parentheses
of the DOCUMENTED table; Coq terms), generators (exhaustive (parent, child, position) triples,
random deeper trees, random operator token sequences), and the python mirror of Model/EvalDoc.v
(cross-validated against the Coq definition on a sample in every run).

tree ::= ('col', i) | ('lit', kind, v)  kind in null|int|float|bool   (float v = (num, k): num / 2^k)
       | ('bin', Op, l, r) | ('un', Op, x) | ('case', [(c, v)...]) | ('in', e, lo|None, hi|None)
"""
from fractions import Fraction

BINOPS = ["Mul", "DivInt", "DivFloat", "Mod", "Pow", "Add", "Sub", "Eq", "Ne", "Gt", "Lt", "Gte", "Lte",
          "RegexSearch", "And", "Or", "Coalesce"]
BIN_TEXT = {"Mul": "*", "DivInt": "//", "DivFloat": "/", "Mod": "%", "Pow": "**", "Add": "+", "Sub": "-", "Eq": "==",
            "Ne": "!=", "Gt": ">", "Lt": "<", "Gte": ">=", "Lte": "<=", "RegexSearch": "~=", "And": "&&", "Or": "||",
            "Coalesce": "??"}
UNOPS = ["Neg", "Add", "Not", "EqSelf"]
UN_TEXT = {"Neg": "-", "Add": "+", "Not": "!", "EqSelf": "=="}
# documented table (operators.md): smaller binds tighter; refreshed from the translator's output by set_doc_table
DOC_LEVEL = {"Pow": 4, "Mul": 5, "DivFloat": 5, "DivInt": 5, "Mod": 5, "Add": 6, "Sub": 6, "Eq": 7, "Ne": 7, "Lte": 7,
             "Gte": 7, "Lt": 7, "Gt": 7, "RegexSearch": 7, "Coalesce": 8, "And": 9, "Or": 10}
DOC_RIGHT = {"Pow"}
VALUE_OPS = [o for o in BINOPS if o != "RegexSearch"]
KINDS = VALUE_OPS + ["Neg", "Not", "Pos", "case", "in"]


def set_tables(pratt_info, doc_info):
    """use what the translators read from the source now (spellings, documented levels)"""
    global BIN_TEXT, UN_TEXT, DOC_LEVEL, DOC_RIGHT
    if pratt_info and "BinOp" in pratt_info:
        BIN_TEXT = dict(pratt_info["BinOp"])
        UN_TEXT = dict(pratt_info["UnOp"])
    if doc_info and "rows" in doc_info:
        lv, right = {}, set()
        for g, sp, p, a in doc_info["rows"]:
            if a in ("DLeft", "DRight"):
                for o, t in BIN_TEXT.items():
                    if t in sp:
                        lv[o] = p
                        if a == "DRight":
                            right.add(o)
        for o in BIN_TEXT:
            lv.setdefault(o, DOC_LEVEL.get(o, 7))     # `~=` is not documented (F31): treated as a comparison
        DOC_LEVEL, DOC_RIGHT = lv, right


# ------------------------------------------------------------------ printers

def lit_prql(kind, v):
    if kind == "null":
        return "null"
    if kind == "int":
        return str(v)
    if kind == "bool":
        return "true" if v else "false"
    if kind == "temporal":
        return "@" + v[1]
    if kind == "float":
        num, k = v
        f = Fraction(num, 2 ** k)
        s = "%.10f" % float(f)
        s = s.rstrip("0")
        if s.endswith("."):
            s += "0"
        return s
    raise ValueError(kind)


def is_term(t):
    return t[0] in ("col", "lit", "case", "in")


def prql(t):
    k = t[0]
    if k == "col":
        return "abcdefgh"[t[1]]
    if k == "lit":
        return lit_prql(t[1], t[2])
    if k == "bin":
        op = t[1]
        lv = DOC_LEVEL[op]

        def side(c, is_left):
            s = prql(c)
            if c[0] == "bin":
                cl = DOC_LEVEL[c[1]]
                if cl > lv:
                    return "(" + s + ")"
                if cl == lv:
                    ok = (op not in DOC_RIGHT) if is_left else (op in DOC_RIGHT)
                    return s if ok else "(" + s + ")"
            return s
        return side(t[2], True) + " " + BIN_TEXT[op] + " " + side(t[3], False)
    if k == "un":
        op = "Add" if t[1] == "Pos" else t[1]
        x = t[2]
        s = prql(x)
        return UN_TEXT[op] + (s if is_term(x) else "(" + s + ")")
    if k == "case":
        return "case [" + ", ".join(prql(c) + " => " + prql(v) for c, v in t[1]) + "]"
    if k == "in":
        def bound(b):
            if b is None:
                return ""
            s = prql(b)
            return s if b[0] in ("col", "lit") else "(" + s + ")"
        return "(" + prql(t[1]) + " | in " + bound(t[2]) + ".." + bound(t[3]) + ")"
    raise ValueError(k)


def coq(t):
    k = t[0]
    if k == "col":
        return "(PCol %d%%nat)" % t[1]
    if k == "lit":
        kind, v = t[1], t[2]
        if kind == "null":
            return "(PLit LNull)"
        if kind == "int":
            return "(PLit (LInt %d))" % v
        if kind == "bool":
            return "(PLit (LBool %s))" % ("true" if v else "false")
        if kind == "temporal":
            import re as _re
            txt = _re.sub(r"([+-]\d\d):(\d\d)$", r"\1\2", v[1]) if v[0] == 2 else v[1]   # the lexer drops the colon of a UTC offset
            return "(PLit (LTemporal %d%%N ([%s]%%N : list N)))" % (v[0], "; ".join(str(ord(ch)) for ch in txt))
        return "(PLit (LFloat %s %d%%N))" % ("(%d)" % v[0], v[1])
    if k == "bin":
        return "(PBinE B_%s %s %s)" % (t[1], coq(t[2]), coq(t[3]))
    if k == "un":
        return "(PUnE U_%s %s)" % ("Add" if t[1] == "Pos" else t[1], coq(t[2]))
    if k == "case":
        return "(PCase [" + "; ".join("(%s, %s)" % (coq(c), coq(v)) for c, v in t[1]) + "])"
    if k == "in":
        o = lambda b: "None" if b is None else "(Some %s)" % coq(b)
        return "(PIn %s %s %s)" % (coq(t[1]), o(t[2]), o(t[3]))
    raise ValueError(k)


def coq_val(v):
    if v is None:
        return "VNull"
    if isinstance(v, int):
        return "(VInt (%d))" % v
    return "(VRat ((%d) # %d))" % (v.numerator, v.denominator)


def kinds_of(t, acc=None):
    """operator kinds occurring in a tree"""
    acc = set() if acc is None else acc
    k = t[0]
    if k == "bin":
        acc.add(t[1]); kinds_of(t[2], acc); kinds_of(t[3], acc)
    elif k == "un":
        acc.add(t[1]); kinds_of(t[2], acc)
    elif k == "case":
        acc.add("case")
        for c, v in t[1]:
            kinds_of(c, acc); kinds_of(v, acc)
    elif k == "in":
        acc.add("in"); kinds_of(t[1], acc)
        for b in t[2:]:
            if b is not None:
                kinds_of(b, acc)
    return acc


def kind_of(t):
    return t[1] if t[0] in ("bin", "un") else t[0]


def edges(t, acc=None):
    """(parent kind, position, child kind) for every operator-operator edge"""
    acc = [] if acc is None else acc
    k = t[0]
    kids = []
    if k == "bin":
        kids = [("l", t[2]), ("r", t[3])]
    elif k == "un":
        kids = [("x", t[2])]
    elif k == "case":
        for i, (c, v) in enumerate(t[1]):
            kids += [("cond", c), ("val", v)]
    elif k == "in":
        kids = [("e", t[1])] + [(n, b) for n, b in (("lo", t[2]), ("hi", t[3])) if b is not None]
    for pos, c in kids:
        if c[0] not in ("col", "lit"):
            acc.append((kind_of(t), pos, kind_of(c)))
        edges(c, acc)
    return acc


def cols_of(t, acc=None):
    acc = set() if acc is None else acc
    if t[0] == "col":
        acc.add(t[1])
    elif t[0] == "bin":
        cols_of(t[2], acc); cols_of(t[3], acc)
    elif t[0] == "un":
        cols_of(t[2], acc)
    elif t[0] == "case":
        for c, v in t[1]:
            cols_of(c, acc); cols_of(v, acc)
    elif t[0] == "in":
        for b in t[1:]:
            if b is not None:
                cols_of(b, acc)
    return acc


def depth(t):
    if t[0] in ("col", "lit"):
        return 0
    if t[0] == "bin":
        return 1 + max(depth(t[2]), depth(t[3]))
    if t[0] == "un":
        return 1 + depth(t[2])
    if t[0] == "case":
        return 1 + max([max(depth(c), depth(v)) for c, v in t[1]] + [0])
    return 1 + max(depth(b) for b in t[1:] if b is not None)


# ------------------------------------------------------------------ generators

class Leaves:
    """operand leaves, in order: columns first (so that operands vary over the whole domain), then small literals"""

    def __init__(self, seq=None):
        self.seq = seq or [("col", 0), ("col", 1), ("col", 2), ("lit", "int", 2), ("lit", "int", 3), ("lit", "float", (1, 1)), ("lit", "int", 1)]
        self.n = 0

    def next(self):
        i = self.n
        self.n += 1
        return self.seq[i % len(self.seq)]


CHILD_LEAVES = [("col", 0), ("col", 1), ("lit", "int", 2), ("lit", "int", 3)]
PARENT_LEAVES = [("col", 2), ("lit", "int", 1), ("lit", "float", (5, 1)), ("lit", "int", 3)]


def node(kind, child_at=None, child=None, leaves=None):
    """depth-1 node of the given kind; position child_at (if any) holds `child`, the others are leaves"""
    L = leaves or Leaves()

    def slot(pos):
        return child if pos == child_at else L.next()
    if kind in VALUE_OPS or kind == "RegexSearch":
        l = slot("l"); r = slot("r")
        return ("bin", kind, l, r)
    if kind in ("Neg", "Not", "Pos"):
        return ("un", kind, slot("x"))
    if kind == "case":
        c = slot("cond"); v = slot("val"); e = slot("else")
        return ("case", [(c, v), (("lit", "bool", True), e)])
    if kind == "in":
        e = slot("e"); lo = slot("lo"); hi = slot("hi")
        return ("in", e, lo, hi)
    raise ValueError(kind)


POSITIONS = {"case": ["cond", "val", "else"], "in": ["e", "lo", "hi"], "Neg": ["x"], "Not": ["x"], "Pos": ["x"]}


def positions(kind):
    return POSITIONS.get(kind, ["l", "r"])


def all_triples():
    out = []
    for p in KINDS:
        for pos in positions(p):
            for c in KINDS:
                ch = node(c, leaves=Leaves(CHILD_LEAVES))
                t = node(p, pos, ch, Leaves(PARENT_LEAVES))
                out.append(((p, pos, c), t))
    return out


def fold_cases():
    """small exhaustive family aimed at static_eval: every foldable operator on literal operands"""
    I = lambda n: ("lit", "int", n)
    Fl = lambda n, k: ("lit", "float", (n, k))
    B = lambda b: ("lit", "bool", b)
    N = ("lit", "null", None)
    a, b, c = ("col", 0), ("col", 1), ("col", 2)
    out = []
    for x in (I(3), I(0), Fl(5, 1), a):
        out += [("un", "Neg", x), ("un", "Pos", x), ("un", "Neg", ("un", "Neg", x)), ("bin", "Add", ("un", "Neg", x), b)]
    for x in (B(True), B(False), a):
        out += [("un", "Not", x), ("un", "Not", ("un", "Not", x))]
    pairs = [(I(3), I(3)), (I(3), I(5)), (Fl(5, 1), Fl(5, 1)), (Fl(1, 1), Fl(5, 1)), (B(True), B(True)), (B(True), B(False)),
             (N, N), (I(3), Fl(5, 1)), (N, I(3)), (I(3), N), (a, N), (N, a), (I(2), Fl(4, 1))]
    for l, r in pairs:
        for op in ("Eq", "Ne"):
            out.append(("bin", op, l, r))
            out.append(("bin", "And", ("bin", op, l, r), ("bin", "Gt", a, I(0))))
    for x in (B(True), B(False)):
        for y in (B(True), B(False)):
            out += [("bin", "And", x, y), ("bin", "Or", x, y), ("bin", "Or", ("bin", "And", x, y), ("bin", "Lt", a, b))]
        out += [("bin", "And", x, a), ("bin", "Or", a, x)]
    out += [("bin", "Coalesce", N, a), ("bin", "Coalesce", N, I(3)), ("bin", "Coalesce", I(3), N), ("bin", "Coalesce", a, N),
            ("bin", "Coalesce", N, ("bin", "Coalesce", N, a)), ("bin", "Add", ("bin", "Coalesce", N, a), I(1))]
    out += [("case", [(B(True), a)]), ("case", [(B(False), a)]), ("case", [(B(False), a), (B(True), b)]),
            ("case", [(("bin", "Gt", a, I(0)), b), (B(False), c), (B(True), I(1)), (b, I(2))]),
            ("case", [(("bin", "Eq", I(1), I(1)), a), (B(True), b)]), ("case", [(("bin", "Ne", I(1), I(1)), a)]),
            ("bin", "Add", ("case", [(B(False), a), (B(True), b)]), I(1))]
    out += [("in", I(3), I(1), I(5)), ("in", a, N, I(5)), ("in", a, I(1), N), ("in", a, ("un", "Neg", I(2)), I(5)),
            ("in", a, None, I(5)), ("in", a, I(1), None)]
    return out


def case_cases():
    """two-branch case expressions whose conditions and VALUES range over columns, comparisons and the literals
    true / false / null / 1 / 0: every shape a `case` simplification could special-case (a case that "is" its
    condition, its negation, a constant ...), evaluated on rows where the condition is NULL"""
    I = lambda n: ("lit", "int", n)
    B = lambda b: ("lit", "bool", b)
    N = ("lit", "null", None)
    a, b, c = ("col", 0), ("col", 1), ("col", 2)
    out = []
    for c1 in (("bin", "Gt", a, I(1)), ("bin", "Eq", a, b), a):
        for v1 in (B(True), B(False), N, I(1)):
            for c2 in (B(True), ("bin", "Gt", b, I(0))):
                for v2 in (B(True), B(False), N, I(0)):
                    out.append(("case", [(c1, v1), (c2, v2)]))
        for v1 in (B(True), B(False), N):
            out.append(("case", [(c1, v1)]))
            out.append(("un", "Not", ("case", [(c1, v1), (B(True), B(not v1[2]) if v1[1] == "bool" else B(False))])))
    return out


def temporal_cases():
    """date / time / timestamp literals (kind 0 / 1 / 2, as spelled) under everything static_eval looks at: `==` / `!=`
    of equal and different spellings and kinds, against null, inside && / || / ?? / case.  No value model: these cases
    feed the RQ correspondence (what the resolver hands to the SQL back end), not the value oracle"""
    T = lambda k, s_: ("lit", "temporal", (k, s_))
    B = lambda b: ("lit", "bool", b)
    N = ("lit", "null", None)
    a, b = ("col", 0), ("col", 1)
    d1, d2 = T(0, "2020-01-01"), T(0, "2021-12-31")
    t1 = T(1, "08:30:00")
    z1, z2 = T(2, "2020-01-01T00:00:00Z"), T(2, "2020-01-01T00:00:00+00:00")
    out = []
    for x, y in ((d1, d1), (d1, d2), (t1, t1), (z1, z1), (z1, z2), (d1, z1), (d1, N), (N, z1), (d1, a), (a, t1)):
        for op in ("Eq", "Ne"):
            out.append(("bin", op, x, y))
        out.append(("bin", "And", ("bin", "Eq", x, y), ("bin", "Gt", a, ("lit", "int", 0))))
        out.append(("case", [(("bin", "Eq", x, y), a), (B(True), b)]))
    out += [("bin", "Coalesce", N, d1), ("bin", "Coalesce", d1, N), ("case", [(B(False), d1), (B(True), d2)]), ("case", [(B(True), z1)]),
            ("bin", "Or", ("bin", "Ne", z1, z2), ("bin", "Lt", a, b)), ("un", "Not", ("bin", "Eq", d1, d1)), ("bin", "Lt", d1, d2),
            ("in", d1, d1, d2)]
    return out


def cond_cases(r, nrand):
    """boolean-rooted expressions used as a `filter` condition: comparisons with the literal on either side at the
    boundary values of the domain, their negations and conjunctions, plus a sample of the (parent, position, child)
    triples whose parent yields a truth value"""
    I = lambda n: ("lit", "int", n)
    a, b, c = ("col", 0), ("col", 1), ("col", 2)
    out = []
    lits = [I(1), I(0), ("un", "Neg", I(2)), ("lit", "float", (1, 1)), I(2)]
    for k, op in enumerate(("Lt", "Lte", "Gt", "Gte", "Eq", "Ne")):
        for j, l in enumerate(lits):
            out.append(("bin", op, l, a))
            out.append(("bin", op, a, l))
            if (j + k) % 2 == 0:
                out.append(("un", "Not", ("bin", op, l, a)))
                out.append(("bin", "And", ("bin", op, l, a), ("bin", "Lte", a, I(2))))
                out.append(("bin", op, l, ("bin", "Mul", a, I(1))))
                out.append(("bin", "Or", ("bin", op, l, a), ("bin", op, b, l)))
    out += [("bin", "Eq", a, ("lit", "null", None)), ("bin", "Ne", ("lit", "null", None), a), ("in", a, I(0), I(2)), ("in", a, None, I(1)),
            ("bin", "And", ("in", a, I(0), I(2)), ("bin", "Lt", I(0), b))]
    truthy = ("Eq", "Ne", "Gt", "Lt", "Gte", "Lte", "And", "Or", "Not", "in")
    tri = [t for key, t in all_triples() if key[0] in truthy]
    r.shuffle(tri)
    return out + tri[:nrand]


def null_cases():
    """the literal null as an operand of every operator kind at every position (three-valued logic,
    null propagation, the syntactic null test, open range bounds), alone and one level down"""
    N = ("lit", "null", None)
    out = []
    for k in KINDS:
        for pos in positions(k):
            t = node(k, pos, N, Leaves([("col", 0), ("col", 1), ("col", 2)]))
            out.append(t)
            # ... and as the operand of a comparison / arithmetic node that is itself an operand
            for inner in (("bin", "Gt", ("bin", "Add", ("col", 1), N), ("lit", "int", 2)), ("bin", "Mul", N, ("col", 1))):
                out.append(node(k, pos, inner, Leaves([("col", 0), ("col", 2), ("col", 1)])))
    return out


LET_COL = ("col", 3)      # the derived column `d`


def let_cases():
    """`derive d = E1 | select {v = E2}` with d at every operand position of every operator kind: the SQL
    generator inlines E1 where d is referenced (another route by which an expression -- or a folded,
    possibly negative, literal -- becomes an operand)"""
    I = lambda n: ("lit", "int", n)
    a, b, c = ("col", 0), ("col", 1), ("col", 2)
    defs = [("un", "Neg", I(5)), ("un", "Neg", ("lit", "float", (5, 1))), I(3), ("un", "Neg", a), ("bin", "Add", a, I(1)),
            ("bin", "Mod", a, b), ("bin", "Lt", a, b), ("bin", "Coalesce", a, I(2)), ("in", a, I(1), I(5)),
            ("bin", "DivFloat", a, b), ("bin", "Mul", a, b), ("bin", "Eq", a, b)]
    out = []
    for e1 in defs:
        for k in KINDS:
            for pos in positions(k):
                e2 = node(k, pos, LET_COL, Leaves([("col", 2), ("col", 1), ("lit", "int", 2), ("lit", "int", 3)]))
                out.append((e1, e2))
        out.append((e1, ("un", "Neg", ("un", "Pos", LET_COL))))
    return out


def subst_col(t, i, by):
    k = t[0]
    if k == "col":
        return by if t[1] == i else t
    if k == "lit":
        return t
    if k == "bin":
        return ("bin", t[1], subst_col(t[2], i, by), subst_col(t[3], i, by))
    if k == "un":
        return ("un", t[1], subst_col(t[2], i, by))
    if k == "case":
        return ("case", [(subst_col(c, i, by), subst_col(v, i, by)) for c, v in t[1]])
    return ("in", subst_col(t[1], i, by), None if t[2] is None else subst_col(t[2], i, by), None if t[3] is None else subst_col(t[3], i, by))


def rand_leaf(r, boolish=False):
    x = r.random()
    if x < 0.62:
        return ("col", r.randrange(3))
    if x < 0.80:
        return ("lit", "int", r.choice([0, 1, 2, 3, 5, 7]))
    if x < 0.89:
        return ("lit", "float", r.choice([(1, 1), (5, 1), (1, 2), (3, 1)]))
    if x < 0.93:
        return ("lit", "null", None)
    return ("lit", "bool", r.random() < 0.5)


def boolish(r, t):
    """the type checker rejects a numeric LITERAL where a bool is expected (columns are untyped)"""
    if t[0] == "lit" and t[1] in ("int", "float"):
        return ("col", r.randrange(3)) if r.random() < 0.7 else ("lit", "bool", r.random() < 0.5)
    return t


def rand_tree(r, d, allow_null_cmp=True):
    if d <= 0 or r.random() < 0.12:
        return rand_leaf(r)
    k = r.choice(KINDS + ["Add", "Sub", "Mul", "DivFloat", "DivInt", "Mod", "Eq", "Lt", "And", "Or"])
    if k in VALUE_OPS:
        if k in ("Eq", "Ne") and allow_null_cmp and r.random() < 0.25:
            x = rand_tree(r, d - 1)
            return ("bin", k, x, ("lit", "null", None)) if r.random() < 0.7 else ("bin", k, ("lit", "null", None), x)
        if k == "Pow":
            return ("bin", k, rand_tree(r, d - 1), ("lit", "int", r.choice([0, 1, 2, 2, 3])) if r.random() < 0.8 else rand_tree(r, d - 2))
        l, rr = rand_tree(r, d - 1), rand_tree(r, d - 1)
        if k in ("And", "Or"):
            l, rr = boolish(r, l), boolish(r, rr)
        return ("bin", k, l, rr)
    if k in ("Neg", "Not", "Pos"):
        x = rand_tree(r, d - 1)
        return ("un", k, boolish(r, x) if k == "Not" else x)
    if k == "case":
        n = r.randint(1, 3)
        cs = [(rand_tree(r, d - 1), rand_tree(r, d - 1)) for _ in range(n)]
        if r.random() < 0.5:
            cs.append((("lit", "bool", True), rand_tree(r, d - 1)))
        if r.random() < 0.15:
            cs.insert(r.randrange(len(cs) + 1), (("lit", "bool", r.random() < 0.5), rand_tree(r, d - 2)))
        return ("case", cs)
    lo = rand_tree(r, d - 2) if r.random() < 0.8 else None
    hi = rand_tree(r, d - 2) if (r.random() < 0.8 or lo is None) else None
    return ("in", rand_tree(r, d - 1), lo, hi)


# operator token sequences for the parser correspondence: ('A', n) ('O', op) ('U', op) ('L',) ('R',) ; op 'Range' = `..`
def rand_tokens(r, nops):
    toks = []

    def operand(dep, allow_unary=True):
        if allow_unary and r.random() < 0.22:
            toks.append(("U", r.choice(["Neg", "Neg", "Not", "Add", "EqSelf"])))
            if toks[-1][1] != "EqSelf" and r.random() < 0.06:
                toks.append(("U", r.choice(["Neg", "Not", "Add"])))     # unary of unary: the layering rejects it
            if toks[-1][1] == "EqSelf":
                toks.append(("A", r.randrange(3)))
                return
        if dep > 0 and r.random() < 0.25:
            toks.append(("L",)); seq(dep - 1, r.randint(1, 3)); toks.append(("R",))
        else:
            toks.append(("A", r.randrange(3)))

    def seq(dep, k):
        operand(dep)
        ranged = False
        for _ in range(k):
            if (not ranged and r.random() < 0.12) or (ranged and r.random() < 0.04):   # rarely: a..b..c (rejected)
                toks.append(("O", "Range")); ranged = True
            else:
                toks.append(("O", r.choice(BINOPS))); ranged = False
            operand(dep)
    seq(2, nops)
    return toks


def tokens_prql(toks):
    out = []
    for t in toks:
        if t[0] == "A":
            out.append("xyz"[t[1]])
        elif t[0] == "O":
            out.append(".." if t[1] == "Range" else " " + BIN_TEXT[t[1]] + " ")
        elif t[0] == "U":
            out.append(UN_TEXT[t[1]])
        elif t[0] == "L":
            out.append("(")
        else:
            out.append(")")
    return "".join(out)


def tokens_coq(toks):
    m = []
    for t in toks:
        if t[0] == "A":
            m.append("TA %d%%nat" % t[1])
        elif t[0] == "O":
            m.append("TO PRange" if t[1] == "Range" else "TO (PBin B_%s)" % t[1])
        elif t[0] == "U":
            m.append("TU U_%s" % t[1])
        elif t[0] == "L":
            m.append("TL")
        else:
            m.append("TR")
    return "([" + "; ".join(m) + "] : list ptok)"


def ser_json(e, binidx, unidx):
    """the prefix serialisation of Model/PrqlExpr.gser, from prqlc's JSON of the parsed expression"""
    if "Binary" in e:
        b = e["Binary"]
        return [1, binidx[b["op"]]] + ser_json(b["left"], binidx, unidx) + ser_json(b["right"], binidx, unidx)
    if "Range" in e:
        rg = e["Range"]
        if rg.get("start") is None or rg.get("end") is None:
            raise ValueError("open range")
        return [1, 100] + ser_json(rg["start"], binidx, unidx) + ser_json(rg["end"], binidx, unidx)
    if "Unary" in e:
        u = e["Unary"]
        return [2, unidx[u["op"]]] + ser_json(u["expr"], binidx, unidx)
    if "Ident" in e:
        return [0, "xyz".index(e["Ident"][0])]
    raise ValueError("unexpected node %s" % list(e.keys()))


# ------------------------------------------------------------------ python mirror of Model/EvalDoc.v

class Undef(Exception):
    """outside the value model"""


class Inexact(Exception):
    """an intermediate value is not exactly representable in binary64: the row is not compared"""


LIM = 2 ** 50


def chk(v):
    if v is None:
        return v
    if isinstance(v, int):
        if abs(v) > LIM:
            raise Inexact()
        return v
    d = v.denominator
    if d & (d - 1) or d > 2 ** 40 or abs(v.numerator) > LIM:
        raise Inexact()
    return v


def truth(v):
    return None if v is None else (v != 0)


def b2v(b):
    return 1 if b else 0


def trunc_q(q):
    n, d = q.numerator, q.denominator
    return abs(n) // d * (1 if n >= 0 else -1)


def arith(op, x, y):
    if x is None or y is None:
        return None
    if isinstance(x, int) and isinstance(y, int):
        if op == "Add":
            return x + y
        if op == "Sub":
            return x - y
        if op == "Mul":
            return x * y
        if y == 0:
            return None
        if op == "DivFloat":
            return Fraction(x, y)
        q = abs(x) // abs(y) * (1 if (x >= 0) == (y >= 0) else -1)
        return q if op == "DivInt" else x - y * q
    fx, fy = Fraction(x), Fraction(y)
    if op == "Add":
        return fx + fy
    if op == "Sub":
        return fx - fy
    if op == "Mul":
        return fx * fy
    if op == "DivFloat":
        return None if fy == 0 else fx / fy
    if op == "DivInt":
        return None if fy == 0 else trunc_q(fx / fy)
    raise Undef()     # Mod on non-integers


def binop(op, x, y):
    if op in ("Add", "Sub", "Mul", "DivFloat", "DivInt", "Mod"):
        return arith(op, x, y)
    if op == "Pow":
        if x is None or y is None:
            return None
        if not isinstance(y, int) or y < 0 or y > 64:
            raise Undef()
        return x ** y
    if op == "Coalesce":
        return y if x is None else x
    if op == "And":
        a, b = truth(x), truth(y)
        if a is False or b is False:
            return 0
        return 1 if (a and b) else None
    if op == "Or":
        a, b = truth(x), truth(y)
        if a is True or b is True:
            return 1
        return 0 if (a is False and b is False) else None
    if op == "RegexSearch":
        raise Undef()
    if x is None or y is None:
        return None
    fx, fy = Fraction(x), Fraction(y)
    return b2v({"Eq": fx == fy, "Ne": fx != fy, "Lt": fx < fy, "Lte": fx <= fy, "Gt": fx > fy, "Gte": fx >= fy}[op])


def is_null_lit(t):
    if t[0] == "un" and t[1] == "Pos":
        return is_null_lit(t[2])
    return t[0] == "lit" and t[1] == "null"


def eval_doc(t, env):
    k = t[0]
    if k == "col":
        return env[t[1]]
    if k == "lit":
        if t[1] == "null":
            return None
        if t[1] == "int":
            return t[2]
        if t[1] == "bool":
            return b2v(t[2])
        if t[1] == "temporal":
            raise Undef()      # no value in the model (Model/EvalDoc.v lit_eval)
        return Fraction(t[2][0], 2 ** t[2][1])
    if k == "bin":
        op = t[1]
        if op in ("Eq", "Ne") and (is_null_lit(t[2]) or is_null_lit(t[3])):
            v = eval_doc(t[3] if is_null_lit(t[2]) else t[2], env)
            return b2v((v is None) != (op == "Ne"))
        x = eval_doc(t[2], env)
        y = eval_doc(t[3], env)
        return chk(binop(op, x, y))
    if k == "un":
        v = eval_doc(t[2], env)
        if t[1] == "Neg":
            return None if v is None else chk(-v)
        if t[1] == "Not":
            b = truth(v)
            return None if b is None else b2v(not b)
        if t[1] == "Pos":
            return v
        raise Undef()
    if k == "case":
        for c, v in t[1]:
            if truth(eval_doc(c, env)) is True:
                return eval_doc(v, env)
        return None
    if k == "in":
        if all(b is None or is_null_lit(b) for b in (t[2], t[3])):
            return 1
        v = eval_doc(t[1], env)
        parts = []
        for b, o in ((t[2], "Gte"), (t[3], "Lte")):
            if b is None or is_null_lit(b):
                continue
            parts.append(binop(o, v, eval_doc(b, env)))
        if not parts:
            return 1
        if len(parts) == 1:
            return parts[0]
        return binop("And", parts[0], parts[1])
    raise ValueError(k)

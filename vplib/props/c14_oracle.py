"""The direct oracle of C14 on the implementation (no model involved):
     pl(fmt(src)) == pl(src)  modulo spans / comments,   fmt(fmt(src)) == fmt(src),
     compile(fmt(src)) == compile(src)  per target.
A failing source is attributed to a known finding only by a narrow predicate on the *input* AST; where the
formatter's output still parses, the attribution is additionally confirmed by repairing exactly that defect
in both ASTs and requiring them to become equal (so a second, unknown difference is still a VIOLATION)."""
import copy
import json
import math
import re

LEX_KEYWORDS = {"let", "into", "case", "prql", "type", "module", "internal", "func", "import", "enum"}
LIT_WORDS = {"true", "false", "null"}
FMT_KEYWORDS_FALLBACK = {"let", "into", "case", "prql", "type", "module", "internal", "func", "import", "enum", "true", "false", "null"}
I64_MAX = 2 ** 63 - 1


def strip(j, keep_doc=False):
    """drop positions (span) and comments (doc_comment) from a PL JSON value"""
    if isinstance(j, dict):
        return {k: strip(v, keep_doc) for k, v in j.items() if k != "span" and (keep_doc or k != "doc_comment")}
    if isinstance(j, list):
        return [strip(x, keep_doc) for x in j]
    return j


def canon(j):
    # type-strict: json text distinguishes 1 from 1.0
    return json.dumps(j, sort_keys=True, ensure_ascii=False)


def walk(j, f, path=()):
    f(j, path)
    if isinstance(j, dict):
        for k, v in j.items():
            walk(v, f, path + (k,))
    elif isinstance(j, list):
        for i, v in enumerate(j):
            walk(v, f, path + (i,))


def plain_lexable(p):
    """printing p bare lexes back to Ident(p)"""
    if not p or p in LEX_KEYWORDS or p in LIT_WORDS:
        return False
    if not (p[0].isalpha() or p[0] == "_"):
        return False
    return all(c.isalnum() or c == "_" for c in p)


RESERVED_FALLBACK = LEX_KEYWORDS | LIT_WORDS


def display_ident_bare(p, reserved=RESERVED_FALLBACK):
    """parser/pr/ident.rs display_ident_part prints p without backticks"""
    if not p or p in reserved:
        return False
    c0 = p[0]
    if not (c0.isascii() and c0.isalpha() or c0 == "_"):
        return False
    return all((c.isascii() and (c.isalpha() or c.isdigit())) or c == "_" for c in p[1:])


def write_ident_bare(p, fmt_keywords):
    """codegen/ast.rs write_ident_part prints p without backticks"""
    # (no wildcard alternative since commit 328740d: a name spelled `*` keeps its backticks)
    return bool(re.match(r"^[a-zA-Z_][a-zA-Z0-9_]*$", p)) and p not in fmt_keywords


def string_quote_edge(s):
    """quote_string picks a delimiter quote that also starts or ends the content"""
    if '"' not in s or "'" not in s:
        return False
    q = "'" if (s.startswith('"') or s.endswith('"')) else '"'
    return s.startswith(q) or s.endswith(q)


def features(pl, fmt_keywords=FMT_KEYWORDS_FALLBACK):
    """input predicates: which OPEN known-defect classes the source AST contains.  (Classes of findings that were
    repaired in /repo are deliberately absent -- since HEAD 2a611aa also `ident-star-bare`, `restricted-position` and
    `param-range`: if such a defect comes back, nothing explains the failure.)  `ident-other-bare` is not a finding:
    it marks a name one of the printers would leave bare although it does not lex back (none exists today)."""
    fs = set()

    def written_part(p):
        # alias, parameter name, import alias, declared / argument / field names: write_ident_part
        if write_ident_bare(p, fmt_keywords) and not plain_lexable(p):
            fs.add("ident-other-bare")

    def ident_expr_parts(parts):
        for p in parts:
            if display_ident_bare(p) and not plain_lexable(p):
                fs.add("ident-other-bare")

    def visit(j, path):
        if isinstance(j, list):
            for x in j:
                visit(x, path)
            return
        if not isinstance(j, dict):
            return
        if isinstance(j.get("alias"), str):
            written_part(j["alias"])
        for k, v in j.items():
            if k == "Literal" and isinstance(v, dict):
                if "Float" in v:
                    x = v["Float"]
                    if x is None:
                        pass      # (non-finite: the lexer rejects such literals since commit d8fda67; only PL JSON can hold one)
                    elif isinstance(x, (int, float)) and float(x).is_integer() and float(x) < 9.3e18:
                        fs.add("float-integral")
            elif k == "Ident" and isinstance(v, list):
                ident_expr_parts(v)
            elif k == "FuncCall" and isinstance(v, dict):
                for nm in (v.get("named_args") or {}):
                    written_part(nm)
            elif k == "Func" and isinstance(v, dict):
                for p in (v.get("params") or []) + (v.get("named_params") or []):
                    written_part(p.get("name", "a"))
            elif k in ("VarDef", "TypeDef", "ModuleDef") and isinstance(v, dict):
                written_part(v.get("name", "a"))
            elif k == "ImportDef" and isinstance(v, dict):
                if v.get("alias"):
                    written_part(v["alias"])
                for p in (v.get("name") or []):
                    written_part(p)
            elif k == "Single" and isinstance(v, list) and len(v) == 2 and isinstance(v[0], str):
                written_part(v[0])
        for k, v in j.items():
            if k == "kind" and isinstance(v, dict) and isinstance(v.get("Ident"), list):
                for p in v["Ident"]:
                    written_part(p)
            elif k == "ImportDef":
                pass
            else:
                visit(v, path + (k,))

    visit(pl, ())

    # a doc comment is the only thing that separates two top-level pipelines; the formatter drops it
    # (Coq: FmtStmt.adjacent_mains).  (`main-pipeline-alias` is gone: repaired by commit e3202e5)
    def stmts_of(m):
        ss = m.get("stmts") if isinstance(m, dict) else None
        if isinstance(ss, list):
            prev_main = False
            for st in ss:
                if not isinstance(st, dict):
                    continue
                vd = st.get("VarDef")
                is_pipe = isinstance(vd, dict) and vd.get("kind") in ("Main", "Into")
                if is_pipe and prev_main and st.get("doc_comment") is not None and not st.get("annotations"):
                    fs.add("doc-comment-split")
                prev_main = isinstance(vd, dict) and vd.get("kind") == "Main"
                md = st.get("ModuleDef")
                if isinstance(md, dict):
                    stmts_of(md)
    stmts_of(pl)
    return fs


def constructs(pl):
    """presence of the constructs of the REPAIRED findings (coverage statistics only)"""
    cs = set()

    def kind_of(e):
        if isinstance(e, dict):
            for k in ("FuncCall", "Func", "Binary", "Unary", "Range", "Pipeline", "Tuple", "Array", "Case", "Ident", "Literal", "SString", "FString", "Param", "Internal"):
                if k in e:
                    return k
        return None

    def aliased(e):
        return isinstance(e, dict) and isinstance(e.get("alias"), str)

    def restricted(e, allow_call, where):
        k = kind_of(e)
        if k == "Func":
            cs.add("lambda-at-" + where)
        if k == "FuncCall" and not allow_call:
            cs.add("call-at-" + where)
        if aliased(e):
            cs.add("alias-at-" + where)

    def w(j, right=False):
        if isinstance(j, list):
            for x in j:
                w(x, right)
            return
        if not isinstance(j, dict):
            return
        if isinstance(j.get("annotations"), list):
            for an in j["annotations"]:
                if isinstance(an, dict):
                    restricted(an.get("expr"), False, "annotation")
        for k, v in j.items():
            # the positions repaired by commits 328740d 95d15ad 1b7b9df 4d5b01d 2a611aa
            if k == "alias" and v == "*":
                cs.add("star-name")
            if k == "Range" and isinstance(v, dict):
                st = v.get("start")
                if isinstance(st, dict) and isinstance(st.get("Unary"), dict):
                    st = st["Unary"].get("expr")
                if isinstance(st, dict) and "Param" in st:
                    cs.add("param-range-start")
                for side in ("start", "end"):
                    if aliased(v.get(side)):
                        cs.add("alias-at-range-bound")
            if k == "Binary" and isinstance(v, dict) and (aliased(v.get("left")) or aliased(v.get("right"))):
                cs.add("alias-at-operand")
            if k == "Unary" and isinstance(v, dict) and aliased(v.get("expr")):
                cs.add("alias-at-operand")
            if k == "FuncCall" and isinstance(v, dict):
                if aliased(v.get("name")):
                    cs.add("alias-at-callee")
                if any(aliased(av) for av in (v.get("named_args") or {}).values()):
                    cs.add("alias-at-named-arg")
            if k == "Func" and isinstance(v, dict):
                for p in (v.get("params") or []) + (v.get("named_params") or []):
                    if p.get("name") == "*":
                        cs.add("star-name")
                    if p.get("default_value") is not None:
                        restricted(p["default_value"], False, "default-value")
                restricted(v.get("body"), True, "lambda-body")
            if k == "Case" and isinstance(v, list):
                for c in v:
                    if isinstance(c, dict):
                        restricted(c.get("condition"), True, "case-branch")
                        restricted(c.get("value"), True, "case-branch")
            if k in ("SString", "FString") and isinstance(v, list):
                for it in v:
                    ex = it.get("Expr") if isinstance(it, dict) else None
                    if isinstance(ex, dict):
                        txt = "".join((ex.get("expr") or {}).get("Ident") or []) + (ex.get("format") or "")
                        if "\\" in txt or '"' in txt:
                            cs.add("interp-escape")
            if k == "Literal" and isinstance(v, dict) and isinstance(v.get("String"), str) and string_quote_edge(v["String"]):
                cs.add("string-quote-edge")
            if k == "Ident" and isinstance(v, list):
                if any(p in LEX_KEYWORDS or p in LIT_WORDS for p in v):
                    cs.add("keyword-ident")
                if any("$" in p for p in v):
                    cs.add("dollar-ident")
            if k == "alias" and isinstance(v, str) and (v in LEX_KEYWORDS or v in LIT_WORDS or "$" in v):
                cs.add("keyword-or-dollar-alias")
            if k == "Range" and isinstance(v, dict) and right:
                for side in ("start", "end"):
                    b = v.get(side)
                    if isinstance(b, dict) and isinstance(b.get("Binary"), dict) and b["Binary"].get("op") == "Pow":
                        cs.add("pow-bound-right-of-binary")
            if k in ("SString", "FString") and isinstance(v, list) and any(isinstance(it, dict) and isinstance(it.get("Expr"), dict) and it["Expr"].get("format") is not None for it in v):
                cs.add("interp-format")
            if k == "FuncCall" and isinstance(v, dict):
                if len(v.get("named_args") or {}) >= 2:
                    cs.add("two-named-args")
                if any(not plain_lexable(n) for n in (v.get("named_args") or {})):
                    cs.add("quoted-name")
            if k in ("VarDef", "TypeDef", "ModuleDef") and isinstance(v, dict) and not plain_lexable(v.get("name", "a")):
                cs.add("quoted-name")
            if k == "Wildcard" and isinstance(v, dict):
                cs.add("type-wildcard")
            if k == "Single" and isinstance(v, list) and len(v) == 2 and v[1] is None:
                cs.add("type-star-field")
        for k, v in j.items():
            if k == "Binary" and isinstance(v, dict):
                w(v.get("left"), False)
                w(v.get("right"), True)
            else:
                w(v, right)
    w(pl)
    return cs


# --- repairs: rewrite exactly one defect class in an AST, so that "equal after repair" proves the class explains the whole diff

def repair(j, cls):
    j = copy.deepcopy(j)

    def fix(x):
        if isinstance(x, list):
            return [fix(y) for y in x]
        if not isinstance(x, dict):
            return x
        x = {k: fix(v) for k, v in x.items()}
        if cls == "float-integral" and isinstance(x.get("Literal"), dict) and "Float" in x["Literal"]:
            v = x["Literal"]["Float"]
            if isinstance(v, (int, float)) and float(v).is_integer() and float(v) < 9.3e18:
                x["Literal"] = {"Integer": int(v)}
        if cls == "float-nonfinite" and isinstance(x.get("Literal"), dict) and "Float" in x["Literal"] and x["Literal"]["Float"] is None:
            del x["Literal"]
            x["Ident"] = ["inf"]
        if cls == "ident-keyword" and isinstance(x.get("Ident"), list) and len(x["Ident"]) == 1 and x["Ident"][0] in LIT_WORDS:
            w = x["Ident"][0]
            del x["Ident"]
            x["Literal"] = "Null" if w == "null" else {"Boolean": w == "true"}
        if cls == "ident-dollar" and isinstance(x.get("Ident"), list) and len(x["Ident"]) == 1 and x["Ident"][0].startswith("$"):
            w = x["Ident"][0]
            del x["Ident"]
            x["Param"] = w[1:]
        if cls == "interp-format" and isinstance(x.get("Expr"), dict) and "format" in x["Expr"] and "expr" in x["Expr"]:
            x["Expr"]["format"] = None
        return x

    return fix(j)


REPAIRABLE = ["float-integral"]


def explained_by_repairs(pl, pl2, feats):
    """the smallest set of repairable classes (present in the input) after which the two ASTs agree"""
    cands = [c for c in REPAIRABLE if c in feats]
    a, b = pl, pl2
    used = []
    for c in cands:
        a2, b2 = repair(a, c), repair(b, c)
        if canon(a2) != canon(a) or canon(b2) != canon(b):
            used.append(c)
        a, b = a2, b2
        if canon(a) == canon(b):
            return used
    return None

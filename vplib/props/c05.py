"""C05 -- result columns are exactly the final frame: names, count and order."""
import json
import re

from ..common import Check, coq_eval, harness
from ..rel import prog as P, run as R, e2e as E

TRUSTED = [
    "Coq 8.16.1 kernel (coqc, vm_compute); no axioms (every theorem: Closed under the global context)",
    "hand-written model coq/Model/Wildcards.v of sql/gen_projection.rs translate_wildcards, tied to the code on every run by comparing it with the inputs/outputs of every real call (cfg(prqlc_verif) hook, commit 553813c in /repo)",
    "reference semantics coq/Model/Rel.v (frame rules: alias/ident naming, same-name shadowing, join = left ++ right, group = keys ++ rest)",
    "end-to-end oracle: sqlite3 column names of the emitted SQL vs the frame of the reference semantics, on tables that have an extra column the program never mentions (run-time expansion of *)",
    "modelled, not verified: translate_select_item / deduplicate_select_items / push_select / the limiting SELECT of extract_atomic are covered by execution only",
]


class Gen5(P.Gen):
    """adds the column-shaped cases C05 names: repeated names, joins of tables sharing column names"""

    def __init__(self, rng, **kw):
        super().__init__(rng, **kw)
        self.w.update({"dupselect": 0.8, "joinpick": 1.2})

    def t_dupselect(self, st):
        cols = [c for c in st["cols"] if c[0] is None and not c[1].startswith("?")]
        if not cols:
            return None
        q, c = self.r.choice(cols)
        keep = [x for x in cols if x[1] != c][:2]
        items = [c, c] + [k[1] for k in keep]
        # same name twice: the later column shadows (un-names) the earlier one; both stay in the frame
        st["cols"] = [(None, "?%d" % len(st["steps"])), (None, c)] + [(None, k[1]) for k in keep]
        return P.Step("dupselect", "select {%s}" % ", ".join(items), "TSelect [%s]" % "; ".join("(None, ECol None %d%%N)" % P.nid(x) for x in items))

    def t_joinpick(self, st):
        """after a join: pick same-named columns of both sides"""
        if not st["joined"] or not any(c[0] == "u" for c in st["cols"]):
            return None
        r = self.r
        picks = []
        for n in ("id", "a", "g"):
            if ("t", n) in st["cols"] and ("u", n) in st["cols"] and r.random() < 0.7:
                picks += [("t", n), ("u", n)]
        if not picks:
            return None
        if ("u", "d") in st["cols"] and r.random() < 0.5:
            picks.append(("u", "d"))
        r.shuffle(picks)
        items = ["%s.%s" % p for p in picks]
        # duplicate names: earlier ones get un-named by the later one
        newcols = []
        for i, (q, n) in enumerate(picks):
            later = any(n2 == n for _, n2 in picks[i + 1:])
            newcols.append((None, ("?%d_%d" % (len(st["steps"]), i)) if later else n))
        st["cols"] = newcols
        st["order"] = None
        return P.Step("joinpick", "select {%s}" % ", ".join(items), "TSelect [%s]" % "; ".join("(None, ECol (Some %d%%N) %d%%N)" % (P.nid(q), P.nid(n)) for q, n in picks))


def classify(rec):
    fid = E.classify_common(rec)
    if fid:
        return fid
    sql = rec.get("sql") or ""
    kinds = rec["program"].kinds()
    cols = rec.get("sqlite_cols") or []
    if any(re.fullmatch(r"_expr_\d+", c) for c in cols) and re.search(r"SELECT \*(?!,| EXCLUDE)", sql) and rec["target"] in ("sql.sqlite", "sql.generic"):
        return "F23-helper-column-exposed"
    if rec["verdict"] == "sql-err" and re.search(r"no such column: _expr_\d+", str(rec.get("sqlite"))) and "join" in kinds and re.search(r"SELECT \w+\.\*, u\.\*", sql):
        return "F24-dangling-renamed-duplicate"
    cols_n, frame_n = len(rec.get("sqlite_cols") or []), len(rec.get("model_names") or [])
    if ("dupselect" in kinds or "joinpick" in kinds) and rec["verdict"] in ("names", "rows") and cols_n < frame_n:
        return "F13-duplicate-select-merged"
    if ("group_take" in kinds or "group_win" in kinds) and not rec["program"].meta.get("final_select", True) and re.search(r"SELECT \*", sql):
        return "F26-group-keys-first-vs-star"
    return None


def judge_cols(rec):
    v = rec["verdict"]
    if v in ("ok",):
        return None
    if v in ("names", "rows"):
        cols = rec.get("sqlite_cols")
        mn = rec.get("model_names")
        if cols is None or mn is None:
            return None
        # SQLite renames duplicate column names coming out of a sub-query (`id`, `id:1`): an engine artefact
        cols = [re.sub(r":\d+$", "", c) for c in cols]
        if not rec.get("model_rows") and not rec["program"].meta.get("final_select", True):
            return None            # empty result of a wildcard program: the frame is not observable from the model
        if len(cols) != len(mn):
            return "result has %d columns, the final frame has %d (%s vs %s)" % (len(cols), len(mn), cols, mn)
        bad = [(i, w, g) for i, (w, g) in enumerate(zip(mn, cols)) if w is not None and not str(w).startswith("?") and w != g]
        if bad:
            return "column names/order differ from the final frame: %s vs %s" % (cols, mn)
        return None                # same columns: a value difference is C01's clause
    if v == "sql-err":
        return "emitted SQL does not execute: %s" % str(rec.get("sqlite"))[:200]
    if v == "panic":
        return "compiler panicked: %s" % str(rec.get("compile"))[:200]
    if v == "compile-err":
        return "well-scoped program rejected: %s" % str([e.get("reason") for e in rec["compile"].get("err", [])])[:300]
    return None


def coq_cols(cols):
    def one(c):
        cid, orig = c
        return "(%d, %s)" % (cid, "None" if orig is None else "Some [%s]" % "; ".join(str(x) for x in orig))
    return "[" + "; ".join(one(c) for c in cols) + "]"


def wildcard_stream(ck, srcs, targets=("sql.sqlite", "sql.duckdb", "sql.bigquery")):
    """Tie B for Model/Wildcards.v: every real call of translate_wildcards (hook) vs the model"""
    reqs = [{"src": s, "target": t, "want": [], "msg_prefix": "verif:translate_wildcards"} for s in srcs for t in targets]
    ans = harness("log", reqs)
    calls = {}
    for rq, a in zip(reqs, ans):
        for e in a.get("entries", []):
            m = e.get("Message")
            if not m:
                continue
            d = json.loads(m[len("verif:translate_wildcards "):])
            key = json.dumps(d["cols"])
            calls.setdefault(key, (d, rq["src"]))
    keys = sorted(calls)
    ck.coverage["wildcard_calls_distinct"] = len(keys)
    ck.coverage["wildcard_calls_with_star"] = sum(1 for k in keys if any(c[1] is not None for c in calls[k][0]["cols"]))
    ck.coverage["wildcard_calls_with_exclusion"] = sum(1 for k in keys if calls[k][0]["excluded"])
    header = "From Coq Require Import List Arith.\nFrom PV Require Import Model.Wildcards.\nImport ListNotations.\n"
    exprs = ["(let r := translate_wildcards %s in (map N.of_nat (fst r), map (fun p => (N.of_nat (fst p), map N.of_nat (snd p))) (snd r)))" % coq_cols(calls[k][0]["cols"]) for k in keys]
    vals = coq_eval(header, exprs) if exprs else []
    for k, v in zip(keys, vals):
        d, src = calls[k]
        ck.count("wildcards", k, nontrivial=any(c[1] is not None for c in d["cols"]))
        out, ex = v
        exd = {}
        for c, s in reversed(ex):
            exd[c] = sorted(set(s))
        want = {c: sorted(set(s)) for c, s in d["excluded"]}
        if list(out) != d["output"] or exd != want:
            ck.disagreement("translate_wildcards: implementation differs from Model/Wildcards.v on cols=%s (program %s)" % (k[:200], src.replace("\n", " | ")[:150]),
                            {"cols": d["cols"], "implementation": {"output": d["output"], "excluded": d["excluded"]}, "model": {"output": list(out), "excluded": exd}, "prql": src},
                            lambda c: None)


def run():
    ck = Check("C05", level="proof")
    pr = ck.prove()
    broken = not pr["ok"]
    rng = ck.rng
    targets = ("sql.sqlite", "sql.generic")
    weights = {"select": 3.0, "derive": 2.0, "join": 2.5, "filter": 1.0, "sort": 1.5, "take": 1.2, "group_take": 1.5, "group_win": 1.0, "group_agg": 1.0,
               "aggregate": 0.5, "win": 0.7, "distinct": 0.5, "append": 0.1}
    g = Gen5(rng, weights=weights, max_steps=6)
    cases = []
    n = ck.n(320, 4000) * (3 if broken else 1)
    for i in range(n):
        fs = rng.random() < 0.5
        pg = g.program(final_select=fs)
        pg.meta["final_select"] = fs
        if not fs:
            pg.final_cols = None
        inst = P.gen_instance(rng, max_rows=5, min_rows=2, extra=("zz",))
        cases.append((pg, [inst]))
    recs = E.run_stream(ck, "columns", cases, targets, judge_cols, classify)
    ck.coverage["programs_without_final_select"] = len({r["prql"] for r in recs if not r["program"].meta.get("final_select", True)})
    srcs = sorted({r["prql"] for r in recs})
    wildcard_stream(ck, srcs)
    ck.proof_broken_violation(found_input=bool(ck.violations))
    ck.assumptions += ["every table has an extra column `zz` that no program mentions, so a `*` the compiler emits expands at run time to more than the compiler knows",
                       "unnamed frame columns (expressions without alias, names shadowed by a later column of the same name) impose no name, only a position"]
    ck.finish(TRUSTED, "streams: columns = random programs (half without a final select, so wildcards reach the result) with repeated names and joins of tables sharing column names, on {sqlite, generic}: sqlite3 column names/count/order vs the reference frame; wildcards = every distinct real call of translate_wildcards (3 dialects incl. ones with EXCLUDE / EXCEPT) vs Model/Wildcards.v. distinct = hash of (program,target,instance) resp. of the call's input; non-trivial = non-empty result or a failure, resp. the call contains a wildcard")

"""C05 -- result columns are exactly the final frame: names, count and order."""
import json
import re

from ..common import Check, coq_eval, harness
from ..rel import prog as P, run as R, e2e as E

TRUSTED = [
    "Coq 8.16.1 kernel (coqc, vm_compute); no axioms (every theorem: Closed under the global context)",
    "hand-written model coq/Model/Wildcards.v of sql/gen_projection.rs translate_wildcards, tied to the code on every run by comparing it with the inputs/outputs of every real call (cfg(prqlc_verif) hook, commit 553813c in /repo)",
    "reference semantics coq/Model/Rel.v (frame rules: alias/ident naming, same-name shadowing, join = left ++ right, group = keys ++ rest)",
    "end-to-end oracle: sqlite3 column names of the emitted SQL vs the frame of the reference semantics, on tables that have an extra column the program never mentions (run-time expansion of *)",
    "hand-written model coq/Model/Dedup.v of deduplicate_select_items, tied the same way (hook commit b55902d); both functions are textually unchanged at /repo HEAD 2a611aa (only cfg(prqlc_verif) code was added to gen_projection.rs)",
    "star stream: sqlparser (parse of the emitted duckdb / bigquery / snowflake SQL) and the star expander of harness/src/c05.rs, validated on every run against the column names SQLite reports",
    "hand-written model coq/Model/SelectItems.v of translate_select_item / translate_exclude / as_col_names / translate_select_items (on C09's Model/NameGen.v select_item_alias and Model/Dedup.v), tied by exact correspondence with every real call (hooks select-item bab53a0, select-items 7fc85b6, pq-names d5c1b7e); inputs of the model that are not modelled: the shape of a column's expression (translate_cid), identifier quoting (compared by value)",
    "Model/LimitSelect.v (limiting-SELECT decision of extract_atomic; tied to every real call through verif:extract_atomic); push_select through C16's Model/LowererSelect.v (read-only; tied by C16's lowerer replay)",
    "not modelled: anchor_split's construction of the relation instance behind a split (where F49, F34, F24-dangling-renamed-duplicate live)",
]


class Gen5(P.Gen):
    """adds the column-shaped cases C05 names: repeated names, joins of tables sharing column names"""

    def __init__(self, rng, **kw):
        super().__init__(rng, **kw)
        self.w.update({"dupselect": 0.8, "joinpick": 1.2, "exclude": 1.6, "knownjoin": 1.5, "joinsplitpick": 1.5, "casealias": 0.5, "unnamedjoin": 0.4, "exprdup": 0.5})
        P.nid("zz")

    def t_dupselect(self, st):
        cols = [c for c in st["cols"] if c[0] is None and not c[1].startswith("?")]
        if not cols:
            return None
        q, c = self.r.choice(cols)
        keep = [x for x in cols if x[1] != c][:2]
        items = [c, c] + [k[1] for k in keep]
        # same name twice: the later column shadows (un-names) the earlier one; both stay in the frame
        st["cols"] = [(None, "?%d" % len(st["steps"])), (None, c)] + [(None, k[1]) for k in keep]
        st["stop"] = True
        return P.Step("dupselect", "select {%s}" % ", ".join(items), "TSelect [%s]" % "; ".join("(None, ECol None %d%%N)" % P.nid(x) for x in items))

    def t_joinpick(self, st):
        """after a join: pick same-named columns of both sides"""
        if not st["joined"] or not any(c[0] == "u" for c in st["cols"]):
            return None
        r = self.r
        picks = []
        for n in ("id", "a", "g"):
            if ("t", n) in st["cols"] and ("u", n) in st["cols"] and r.random() < 0.7:
                picks += [("t", n), ("u", n)]
        if not picks:
            return None
        if ("u", "d") in st["cols"] and r.random() < 0.5:
            picks.append(("u", "d"))
        r.shuffle(picks)
        items = ["%s.%s" % p for p in picks]
        # duplicate names: earlier ones get un-named by the later one
        newcols = []
        for i, (q, n) in enumerate(picks):
            later = any(n2 == n for _, n2 in picks[i + 1:])
            newcols.append((None, ("?%d_%d" % (len(st["steps"]), i)) if later else n))
        st["cols"] = newcols
        st["order"] = None
        st["stop"] = True        # terminal: what follows would only compound the known defects of this shape
        return P.Step("joinpick", "select {%s}" % ", ".join(items), "TSelect [%s]" % "; ".join("(None, ECol (Some %d%%N) %d%%N)" % (P.nid(q), P.nid(n)) for q, n in picks))


    def t_exclude(self, st):
        """select !{...}: all columns but the listed ones"""
        r = self.r
        named = [c for c in st["cols"] if not c[1].startswith("?")]
        if len(named) < 2:
            return None
        n = 1 if r.random() < 0.6 else 2
        ex = r.sample(named, min(n, len(named) - 1))
        if st["order"] is not None and r.random() < 0.5:
            # exclude a column the order in effect sorts by: the back end must carry it for ORDER BY and still hide it
            keyed = [c for c in named if any(c in P.expr_cols(e) for _, e in st["order"])]
            if keyed:
                ex = [r.choice(keyed)]
        if st["order"] is not None:
            st["uniq_dropped"] = True
        st["cols"] = [c for c in st["cols"] if c not in ex]
        items = ["%s%s" % ((q + ".") if q else "", c) for q, c in ex]
        citems = ["(%s, %d%%N)" % (P.coq_opt(q), P.nid(c)) for q, c in ex]
        return P.Step("exclude", "select !{%s}" % ", ".join(items), "TExclude [%s]" % "; ".join(citems), ex=[c for _, c in ex])

    def t_knownjoin(self, st):
        """both join sides have fully known columns (explicit select on each) and share column names"""
        r = self.r
        if st["joined"] or st["cols"] != [(None, c) for c in P.TABLES["t"]] or any(x.kind not in ("sort", "filter", "take") for x in st["steps"]):
            return None
        side = r.choice(["Inner", "LeftJ"])
        on = ("bin", "Eq", ("col", "t", "g"), ("col", "u", "g"))
        sel = P.Step("select", "select {%s}" % ", ".join(P.TABLES["t"]), "TExclude [(None, %d%%N)]" % P.nid("zz"), known=True)
        st["steps"].append(sel)
        ucols = P.TABLES["u"]
        usel = "(Rel.apply (TSelect [%s]) U_TABLE)" % "; ".join("(None, ECol None %d%%N)" % P.nid(c) for c in ucols)
        st["cols"] = [("t", c) for c in P.TABLES["t"]] + [("u", c) for c in ucols]
        st["joined"] = True
        st["uniq"] = None
        st["order"] = None
        return P.Step("knownjoin", "join %su=(from u | select {%s}) (%s)" % ("side:left " if side == "LeftJ" else "", ", ".join(ucols), P.prql_expr(on)),
                      "TJoin %s %d%%N %s %s %s" % (side, P.nid("u"), P.coq_names(ucols), usel, P.coq_expr(on)), side=side)


    def t_unnamedjoin(self, st):
        """the joined sub-pipeline ends in two UN-NAMED computed columns next to named ones (its table instance has two columns
        of the same `no name`); either the unnamed columns reach the result (no closing select), or a closing select picks
        named columns of both sides.  Inner join only: the reference semantics' null-extension of a left join names its columns"""
        r = self.r
        if st["joined"] or st["cols"] != [(None, c) for c in P.TABLES["t"]] or any(x.kind not in ("sort", "filter", "take") for x in st["steps"]):
            return None
        on = ("bin", "Eq", ("col", "t", "g"), ("col", "u", "g"))
        st["steps"].append(P.Step("select", "select {%s}" % ", ".join(P.TABLES["t"]), "TExclude [(None, %d%%N)]" % P.nid("zz"), known=True))
        e1 = ("bin", "Add", ("col", None, "a"), ("lit", 1))
        e2 = ("bin", r.choice(["Add", "Mul"]), ("col", None, "d"), ("lit", r.choice([1, 2])))
        named = ["id", "g"] if r.random() < 0.7 else ["id", "g", "d"]
        uitems = [P.prql_expr(e1), P.prql_expr(e2)] + named
        ucoq = ["(None, %s)" % P.coq_expr(e1), "(None, %s)" % P.coq_expr(e2)] + ["(None, ECol None %d%%N)" % P.nid(c) for c in named]
        if r.random() < 0.5:
            uitems, ucoq = uitems[2:] + uitems[:2], ucoq[2:] + ucoq[:2]
        usel = "(Rel.apply (TSelect [%s]) U_TABLE)" % "; ".join(ucoq)
        join = P.Step("unnamedjoin", "join u=(from u | select {%s}) (%s)" % (", ".join(uitems), P.prql_expr(on)),
                      "TJoin Inner %d%%N %s %s %s" % (P.nid("u"), P.coq_names(named), usel, P.coq_expr(on)), side="Inner")
        st["joined"] = True
        st["uniq"] = None
        st["order"] = None
        st["stop"] = True
        n = len(st["steps"])
        ucols = [("u", "?%d_%d" % (n, i)) if "(" in it else ("u", it) for i, it in enumerate(uitems)]
        if r.random() < 0.5:
            st["cols"] = [("t", c) for c in P.TABLES["t"]] + ucols
            return join
        st["steps"].append(join)
        picks = [("t", r.choice(["a", "b", "c"])), ("u", "id")] + ([("t", "g")] if r.random() < 0.5 else [("u", "g")])
        r.shuffle(picks)
        st["cols"] = [(None, c) for _, c in picks]
        return P.Step("unnamedpick", "select {%s}" % ", ".join("%s.%s" % p for p in picks),
                      "TSelect [%s]" % "; ".join("(None, ECol (Some %d%%N) %d%%N)" % (P.nid(q), P.nid(c)) for q, c in picks))

    def t_joinboth(self, st):
        """after a join of the two wildcard tables: a derive that uses t.N, then (behind the sub-query split the derive's use in a
        filter forces) a filter on u.N, for a column name N both tables have"""
        if not st["joined"] or any(x.kind in ("knownjoin", "unnamedjoin") for x in st["steps"]):
            return None
        r = self.r
        shared = [n for n in ("a", "g", "id") if ("t", n) in st["cols"] and ("u", n) in st["cols"]]
        if not shared:
            return None
        n_ = "a" if "a" in shared else r.choice(shared)      # `a` is never a join key: t.a and u.a differ row by row
        nm = self.newname()
        # variant "both": t.N and u.N are both used behind the split (the duplicate gets a generated name nothing defines);
        # variant "one": only u.N is used there (the reference is emitted as the bare name N, which denotes t.N in the CTE)
        both = r.random() < 0.5
        e = ("bin", "Add", ("col", "t", n_ if both else "c"), ("lit", 1))
        st["steps"].append(P.Step("derive", "derive {%s = %s}" % (nm, P.prql_expr(e)), "TDerive [(Some %d%%N, %s)]" % (P.nid(nm), P.coq_expr(e))))
        st["cols"] = st["cols"] + [(None, nm)]
        f = ("bin", "Or", ("bin", "Gt", ("col", "u", n_), ("lit", 0)), ("isnull", ("col", "u", n_), False))
        if not both:
            f = ("bin", r.choice(["Ge", "Lt"]), ("col", "u", n_), ("lit", r.choice([1, 2])))
        if r.random() < 0.5:
            f = ("bin", "And", f, ("bin", "Or", ("bin", "Ne", ("col", None, nm), ("lit", 99)), ("isnull", ("col", None, nm), False)))
        return P.Step("joinboth", "filter %s" % P.prql_expr(f), "TFilter %s" % P.coq_expr(f), shared=n_, both=both)

    def t_exprdup(self, st):
        """the same computed expression twice in one frame: once under a name, once WITHOUT a name (`select {id, x = e, e}`, or
        `derive {x = e}` first and the unnamed repetition in a later select).  Two columns of the final relation; terminal"""
        r = self.r
        cols = [c for c in st["cols"] if c[0] is None and not c[1].startswith("?")]
        if len(cols) < 2 or st["joined"]:
            return None
        e = self.num(cols, 1)
        if e[0] in ("col", "lit"):
            e = ("bin", r.choice(["Add", "Sub", "Mul"]), ("col",) + r.choice(cols), ("col",) + r.choice(cols))
        nm = self.newname()
        keep = r.sample(cols, min(len(cols), r.randint(1, 2)))
        if r.random() < 0.3:
            # an expression static evaluation folds to a plain column (`null ?? a` = a): the select then requests that column under
            # a name, WITHOUT a name and (when it is kept as well) as itself -- the repetition reaches deduplicate_select_items (F13)
            fc = r.choice(cols)
            e = ("bin", "Coalesce", ("lit", None), ("col",) + fc)
            if fc not in keep and r.random() < 0.7:
                keep = keep[:1] + [fc]
        st["stop"] = True
        n = len(st["steps"])
        items_p, items_c = [c for _, c in keep], ["(None, ECol None %d%%N)" % P.nid(c) for _, c in keep]
        if r.random() < 0.5:
            st["steps"].append(P.Step("derive", "derive {%s = %s}" % (nm, P.prql_expr(e)), "TDerive [(Some %d%%N, %s)]" % (P.nid(nm), P.coq_expr(e))))
            named_p, named_c = nm, "(None, ECol None %d%%N)" % P.nid(nm)
        else:
            named_p, named_c = "%s = %s" % (nm, P.prql_expr(e)), "(Some %d%%N, %s)" % (P.nid(nm), P.coq_expr(e))
        pair_p, pair_c = [named_p, P.prql_expr(e)], [named_c, "(None, %s)" % P.coq_expr(e)]
        newcols = [(None, c) for _, c in keep] + [(None, nm), (None, "?%d_e" % n)]
        if r.random() < 0.4:
            pair_p, pair_c = pair_p[::-1], pair_c[::-1]
            newcols = [(None, c) for _, c in keep] + [(None, "?%d_e" % n), (None, nm)]
        st["cols"] = newcols
        return P.Step("exprdup", "select {%s}" % ", ".join(items_p + pair_p), "TSelect [%s]" % "; ".join(items_c + pair_c))

    def t_casealias(self, st):
        """an alias that differs from its source column only by case: PRQL names are case-sensitive, so this is a
        NEW column next to the old one (terminal: engines resolve later references case-insensitively)"""
        cols = [c for c in st["cols"] if c[0] is None and c[1] in ("a", "b", "c", "g", "id")]
        if not cols or st["joined"]:
            return None
        q, c = self.r.choice(cols)
        up = c.upper()
        st["stop"] = True
        if self.r.random() < 0.5:
            st["cols"] = st["cols"] + [(None, up)]
            return P.Step("casealias", "derive {%s = %s}" % (up, c), "TDerive [(Some %d%%N, ECol None %d%%N)]" % (P.nid(up), P.nid(c)))
        keep = [x for x in st["cols"] if x[0] is None and not x[1].startswith("?") and x[1] != c][:2]
        items = [(None, c), (up, c)] + [(None, k[1]) for k in keep]
        st["cols"] = [(None, c), (None, up)] + [(None, k[1]) for k in keep]
        return P.Step("casealias", "select {%s}" % ", ".join(("%s = %s" % (al, n)) if al else n for al, n in items),
                      "TSelect [%s]" % "; ".join("(%s, ECol None %d%%N)" % (("Some %d%%N" % P.nid(al)) if al else "None", P.nid(n)) for al, n in items), closed=True)

    def t_joinsplitpick(self, st):
        """after a join: force a sub-query split (derive then filter), then select same-named columns of both sides"""
        if not st["joined"] or not any(c[0] == "u" for c in st["cols"]) or not any(c[0] == "t" for c in st["cols"]):
            return None
        r = self.r
        tn = [c for c in st["cols"] if c[0] == "t" and c[1] in ("a", "id", "g", "b", "c")]
        un = [c for c in st["cols"] if c[0] == "u" and c[1] in ("a", "id", "g", "d")]
        if not tn or not un:
            return None
        nm = self.newname()
        e = ("bin", "Add", ("col",) + r.choice(tn), ("col",) + r.choice(un))
        st["steps"].append(P.Step("derive", "derive {%s = %s}" % (nm, P.prql_expr(e)), "TDerive [(Some %d%%N, %s)]" % (P.nid(nm), P.coq_expr(e))))
        f = ("bin", "Or", ("bin", "Ne", ("col", None, nm), ("lit", 99)), ("isnull", ("col", None, nm), False))
        st["steps"].append(P.Step("filter", "filter %s" % P.prql_expr(f), "TFilter %s" % P.coq_expr(f)))
        st["cols"] = st["cols"] + [(None, nm)]
        return self.t_joinpick(st)


TERMINAL = ("joinpick", "dupselect", "unnamedjoin", "unnamedpick", "exprdup")


def frame_closed(pg):
    """the final frame is fully known to the generator: the program ends in the closing select program() adds, in a terminal
    kind that fixes the frame, or in the select form of casealias.  (A generator that was ASKED for a final select but stopped
    early -- `derive {A = a}` of casealias -- leaves a wildcard in the frame: its columns are then known only from the rows.)"""
    if not pg.steps:
        return False
    last = pg.steps[-1]
    return last.kind in TERMINAL or bool(last.info.get("final")) or bool(last.info.get("closed"))
EXCLUDING = ("sql.duckdb", "sql.bigquery", "sql.snowflake")     # dialects with `* EXCLUDE (..)` / `* EXCEPT (..)`


def dedup_explains(rec, cols):
    """F13 decided on what the compiler actually saw, not on the spelling of the source: some real call of translate_select_items
    of this compile (hook verif:select_items) built one item per column of the final frame and deduplicate_select_items dropped
    some of them -- and the columns missing from the result are EXACTLY the dropped ones (the frame's names without the dropped
    positions are the result's names).  That the hook's drop is the Dedup.v model's drop is what the dedup / selectitems streams check."""
    mn = rec.get("model_names") or []
    rn = rec["program"].meta.get("rename") or {}
    mn = [rn.get(w, w) if w is not None else None for w in mn]
    cols = [re.sub(r":\d+$", "", c) for c in cols]
    ci = any(s_.kind == "casealias" for s_ in rec["program"].steps)
    _, ans = hook_events([rec["prql"]], (rec["target"],))
    for e in ans[0].get("entries", []):
        m = e.get("Message") or ""
        if not m.startswith("verif:select_items "):
            continue
        d = json.loads(m[len("verif:select_items "):])
        items, final = d["items"], d["final"]
        if len(items) != len(mn) or len(final) != len(cols) or len(final) >= len(items):
            continue
        kept, j = [], 0                     # final is a subsequence of items: which positions survived
        for i, it in enumerate(items):
            if j < len(final) and final[j] == it:
                kept.append(i)
                j += 1
        if j != len(final):
            continue
        want = [mn[i] for i in kept]
        # a column id that is requested more than once has ONE name in column_names: when one of its occurrences is unnamed, the id
        # gets a generated name at a sub-query split and every surviving occurrence shows it (`c AS _expr_0` for the frame column c)
        cids = [c["cid"] for c in d["in"]["cols"]]
        twice = {i for i in kept if cids.count(cids[i]) > 1} if len(cids) == len(items) else set()
        name_ok = lambda k, w, g: w is None or str(w).startswith("?") or (w.lower() == g.lower() if ci else w == g) \
            or (kept[k] in twice and re.fullmatch(r"_expr_\d+", g) is not None)
        if all(name_ok(k, w, g) for k, (w, g) in enumerate(zip(want, cols))):
            return True
    return False


def classify(rec):
    fid = E.classify_common(rec)
    if fid:
        return fid
    sql = rec.get("sql") or ""
    kinds = rec["program"].kinds()
    cols = rec.get("sqlite_cols") or []
    if any(re.fullmatch(r"_expr_\d+", c) for c in cols) and re.search(r"SELECT \*(?!,| EXCLUDE)", sql) and rec["target"] in ("sql.sqlite", "sql.generic"):
        return "F23-helper-column-exposed"
    if "exclude" in kinds and rec["target"] in ("sql.sqlite", "sql.generic") and re.search(r"(SELECT|,) (\w+\.)?\*", sql) \
            and len(cols) > len(rec.get("model_names") or []):
        return "F23-helper-column-exposed"      # same root: a star cannot exclude on this dialect, here a user-excluded column leaks
    if rec["verdict"] == "sql-err" and re.search(r"no such column: _expr_\d+", str(rec.get("sqlite"))) and "join" in kinds and re.search(r"SELECT \w+\.\*, u\.\*", sql):
        return "F24-dangling-renamed-duplicate"
    cols_n, frame_n = len(rec.get("sqlite_cols") or []), len(rec.get("model_names") or [])
    if ("joinpick" in kinds or "knownjoin" in kinds or "join" in kinds) and any(re.fullmatch(r"_expr_\d+", c) for c in cols) and re.search(r" AS \"?_expr_\d+\"?", sql) \
            and cols_n == frame_n:
        return "F34-renamed-duplicate-name-leaks"     # a NAME is wrong; a missing column is F13's class (below)
    if rec["verdict"] == "rows" and "joinboth" in kinds and re.search(r"SELECT \w+\.\*, \w+\.\*", sql):
        jb = [st for st in rec["program"].steps if st.kind == "joinboth"][-1]
        rn = rec["program"].meta.get("rename") or {}
        nm_ = rn.get(jb.info["shared"], jb.info["shared"])
        if not jb.info.get("both") and re.search(r"FROM table_\d+ WHERE [^()]*(?<![.\w\"])\"?%s\"? " % re.escape(nm_), sql + " "):
            return "F48-right-column-read-as-left-behind-star"
    # (F47, the unwrap panic on an unnamed column of a joined sub-pipeline, is repaired by 9c40b5a: nothing excuses a panic)
    if rec["verdict"] in ("names", "rows") and cols_n < frame_n and dedup_explains(rec, cols):
        return "F13-duplicate-select-merged"
    if rec["target"] in EXCLUDING and rec["verdict"] == "names":
        # columns that come back on a dialect WITH column exclusion.  Each must be explained:
        # F43: it was excluded by an exclusion that is not the last one (only the last exclusion survives);
        # F49: `sort | take | more`: a column the back end carries through the take's sub-query for its own use -- a plain sort key
        #      the user excluded afterwards, or the `_expr_N` helper of a computed sort key -- is shown by the closing `SELECT *`
        #      when another transform follows (the pass-through sub-query forgets what the star must hide)
        steps = rec["program"].steps
        rn = rec["program"].meta.get("rename") or {}
        exs = [(i, st.info.get("ex", [])) for i, st in enumerate(steps) if st.kind == "exclude"]
        earlier = {rn.get(c, c) for _, e in exs[:-1] for c in e}
        carried = set()
        for i, e in exs:
            if i == len(steps) - 1:
                continue
            for j, st in enumerate(steps[:i]):
                if (st.kind == "sort" and any(x.kind in ("take", "group_take") for x in steps[j + 1:i])) or st.kind == "group_take":
                    carried |= {rn.get(k[2], k[2]) for _, k in (st.info.get("keys") or []) if k[0] == "col" and k[2] in e}
        helper_ok = False
        for j, st in enumerate(steps):
            if st.kind == "sort" and any(k[0] != "col" for _, k in (st.info.get("keys") or [])):
                takes = [i for i in range(j + 1, len(steps)) if steps[i].kind == "take"]
                if takes and takes[0] < len(steps) - 1:
                    helper_ok = True
        want = [rn.get(w, w) for w in (rec.get("model_names") or []) if w is not None]
        extra = list(cols)
        for w in want:
            if w in extra:
                extra.remove(w)
        is_helper = lambda c: helper_ok and re.fullmatch(r"_expr_\d+", c) and re.search(r" AS [\"`]?%s\b" % c, sql) \
            and re.search(r"AS \(SELECT \* FROM [\"`]?table_\d+[\"`]?\)", sql)
        if extra and len(cols) == len(rec.get("model_names") or []) + len(extra) and all(c in earlier or c in carried or is_helper(c) for c in extra):
            return "F43-earlier-exclusion-lost" if any(c in earlier for c in extra) else "F49-carried-column-shown-behind-take"
    if ("group_take" in kinds or "group_win" in kinds) and not rec["program"].meta.get("final_select", True) and re.search(r"SELECT (DISTINCT ON \([^)]*\) )?\*", sql):
        return "F26-group-keys-first-vs-star"
    return None


def judge_cols(rec):
    v = rec["verdict"]
    if v in ("ok",):
        return None
    if v in ("names", "rows"):
        cols = rec.get("sqlite_cols")
        mn = rec.get("model_names")
        if cols is None or mn is None:
            return None
        # SQLite renames duplicate column names coming out of a sub-query (`id`, `id:1`): an engine artefact
        cols = [re.sub(r":\d+$", "", c) for c in cols]
        rn = rec["program"].meta.get("rename") or {}
        mn = [rn.get(w, w) if w is not None else None for w in mn]
        if not rec.get("model_rows") and not rec["program"].meta.get("final_select", True):
            return None            # empty result of a wildcard program: the frame is not observable from the model
        if len(cols) != len(mn):
            return "result has %d columns, the final frame has %d (%s vs %s)" % (len(cols), len(mn), cols, mn)
        # SQLite resolves identifiers case-insensitively even when quoted: once `a` and "A" pass through a sub-query
        # it reports the first one's spelling for both (an engine artefact; the star stream judges the spelling on the SQL text)
        ci = any(s.kind == "casealias" for s in rec["program"].steps)
        bad = [(i, w, g) for i, (w, g) in enumerate(zip(mn, cols)) if w is not None and not str(w).startswith("?")
               and (w.lower() != g.lower() if ci else w != g)]
        if bad:
            return "column names/order differ from the final frame: %s vs %s" % (cols, mn)
        if v == "rows" and any(s.kind in ("joinpick", "knownjoin") for s in rec["program"].steps) \
                and not R.rows_equal(rec["sqlite_rows"], rec["model_rows"], ordered=False):
            return "same-named columns of both join sides are selected and the VALUES differ from the frame's (columns merged or swapped?)"
        if v == "rows" and any(s.kind == "joinboth" for s in rec["program"].steps) and not R.rows_equal(rec["sqlite_rows"], rec["model_rows"], ordered=False):
            return "a filter on the RIGHT table's column of a name both tables have selects other rows than the frame's column does (the reference reached the wrong column)"
        return None                # same columns: any other value difference is C01's clause
    if v == "sql-err":
        return "emitted SQL does not execute: %s" % str(rec.get("sqlite"))[:200]
    if v == "panic":
        return "compiler panicked: %s" % str(rec.get("compile"))[:200]
    if v == "compile-err":
        reasons = [str(e.get("reason")) for e in rec["compile"].get("err", [])]
        if rec["program"].steps and rec["program"].steps[-1].kind == "unnamedjoin" \
                and reasons == ["This table contains unnamed columns that need to be referenced by name"]:
            return None            # since 9c40b5a: an unnamed column of a sub-pipeline that reaches the result is rejected (the let-table form always was)
        return "well-scoped program rejected: %s" % str([e.get("reason") for e in rec["compile"].get("err", [])])[:300]
    return None


def coq_cols(cols):
    def one(c):
        cid, orig = c
        return "(%d, %s)" % (cid, "None" if orig is None else "Some [%s]" % "; ".join(str(x) for x in orig))
    return "[" + "; ".join(one(c) for c in cols) + "]"


HOOK_PREFIXES = ["verif:translate_wildcards ", "verif:deduplicate_select_items ", "verif:select_item ", "verif:select_items ", "verif:pq-names ", "verif:extract_atomic ", "verif:anchor_split ", "verif:split_off_back ", "verif:load_names ", "verif:pipeline_in "]
_hook_cache = {}


def hook_events(srcs, targets):
    """one compile per (source, target) serves every hook stream (harness c05_hooks keeps only the lines of HOOK_PREFIXES)"""
    need = [(s_, t) for s_ in srcs for t in targets if (s_, t) not in _hook_cache]
    if need:
        for (s_, t), a in zip(need, harness("c05_hooks", [{"src": s_, "target": t, "prefixes": HOOK_PREFIXES} for s_, t in need])):
            _hook_cache[(s_, t)] = a
    reqs = [{"src": s_, "target": t} for s_ in srcs for t in targets]
    return reqs, [_hook_cache[(r["src"], r["target"])] for r in reqs]


def wildcard_stream(ck, srcs, targets=("sql.sqlite", "sql.duckdb", "sql.bigquery")):
    """Tie B for Model/Wildcards.v: every real call of translate_wildcards (hook) vs the model"""
    reqs, ans = hook_events(srcs, targets)
    calls = {}
    for rq, a in zip(reqs, ans):
        for e in a.get("entries", []):
            m = e.get("Message")
            if not m or not m.startswith("verif:translate_wildcards "):
                continue
            d = json.loads(m[len("verif:translate_wildcards "):])
            key = json.dumps(d["cols"])
            calls.setdefault(key, (d, rq["src"]))
    keys = sorted(calls)
    ck.coverage["wildcard_calls_distinct"] = len(keys)
    ck.coverage["wildcard_calls_with_star"] = sum(1 for k in keys if any(c[1] is not None for c in calls[k][0]["cols"]))
    ck.coverage["wildcard_calls_with_exclusion"] = sum(1 for k in keys if calls[k][0]["excluded"])
    header = "From Coq Require Import List Arith.\nFrom PV Require Import Model.Wildcards.\nImport ListNotations.\n"
    exprs = ["(let r := translate_wildcards %s in (map N.of_nat (fst r), map (fun p => (N.of_nat (fst p), map N.of_nat (snd p))) (snd r)))" % coq_cols(calls[k][0]["cols"]) for k in keys]
    vals = coq_eval(header, exprs) if exprs else []
    for k, v in zip(keys, vals):
        d, src = calls[k]
        ck.count("wildcards", k, nontrivial=any(c[1] is not None for c in d["cols"]))
        out, ex = v
        exd = {}
        for c, s in reversed(ex):
            exd[c] = sorted(set(s))
        want = {c: sorted(set(s)) for c, s in d["excluded"]}
        stars_out = [c for c in d["output"] if any(x[0] == c and x[1] is not None for x in d["cols"])]
        if len(set(stars_out)) != len(stars_out):
            # hypothesis of c05_select_list_shows_requested: no STAR id is handed to translate_select_items twice (other ids may repeat: `select {a, a}`)
            ck.disagreement("translate_wildcards returned a wildcard id twice: %s (program %s)" % (d["output"], src.replace("\n", " | ")[:150]),
                            {"cols": d["cols"], "output": d["output"], "prql": src}, lambda c: None)
        if list(out) != d["output"] or exd != want:
            ck.disagreement("translate_wildcards: implementation differs from Model/Wildcards.v on cols=%s (program %s)" % (k[:200], src.replace("\n", " | ")[:150]),
                            {"cols": d["cols"], "implementation": {"output": d["output"], "excluded": d["excluded"]}, "model": {"output": list(out), "excluded": exd}, "prql": src},
                            lambda c: None)


def dedup_stream(ck, srcs, targets=("sql.sqlite", "sql.duckdb")):
    """Tie B for Model/Dedup.v: every real call of deduplicate_select_items (second hook) vs the model"""
    reqs, ans = hook_events(srcs, targets)
    calls = {}
    for rq, a in zip(reqs, ans):
        for e in a.get("entries", []):
            m = e.get("Message")
            if m and m.startswith("verif:deduplicate_select_items "):
                d = json.loads(m[len("verif:deduplicate_select_items "):])
                calls.setdefault(json.dumps(d["items"]), (d, rq["src"]))
    keys = sorted(calls)
    ck.coverage["dedup_calls_distinct"] = len(keys)
    ck.coverage["dedup_calls_that_drop"] = sum(1 for k in keys if calls[k][0]["dropped"])

    def enc(items):
        names = {}
        def nid(x):
            return names.setdefault(x, len(names))
        out = []
        for it in items:
            if it == "other":
                out.append("IOther")
            elif "alias" in it:
                out.append("IAlias %d" % nid(it["alias"]))
            else:
                out.append("ICompound [%s]" % "; ".join(str(nid(x)) for x in it["compound"]))
        return "[" + "; ".join(out) + "]", names
    exprs, meta = [], []
    for k in keys:
        d, src = calls[k]
        term, names = enc(d["items"])
        exprs.append("(map (fun it => match it with ICompound ids => (0%%N, map N.of_nat ids) | IAlias a => (1%%N, [N.of_nat a]) | IOther => (2%%N, []) end) (dedup [] %s))" % term)
        meta.append((d, src, names))
    header = "From Coq Require Import List Arith NArith.\nFrom PV Require Import Model.Dedup.\nImport ListNotations.\n"
    vals = coq_eval(header, exprs) if exprs else []
    for (d, src, names), v in zip(meta, vals):
        ck.count("dedup", json.dumps(d["items"]), nontrivial=len(d["items"]) > 1)
        inv = {n: s_ for s_, n in names.items()}
        got = []
        for tag, ids in v:
            if tag == 0:
                got.append({"compound": [inv[i] for i in ids]})
            elif tag == 1:
                got.append({"alias": inv[ids[0]]})
            else:
                got.append("other")
        if got != d["kept"]:
            ck.disagreement("deduplicate_select_items: implementation differs from Model/Dedup.v (program %s)" % src.replace("\n", " | ")[:200],
                            {"items": d["items"], "implementation_kept": d["kept"], "model_kept": got, "prql": src}, lambda c: None)


def _codes(x):
    return "[" + ";".join(str(ord(c)) for c in x) + "]%N"


def _strs(xs):
    return "[" + "; ".join(_codes(x) for x in xs) + "]"


def _shape_coq(e):
    if isinstance(e, dict) and "compound" in e:
        return "(ECompound %s)" % _strs([p if isinstance(p, str) else p[0] for p in e["compound"]])
    if isinstance(e, dict) and "ident" in e:
        v = e["ident"]
        return "(EIdent %s)" % _codes(v if isinstance(v, str) else v[0])
    return "EOther"


def _shape_plain(e):
    if isinstance(e, dict) and "compound" in e:
        return (0, [p[0] for p in e["compound"]])
    if isinstance(e, dict) and "ident" in e:
        return (1, [e["ident"][0]])
    return (2, [])


def _item_plain(it):
    """an item of the verif:select_items event -> the plain form Model/SelectItems.show_item prints; None = a shape the model does
    not cover (declined, counted)"""
    if not isinstance(it, dict):
        return None
    if "star" in it:
        o = it["opts"]
        if o.get("other") or any(not isinstance(p, list) for p in it["star"]):
            return None
        q = [p[0] for p in it["star"]]
        if o.get("exclude") is not None:
            return (2, (1, q), [x[0] for x in o["exclude"]])
        if o.get("except") is not None:
            return (2, (2, q), [x[0] for x in o["except"]])
        return (2, (0, q), [])
    if "col" in it:
        sh = _shape_plain(it["col"])        # a NULL literal is "not an identifier" like any other expression
        if "alias" in it:
            return (1, sh, [it["alias"][0]])
        return (0, sh, [])
    return None


def _dec(v):
    """parse_term's value of `map show_item ..` -> the same plain form with python strings"""
    out = []
    for tag, (etag, parts), extra in v:
        out.append((tag, (etag, ["".join(chr(c) for c in p_) for p_ in parts]), ["".join(chr(c) for c in x) for x in extra]))
    return out


def selectitems_stream(ck, srcs, targets=("sql.sqlite", "sql.duckdb", "sql.bigquery")):
    """Tie for Model/SelectItems.v: EVERY real call of translate_select_items (hooks select-item bab53a0 + select-items 7fc85b6)
    vs `select_items`: the items before de-duplication, the final items and the state of the `_expr_` generator afterwards, field by
    field (identifier VALUES; quoting is C09's subject).  Inputs of a call: the `in` object of verif:select_items (columns with their
    wildcard instance, excluded sets with the declarations of their members, column_names, next generated name, dialect answers),
    the expression SHAPE of every non-star column from its verif:select_item event, the reserved column names from verif:pq-names."""
    reqs, ans = hook_events(srcs, targets)
    calls, n_events, n_pq = {}, 0, 0
    for rq, a in zip(reqs, ans):
        reserved, pend = None, []
        for e in a.get("entries", []):
            m = e.get("Message") or ""
            name, _, js = m.partition(" ")
            if name == "verif:pq-names":
                reserved = json.loads(js).get("reserved_columns")
                n_pq += 1
            elif name == "verif:select_item":
                pend.append(json.loads(js))
            elif name == "verif:select_items":
                d = json.loads(js)
                n_events += 1
                key = json.dumps([d["in"], [x["expr"] for x in pend], reserved], sort_keys=True)
                calls.setdefault(key, (d, pend, reserved, rq["src"], rq["target"]))
                pend = []
    ck.coverage["select_items_events"] = n_events
    ck.coverage["select_items_calls_distinct"] = len(calls)
    if n_events == 0 or n_pq == 0:
        # fail closed: a tree without the hooks gives no events
        ck.violation("no verif:select_items / verif:pq-names event was produced: the select-item / select-items / pq-names hooks are missing from this tree",
                     {"kind": "missing-hook", "hooks": ["bab53a0 select-item", "7fc85b6 select-items", "d5c1b7e pq-names"]}, no_input=True)
        return
    header = ("From Coq Require Import List Arith NArith.\nFrom PV Require Import Lib.ListX Model.Ident Model.NameGen Model.Wildcards Model.Dedup Model.SelectItems.\n"
              "Import ListNotations.\n")
    exprs, meta = [], []
    # every call with a star, an exclusion, an invented alias, a dropped item or the zero-column NULL; of the plain rest a sample
    def interesting(k):
        d = calls[k][0]
        return (any(c["wild"] is not None for c in d["in"]["cols"]) or d["in"]["gen"] != d["gen_after"] or len(d["items"]) != len(d["final"])
                or any(x.get("expected") is None for x in calls[k][1]))
    keys = sorted(calls)
    first = [k for k in keys if interesting(k)]
    rest = [k for k in keys if not interesting(k)]
    ck.rng.shuffle(rest)
    cap = ck.n(900, 20000)
    chosen = first[:cap] + rest[:max(0, cap - len(first))]
    ck.coverage["select_items_calls_compared"] = len(chosen)
    for key in chosen:
        d, pend, reserved, src, target = calls[key]
        i = d["in"]
        m = re.fullmatch(r"_expr_(\d+)", i["gen"])
        m2 = re.fullmatch(r"_expr_(\d+)", d["gen_after"])
        want_items, want_final = [_item_plain(x) for x in d["items"]], [_item_plain(x) for x in d["final"]]
        shapes = list(pend)
        cols, ok = [], bool(m and m2) and reserved is not None and None not in want_items and None not in want_final
        for c in i["cols"]:
            if c["wild"] is None:
                if not shapes or shapes[0]["cid"] != c["cid"]:
                    ok = False
                    break
                cols.append("CCol %d %s" % (c["cid"], _shape_coq(shapes.pop(0)["expr"])))
            else:
                t_ = c["wild"]["table"]
                cols.append("CStar %d %s" % (c["cid"], "None" if t_ is None else "(Some %s)" % _codes(t_)))
        allv = json.dumps([d["items"], d["final"]])
        if ok and (shapes or '\\"\\"' in allv or "``" in allv):
            ok = False            # leftover item events, or an identifier that contains the quote character (doubled in the item's value)
        if not ok:
            ck.stat("selectitems", "declined")
            continue
        ex = "[" + "; ".join("(%d, [%s])" % (k, "; ".join("(%d, %s)" % (c_, "Some %s" % _codes(dc["single"]) if isinstance(dc, dict) and dc.get("single") is not None else "None")
                                                              for c_, dc in v)) for k, v in i["excluded"]) + "]"
        sup = {"none": "None", "exclude": "(Some XExclude)", "except": "(Some XExcept)"}[i["column_exclude"]]
        names = "[" + "; ".join("(%d, %s)" % (c_, _codes(n_)) for c_, n_ in i["column_names"]) + "]"
        exprs.append("(match select_items lower_ascii %s %s %s %s (mkn %s %s%%N) %s [%s] with Some (a, b, st) => (1%%N, map show_item a, map show_item b, counter st) "
                     "| None => (0%%N, [], [], 0%%N) end)" % (_strs(reserved), sup, "true" if i["omit_ident_prefix"] else "false",
                                                            "true" if i["supports_zero_columns"] else "false", names, m.group(1), ex, "; ".join(cols)))
        meta.append((d, src, target, want_items, want_final, int(m2.group(1))))
    vals = coq_eval(header, exprs) if exprs else []
    for (d, src, target, want_items, want_final, want_n), v in zip(meta, vals):
        nontriv = any(x[0] in (1, 2) for x in want_items) or len(want_items) != len(want_final)
        ck.count("selectitems", json.dumps(d["in"], sort_keys=True) + json.dumps(d["items"]), nontrivial=nontriv)
        for x in want_items:
            ck.stat("selectitems", "item:" + {0: "unnamed", 1: "alias", 2: "star"}[x[0]])
        if len(want_items) != len(want_final):
            ck.stat("selectitems", "dedup-dropped" if len(want_final) < len(want_items) else "null-added")
        got = None
        if v is not None and isinstance(v, tuple) and len(v) == 4 and v[0] == 1:
            got = (_dec(v[1]), _dec(v[2]), v[3])
        want = ([(a, (b[0], list(b[1])), list(c_)) for a, b, c_ in want_items], [(a, (b[0], list(b[1])), list(c_)) for a, b, c_ in want_final], want_n)
        if got != want:
            ck.disagreement("translate_select_items: implementation differs from Model/SelectItems.v (program %s) [%s]" % (src.replace("\n", " | ")[:200], target),
                            {"in": d["in"], "implementation": {"items": d["items"], "final": d["final"], "gen_after": d["gen_after"]},
                             "model": repr(got)[:1500], "prql": src, "target": target}, lambda c: None)


def limit_stream(ck, srcs, targets=("sql.sqlite", "sql.duckdb")):
    """Tie for Model/LimitSelect.v: every real call of extract_atomic (hook verif:extract_atomic): the decision to append a limiting
    SELECT (`extra`) vs has_extra, and the hypothesis of c05_closing_select_exact_partial -- when no limiting SELECT is appended
    the atomic pipeline's own Select must BE the requested list."""
    reqs, ans = hook_events(srcs, targets)
    calls = {}
    for rq, a in zip(reqs, ans):
        msgs = [e.get("Message") or "" for e in a.get("entries", [])]
        for i, m in enumerate(msgs):
            if m.startswith("verif:extract_atomic "):
                d = json.loads(m[len("verif:extract_atomic "):])
                # the branch actually taken: the limiting SELECT is built by a call of anchor_split right behind this event, before
                # the next atomic pipeline is looked at (load_names / split_off_back / pipeline_in)
                taken = False
                for m2 in msgs[i + 1:]:
                    if m2.startswith("verif:anchor_split "):
                        taken = True
                        break
                    if m2.startswith(("verif:load_names ", "verif:split_off_back ", "verif:pipeline_in ", "verif:extract_atomic ")):
                        break
                d["taken"] = taken
                calls.setdefault(json.dumps([d["output_redirected"], d["select_cols"], taken]), (d, rq["src"], rq["target"]))
    keys = sorted(calls)
    ck.coverage["extract_atomic_calls_distinct"] = len(keys)
    if not keys:
        ck.violation("no verif:extract_atomic event was produced: the hook is missing from this tree", {"kind": "missing-hook", "hooks": ["extract_atomic"]}, no_input=True)
        return
    header = "From Coq Require Import List Arith.\nFrom PV Require Import Model.Wildcards Model.LimitSelect.\nImport ListNotations.\n"
    lst = lambda xs: "[" + "; ".join(str(x) for x in xs) + "]"
    exprs = ["(has_extra %s %s, map N.of_nat (closing_select %s %s))" % (lst(calls[k][0]["output_redirected"]), lst(calls[k][0]["select_cols"]),
                                                                        lst(calls[k][0]["output_redirected"]), lst(calls[k][0]["select_cols"])) for k in keys]
    header = "From Coq Require Import List Arith NArith.\nFrom PV Require Import Model.Wildcards Model.LimitSelect.\nImport ListNotations.\n"
    vals = coq_eval(header, exprs)
    for k, v in zip(keys, vals):
        d, src, target = calls[k]
        ck.count("limit", k, nontrivial=d["extra"])
        ck.stat("limit", "extra" if d["extra"] else "plain")
        if v is None or bool(v[0]) != bool(d["extra"]) or bool(v[0]) != d["taken"]:
            ck.disagreement("extract_atomic: the limiting-SELECT decision differs from Model/LimitSelect.has_extra (program %s) [%s]" % (src.replace("\n", " | ")[:200], target),
                            {"event": d, "model": repr(v), "limiting_select_built": d["taken"], "prql": src, "target": target}, lambda c: None)
        elif not d["extra"] and d["select_cols"] != d["output_redirected"]:
            ck.stat("limit", "plain-but-select-differs-from-output")
            ck.disagreement("extract_atomic: no limiting SELECT, but the atomic pipeline selects %s where %s was asked for (program %s) [%s]"
                            % (d["select_cols"], d["output_redirected"], src.replace("\n", " | ")[:200], target),
                            {"event": d, "prql": src, "target": target}, lambda c: None)


def star_stream(ck, recs, targets=("sql.duckdb", "sql.bigquery", "sql.snowflake")):
    """Result columns on dialects that HAVE a column-exclusion facility (`* EXCLUDE (..)`, `* EXCEPT (..)`), which we
    cannot execute here: the emitted SQL is parsed (sqlparser) and every `*` / `tbl.*` [EXCLUDE|EXCEPT] is expanded
    against the schemas of the instance's tables, CTEs and derived tables (harness `sqlcols`); the resulting column
    list must be the final frame -- names, count, order -- exactly as for the executed SQLite result.  The expander is
    itself validated on every run against the column names SQLite reports for the sqlite-dialect SQL."""
    base = {}
    for r in recs:
        if r["target"] != "sql.sqlite" or r.get("model_names") is None or r["verdict"] not in ("ok", "names", "rows"):
            continue
        if not r.get("model_rows") and not r["program"].meta.get("final_select", True):
            continue
        base.setdefault(r["prql"], r)
    items = sorted(base.items())

    def schema(inst):
        rn = inst.get("__rename__", {})
        return {t: [rn.get(c, c) for c in P.inst_cols(inst, t)] for t in P.TABLES}
    # (1) validate the expander against SQLite itself
    ans = harness("sqlcols", [{"sql": r["sql"], "dialect": "sqlite", "schema": schema(r["instance"])} for _, r in items])
    agree = differ = 0
    for (src, r), a in zip(items, ans):
        got = a.get("cols")
        real = [re.sub(r":\d+$", "", c) for c in (r.get("sqlite_cols") or [])]
        if got is None:
            ck.stat("star", "expander_declined")
            continue
        if len(got) == len(real) and all(g is None or g == w for g, w in zip(got, real)):
            agree += 1
        else:
            differ += 1
            ck.sample({"star_expander_differs_from_sqlite": {"prql": src, "sql": r["sql"], "expander": got, "sqlite": real}})
    ck.coverage["star_expander_validation"] = {"agrees_with_sqlite": agree, "differs": differ}
    # (2) the dialects with EXCLUDE / EXCEPT
    reqs = [{"src": src, "target": t} for src, _ in items for t in targets]
    comp = harness("compile", reqs)
    creqs, meta = [], []
    for q, a in zip(reqs, comp):
        r = base[q["src"]]
        if "ok" not in a:
            continue          # acceptance differences between dialects are not this stream's subject
        creqs.append({"sql": a["ok"], "dialect": q["target"][4:], "schema": schema(r["instance"])})
        meta.append((q, a["ok"], r))
    cans = harness("sqlcols", creqs) if creqs else []
    for (q, sql, r), a in zip(meta, cans):
        ck.count("star", q["src"] + "@" + q["target"], nontrivial="*" in sql)
        if "cols" not in a:
            ck.stat("star", "not_expandable:" + str(a.get("err") or a.get("parse_err"))[:60])
            continue
        rec = dict(r, target=q["target"], sql=sql, sqlite_cols=[c if c is not None else "?" for c in a["cols"]], verdict="names")
        rec["sqlite_rows"] = None
        why = judge_star(rec, a["cols"])
        if why:
            ck.disagreement("%s: %s [%s]" % (why, q["src"].replace("\n", " | ")[:220], q["target"]),
                            {"prql": q["src"], "target": q["target"], "sql": sql, "expanded_result_columns": a["cols"], "final_frame": r.get("model_names"),
                             "schema": schema(r["instance"])}, lambda c, rec=rec: classify(rec))


def classify_sstring(case):
    """(F50, the alphabetical column order of an s-string relation, is repaired by 9d5bbbd: no class is accepted in this stream)"""
    return None


def sstring_stream(ck, n):
    """Relations given as SQL text (`from s"SELECT .."`): the final relation is whatever that SELECT returns, so the oracle needs no
    model -- the inner SELECT is executed by itself (wrapped for the tail of the pipeline) and the emitted SQL must return the same
    column names (count, order) and the same bag of rows.  Select lists mix bare, qualified (two of which may share their last
    part: `t.a, u.a`), aliased and computed items over one table or a join."""
    rng = ck.rng
    cases = []
    for _ in range(n):
        two = rng.random() < 0.7
        pool = [("t.id", "id"), ("t.a", "a"), ("t.b", "b"), ("t.c", "c"), ("t.g", "g")]
        if two:
            pool += [("u.id", "id"), ("u.a", "a"), ("u.d", "d"), ("u.g", "g")]
        rng.shuffle(pool)
        items, names = [], []
        for q, nm in pool[:rng.randint(2, 5)]:
            k = rng.random()
            if k < 0.45:
                items.append(q); names.append(nm)                                    # qualified: named by its last part
            elif k < 0.7:
                al = "k%d" % len(items)
                items.append("%s AS %s" % (q, al)); names.append(al)                 # aliased
            elif k < 0.85 and nm in ("b", "c", "d") and nm not in names:
                items.append(nm); names.append(nm)                                   # bare (a name only one table has)
            else:
                al = "e%d" % len(items)
                items.append("%s + 1 AS %s" % (q, al)); names.append(al)             # computed, aliased
        uniq = [nm for nm in names if names.count(nm) == 1]
        frm = "t JOIN u ON t.%s = u.%s" % ((rng.choice(["id", "g"]),) * 2) if two else "t"
        inner = "SELECT %s FROM %s" % (", ".join(items), frm)
        tail, wrap = "", inner
        k = rng.random()
        if uniq and k < 0.3:
            x = rng.choice(uniq)
            tail, wrap = "\nsort {%s}" % x, "SELECT * FROM (%s) ORDER BY %s" % (inner, x)
        elif uniq and k < 0.5:
            x = rng.choice(uniq)
            tail, wrap = "\nderive {nn = %s + 1}" % x, "SELECT *, %s + 1 AS nn FROM (%s)" % (x, inner)
        elif uniq and k < 0.7:
            x = rng.choice(uniq)
            tail, wrap = "\nfilter %s > 0" % x, "SELECT * FROM (%s) WHERE %s > 0" % (inner, x)
        cases.append(("from s\"%s\"%s" % (inner, tail), wrap, P.gen_instance(rng, max_rows=5, min_rows=2)))
    comp = harness("compile", [{"src": src, "target": "sql.sqlite"} for src, _, _ in cases])
    xreqs = []
    for (src, wrap, inst), a in zip(cases, comp):
        xreqs.append({"setup": P.sql_setup(inst), "sql": wrap})
        xreqs.append({"setup": P.sql_setup(inst), "sql": a.get("ok") or "select 1 where 0"})
    xans = harness("exec", xreqs)
    base = lambda c: re.sub(r":\d+$", "", c)
    for i, ((src, wrap, inst), a) in enumerate(zip(cases, comp)):
        ck.count("sstring", src + json.dumps(inst, sort_keys=True))
        want, got = xans[2 * i], xans[2 * i + 1]
        ck.stat("sstring", "qualified-same-last-part" if re.search(r"\bt\.(\w+)\b.*\bu\.\1\b|\bu\.(\w+)\b.*\bt\.\2\b", src.split(" FROM ")[0]) else "other")
        why = None
        if "rows" not in want:
            ck.stat("sstring", "inner-sql-invalid")
            continue
        if "ok" not in a:
            why = "program over an s-string relation rejected: %s" % str(a)[:200]
        elif "rows" not in got:
            why = "emitted SQL does not execute: %s" % str(got)[:200]
        elif [base(c) for c in got["cols"]] != [base(c) for c in want["cols"]]:
            why = "result columns %s, the s-string relation has %s" % ([base(c) for c in got["cols"]], [base(c) for c in want["cols"]])
        elif not R.rows_equal([[R.decode_sqlite(v) for v in r] for r in got["rows"]], [[R.decode_sqlite(v) for v in r] for r in want["rows"]], "ORDER BY" in wrap):
            why = "rows differ from the s-string relation's"
        if why:
            ck.disagreement("%s: %s" % (why, src.replace("\n", " | ")[:260]),
                            {"prql": src, "target": "sql.sqlite", "sql": a.get("ok"), "expected_sql": wrap, "instance": inst, "got": got, "want": want}, classify_sstring)


def judge_star(rec, cols):
    mn = rec.get("model_names")
    rn = rec["program"].meta.get("rename") or {}
    mn = [rn.get(w, w) if w is not None else None for w in mn]
    if len(cols) != len(mn):
        return "result has %d columns, the final frame has %d (%s vs %s)" % (len(cols), len(mn), cols, mn)
    bad = [(i, w, g) for i, (w, g) in enumerate(zip(mn, cols)) if w is not None and not str(w).startswith("?") and g is not None and w != g]
    if bad:
        return "column names/order differ from the final frame: %s vs %s" % (cols, mn)
    return None


def run():
    ck = Check("C05", level="proof")
    pr = ck.prove()
    broken = not pr["ok"]
    rng = ck.rng
    targets = ("sql.sqlite", "sql.generic")
    weights = {"select": 3.0, "derive": 2.0, "join": 2.5, "filter": 1.0, "sort": 1.5, "take": 1.2, "group_take": 1.5, "group_win": 1.0, "group_agg": 1.0,
               "aggregate": 0.5, "win": 0.7, "distinct": 0.5, "append": 0.1}
    g = Gen5(rng, weights=weights, max_steps=6)
    cases = []
    n = ck.n(320, 4000) * (3 if broken else 1)
    for i in range(n):
        fs = rng.random() < 0.5
        pg = g.program(final_select=fs)
        closed = frame_closed(pg)
        pg.meta["final_select"] = closed
        if not closed:
            pg.final_cols = None
        inst = P.gen_instance(rng, max_rows=5, min_rows=2, extra=("zz",))
        if rng.random() < 0.3:
            # capitalised column names shared by both tables (names that SQL must quote and engines may case-fold)
            pg.meta["rename"] = {"a": "Ax", "g": "Gx", "id": "Id"}
            inst["__rename__"] = pg.meta["rename"]
        cases.append((pg, [inst]))
    # directed families (the shapes the projection code is sensitive to)
    def add(force, fs, rename=False, k=1):
        for _ in range(k):
            pg = g.program(n_steps=len(force) + rng.randint(0, 1), force=list(force), final_select=fs)
            closed = frame_closed(pg)
            pg.meta["final_select"] = closed
            if not closed:
                pg.final_cols = None
            inst = P.gen_instance(rng, max_rows=5, min_rows=2, extra=("zz",))
            if rename:
                pg.meta["rename"] = {"a": "Ax", "g": "Gx", "id": "Id"}
                inst["__rename__"] = pg.meta["rename"]
            cases.append((pg, [inst]))
    m = ck.n(1, 4) * (3 if broken else 1)
    add(["join", "exclude"], False, k=12 * m)                  # two stars, exclusions on either
    add(["join", "exclude", "exclude"], False, k=6 * m)
    add(["join", "derive", "exclude"], False, k=6 * m)
    add(["knownjoin", "exclude"], False, k=6 * m)
    add(["knownjoin", "exclude"], True, k=4 * m)
    add(["join", "joinsplitpick"], True, rename=True, k=10 * m)  # same-named (capitalised) columns of both sides across a split
    add(["join", "joinsplitpick"], True, k=6 * m)
    add(["sort", "join", "take", "joinpick"], True, rename=True, k=8 * m)
    add(["sort", "join", "take", "joinpick"], True, k=8 * m)
    add(["sort", "exclude"], False, k=8 * m)                   # the sort key itself is excluded (single table: the limiting SELECT carries the exclusion)
    add(["sort", "take", "exclude"], False, k=4 * m)
    add(["casealias"], True, k=4 * m)
    add(["casealias"], False, k=4 * m)
    add(["derive", "casealias"], False, k=4 * m)
    add(["group_take"], False, k=4 * m)
    add(["exprdup"], True, k=6 * m)                            # one expression twice in the frame: named and unnamed
    add(["derive", "exprdup"], True, k=4 * m)
    add(["join", "joinboth"], False, k=10 * m)                  # t.N in a derive, u.N in a filter behind the split (N in both tables)
    add(["unnamedjoin"], False, k=8 * m)                       # joined sub-pipeline with two un-named columns: reaching the result / behind a closing select
    add(["sort", "unnamedjoin"], False, rename=True, k=4 * m)
    add(["derive", "group_win", "exclude"], False, k=4 * m)
    # F38 (shared): join of tables sharing a column name, sort by the left one, take, then select the RIGHT one: the CTE renames the
    # left column `t.id AS _expr_0` and its own ORDER BY says `t._expr_0`
    def qcol(q, c):
        return "ECol (Some %d%%N) %d%%N" % (P.nid(q), P.nid(c))
    for side, sd in (("Inner", ""), ("LeftJ", "side:left ")):
        k_ = rng.choice(["id", "g"])
        picks = [("t", "a"), ("u", k_), ("u", "d")] + ([("t", "c")] if rng.random() < 0.5 else [])
        f38 = P.Program([
            P.Step("join", "join %su (t.id == u.id)" % sd, "TJoin %s %d%%N U_COLS U_TABLE (EBin Eq (%s) (%s))" % (side, P.nid("u"), qcol("t", "id"), qcol("u", "id")), side=side, one_to_one=True),
            P.Step("sort", "sort {t.%s, t.id}" % k_, "TSort [(false, %s); (false, %s)]" % (qcol("t", k_), qcol("t", "id")), keys=[(False, ("col", "t", k_)), (False, ("col", "t", "id"))]),
            P.Step("take", "take 3", "TTake None (Some (3))", rng=(None, 3)),
            P.Step("select", "select {%s}" % ", ".join("%s.%s" % p_ for p_ in picks), "TSelect [%s]" % "; ".join("(None, %s)" % qcol(*p_) for p_ in picks), final=True)],
            True, [c for _, c in picks], {"final_select": True, "key_pos": None})
        cases.append((f38, [P.gen_instance(rng, max_rows=5, min_rows=3, extra=("zz",))]))
    # F49: `sort (computed key) | take | more` and `sort {k} | take | select !{k} | more` without a closing select (the star stream
    # judges them on the dialects that can exclude)
    for variant in ("helper", "excluded"):
        for _ in range(2):
            kc = rng.choice(["c", "b"])
            if variant == "helper":
                keys = [(True, ("bin", "Add", ("col", None, kc), ("lit", 3))), (True, ("col", None, "id"))]
            else:
                keys = [(False, ("col", None, "id"))]
            st_ = [P.Step("sort", "sort %s" % P.prql_keys(keys), "TSort %s" % P.coq_keys(keys), keys=keys),
                   P.Step("take", "take 2..4", "TTake (Some 2) (Some 4)", rng=(2, 4))]
            if variant == "excluded":
                st_.append(P.Step("exclude", "select !{id}", "TExclude [(None, %d%%N)]" % P.nid("id"), ex=["id"]))
            if rng.random() < 0.5:
                f_ = ("bin", "Or", ("bin", "Ge", ("col", None, "a"), ("lit", -1)), ("isnull", ("col", None, "a"), False))
                st_.append(P.Step("filter", "filter %s" % P.prql_expr(f_), "TFilter %s" % P.coq_expr(f_)))
            else:
                nm_ = g.newname()
                st_.append(P.Step("derive", "derive {%s = %s}" % (nm_, kc), "TDerive [(Some %d%%N, ECol None %d%%N)]" % (P.nid(nm_), P.nid(kc))))
            f49 = P.Program(st_, False, None, {"final_select": False, "order": None, "key_pos": None})
            cases.append((f49, [P.gen_instance(rng, max_rows=6, min_rows=5, extra=("zz",))]))
    # hand-built programs of the shared relational findings (vplib/rel/e2e.directed_known): the ones that break the SQL
    # (dangling names) are C05 failures too; the ones that only change row VALUES are not judged here (judge_cols)
    for fid, pg, inst in E.directed_known(rng):
        pg.meta["final_select"] = True          # each ends in a closing select
        cases.append((pg, [inst or P.gen_instance(rng, max_rows=6, min_rows=4, extra=("zz",))]))
    recs = E.run_stream(ck, "columns", cases, targets, judge_cols, classify)
    ck.coverage["programs_without_final_select"] = len({r["prql"] for r in recs if not r["program"].meta.get("final_select", True)})
    srcs = sorted({r["prql"] for r in recs})
    wildcard_stream(ck, srcs)
    dedup_stream(ck, srcs)
    selectitems_stream(ck, srcs)
    limit_stream(ck, srcs)
    star_stream(ck, recs)
    sstring_stream(ck, ck.n(60, 600) * (3 if broken else 1))
    import os as _os
    if _os.environ.get("VERIF_DEBUG"):
        import collections as _c
        for k_, v_ in _c.Counter(w.split(":")[0][:80] for w, _, _ in ck.violations).most_common():
            print("DEBUG-VIOLATIONS", v_, k_)
    ck.proof_broken_violation(found_input=bool(ck.violations))
    ck.assumptions += ["every table has an extra column `zz` that no program mentions, so a `*` the compiler emits expands at run time to more than the compiler knows",
                       "unnamed frame columns (expressions without alias, names shadowed by a later column of the same name) impose no name, only a position"]
    ck.finish(TRUSTED, "streams: columns = random programs (half without a final select, so wildcards reach the result) with repeated names and joins of tables sharing column names, on {sqlite, generic}: sqlite3 column names/count/order vs the reference frame; wildcards = every distinct real call of translate_wildcards (3 dialects incl. ones with EXCLUDE / EXCEPT) vs Model/Wildcards.v. distinct = hash of (program,target,instance) resp. of the call's input; non-trivial = non-empty result or a failure, resp. the call contains a wildcard")

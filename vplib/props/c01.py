"""C01 -- compiled SQL returns the relation the PRQL pipeline denotes (rows: values and multiplicities)."""
import json
import re

from ..common import Check, coq_eval, harness
from ..translate import gen_split
from . import c01_pluck, c01_splitoff, c01_preprocess
from ..rel import prog as P, run as R, e2e as E

TRUSTED = [
    "Coq 8.16.1 kernel (coqc, vm_compute); no axioms (every theorem: Closed under the global context)",
    "translator vplib/translate/gen_split.py (is_split_required of sql/pq/anchor.rs -> Coq function, arm by arm, fail closed; code guarded by #[cfg(prqlc_verif)] -- verification hooks, absent from normal builds -- is removed first, any other mention of that cfg is an extraction failure)",
    "reference semantics coq/Model/Rel.v + Model/Value.v = formalisation of the documented meaning of the transforms and of SQLite's scalar conventions (hand-written specification)",
    "specification of SQL's logical clause order (lo/hi/multi in coq/Model/SplitBase.v)",
    "end-to-end oracle: program generator/printers vplib/rel/prog.py, harness (prqlc::compile, rusqlite bundled SQLite), comparison in vplib/rel/run.py",
    "hand-written model coq/Model/SplitOff.v of split_off_back / get_requirements / can_materialize / infer_complexity (sql/pq/anchor.rs), tied on every run to every real call through the hook 3aa4f6d (remaining length, missing columns, atomic kinds, Select list), with the translated split table as its parameter",
    "hand-written model coq/Model/Preprocess.v of the decisions of preprocess.rs distinct / intersect / except, tied on every run to every pass of every compile through the hook 8fb8a9c; determine_select_columns (context.rs) is taken from the hook, not modelled",
    "hand-written model coq/Model/SelectPluck.v of translate_select_pipeline's clause assembly (gen_query.rs), tied on every run to every real call through the hook 7400a50 (field by field); its LIMIT/OFFSET/FETCH tail is C07's Model/SelectClauses.v",
    "modelled, not verified: the resolver (PL->RQ), preprocess/postprocess, projection and expression generation are tied only by the end-to-end oracle; Theta-2 is proved over abstract rows/filters/sorts/aggregates, its link to the code is the split-table obligation, the segment validator and the oracle",
]

KIND_OF_PQ = {"From": "KFrom", "Join": "KJoin", "Filter": "KFilter", "Aggregate": "KAggregate", "Sort": "KSort", "Take": "KTake", "TakeSorted": "KTakeSorted", "Select": "KSelect",
              "Distinct": "KDistinct", "DistinctOn": "KDistinctOn", "Union": "KUnion", "Except": "KExcept", "Intersect": "KIntersect", "Loop": "KLoop",
              "Compute": "KCompute"}


def classify(rec):
    return E.classify_common(rec)


def judge_rows(rec):
    v = rec["verdict"]
    if v in ("ok", "names"):
        return None          # column names are C05's clause
    if v == "rows":
        # C01 is about values and multiplicities: compare as multisets (order is C03's clause)
        if R.rows_equal(rec["sqlite_rows"], rec["model_rows"], ordered=False):
            return None
        return "result rows differ from the pipeline's meaning"
    if v == "sql-err":
        return "emitted SQL does not execute: %s" % str(rec.get("sqlite"))[:200]
    if v == "panic":
        return "compiler panicked: %s" % str(rec.get("compile"))[:200]
    if v == "compile-err":
        return "well-scoped program rejected: %s" % str([e.get("reason") for e in rec["compile"].get("err", [])])[:300]
    return "model evaluation missing"


def ranges_stream(ck):
    """`take r1 | take r2 (| take r3)`: the model's composed range (Proofs/Theta2.v compose, proved sound)
    vs the LIMIT/OFFSET the implementation emits.  Exhaustive over bounds {open, 1..4}."""
    bounds = [None, 1, 2, 3, 4]
    rs = [(s, e) for s in bounds for e in bounds]
    seqs = [[a, b] for a in rs for b in rs]
    trip = [[a, b, c] for a in rs for b in rs for c in rs]
    ck.rng.shuffle(trip)
    seqs += trip[: ck.n(300, 3000)]

    def txt(r):
        s, e = r
        if s is None and e is None:
            return None
        if s is None:
            return "take %d" % e
        return "take %d..%s" % (s, "" if e is None else e)
    cases = []
    for sq in seqs:
        ts = [txt(r) for r in sq]
        if any(t is None for t in ts):
            continue
        cases.append((sq, "from t | " + " | ".join(ts)))

    def crg(r):
        f = lambda x: "None" if x is None else "(Some %d)" % x
        return "(Rg %s %s)" % (f(r[0]), f(r[1]))
    header = "From Coq Require Import List Arith.\nFrom PV Require Import Proofs.Theta2.\nImport ListNotations.\n"
    exprs = ["(match fold_left compose [%s] (Rg None None) with Rg s e => (match s with Some x => [N.of_nat x] | None => [] end, match e with Some x => [N.of_nat x] | None => [] end) end)" % "; ".join(crg(r) for r in sq)
             for sq, _ in cases]
    header += "From Coq Require Import NArith.\n"
    mv = coq_eval(header, exprs)
    ans = harness("compile", [{"src": src, "target": "sql.sqlite"} for _, src in cases])
    for (sq, src), m, a in zip(cases, mv, ans):
        ck.count("ranges", src)
        s = m[0][0] if m[0] else None
        e = m[1][0] if m[1] else None
        if s is not None and e is not None and e < s:
            s, e = None, 0
        off = (s - 1) if s else 0
        lim = None if e is None else max(e - off, 0)
        want = ""
        if lim is not None:
            want += " LIMIT %d" % lim
        if off:
            if lim is None:
                want += " LIMIT -1"        # SQLite has no OFFSET without LIMIT (repaired by fix f705aba)
            want += " OFFSET %d" % off
        got = None
        if "ok" in a:
            mm = re.fullmatch(r"SELECT \* FROM t((?: LIMIT -?\d+)?(?: OFFSET -?\d+)?)", a["ok"])
            got = mm.group(1) if mm else "?" + a["ok"]
        if got != want:
            ck.disagreement("composed take range differs: %s -> impl %r, model %r" % (src, got, want),
                            {"src": src, "impl": a, "model_limit_offset": want}, lambda c: None)
    ck.coverage["ranges_exhaustive_pairs"] = True


def segments_stream(ck, recs):
    """validator: every atomic pipeline of the implementation's final PQ must be clause-ordered
    (the hypothesis under which Theta-2 speaks about it)."""
    seen = {}
    for rec in recs:
        if rec["target"] != "sql.sqlite" or rec["ii"] != 0 or "sql" not in rec:
            continue
        seen[rec["prql"]] = rec
    srcs = list(seen)
    # DISTINCT ON exists only on some dialects: programs with a `group (.. take ..)` are also compiled (not executed) for
    # sql.postgres and the atomic SELECTs of that PQ are judged as well
    pg_srcs = [s for s in srcs if any(k in ("distinct", "group_take", "group_take1") for k in seen[s]["program"].kinds())]
    jobs = [(s, "sql.sqlite") for s in srcs] + [(s, "sql.postgres") for s in pg_srcs]
    ans = harness("log", [{"src": s, "target": t, "want": ["ReprPq"]} for s, t in jobs])
    segs_by_src = {}
    allsegs = []
    for (s, tgt), a in zip(jobs, ans):
        ck.stat("segments", "target:" + tgt)
        pqs = [e["ReprPq"] for e in a.get("entries", []) if "ReprPq" in e]
        if not pqs:
            continue
        pq = pqs[-1]
        segs = []
        bare = []

        def bare_columns(p):
            # an aggregating SELECT may project group keys and aggregate results only (a bare column next to GROUP BY is
            # an arbitrary row's value on SQLite and an error on stricter engines)
            ag = [t["Aggregate"] for t in p if isinstance(t, dict) and "Aggregate" in t]
            sl = [t["Select"] for t in p if isinstance(t, dict) and "Select" in t]
            if not ag or not sl:
                return []
            allowed = set(ag[0].get("partition", [])) | set(ag[0].get("compute", []))
            return [c for c in sl[-1] if c not in allowed]

        def kinds(p):
            # the final PQ has its ORDER BY re-emitted by infer_sorts after takes/unions: the position of a
            # Sort (and of Select) carries no meaning there, which sort it is belongs to C03
            ks = [(k if isinstance(k, str) else list(k.keys())[0]) for k in p]
            ks = ["TakeSorted" if (n == "Take" and isinstance(t, dict) and (t["Take"].get("sort") or [])) else n for n, t in zip(ks, p)]
            return [k for k in ks if k not in ("Sort", "Select")]
        for c in pq.get("ctes", []):
            k = c.get("kind", {})
            for v in k.values():
                if isinstance(v, dict) and "AtomicPipeline" in v:
                    segs.append(kinds(v["AtomicPipeline"]))
                    bare += bare_columns(v["AtomicPipeline"])
        mr = pq.get("main_relation", {})
        if "AtomicPipeline" in mr:
            segs.append(kinds(mr["AtomicPipeline"]))
            bare += bare_columns(mr["AtomicPipeline"])
        segs_by_src[(s, tgt)] = segs
        ck.count("aggregating-selects", s + "|" + tgt)
        if bare:
            rec = seen[s]
            meta = rec["program"].meta
            fid = "F45-nested-group-partition" if meta.get("nested_group") else None      # F44 is FIXED (f809321)
            ck.disagreement("an aggregating SELECT projects a column that is neither a group key nor an aggregate: %s" % s.replace("\n", " | ")[:200],
                            {"prql": s, "target": tgt, "sql": rec.get("sql"), "bare_cids": bare}, lambda c, f=fid: f)
        for sg in segs:
            allsegs.append((s, sg, tgt))
    uniq = sorted({tuple(sg) for _, sg, _ in allsegs})
    unknown = [k for sg in uniq for k in sg if k not in KIND_OF_PQ]
    if unknown:
        ck.coverage["segments_unknown_kinds"] = sorted(set(unknown))
    header = "From Coq Require Import List.\nFrom PV Require Import Model.SplitBase.\nImport ListNotations.\n"
    exprs = ["clause_ordered [%s]" % "; ".join(KIND_OF_PQ[k] for k in sg if k in KIND_OF_PQ) for sg in uniq]
    vals = coq_eval(header, exprs) if exprs else []
    verdict = dict(zip(uniq, vals))
    for s, sg, tgt in allsegs:
        ck.count("segments", s + "|" + tgt + "|" + ",".join(sg))
        ck.stat("segments", "len:%d" % len(sg))
        if verdict.get(tuple(sg)) is not True:
            rec = seen[s]
            tk = [i for i, k in enumerate(sg) if k in ("Take", "TakeSorted")]
            fid = "F19-take-then-distinct" if (tk and "Distinct" in sg and tk[0] < sg.index("Distinct")) else None
            ck.disagreement("atomic SELECT is not clause-ordered: %s in %s [%s]" % (sg, s.replace("\n", " | ")[:200], tgt),
                            {"prql": s, "target": tgt, "segment": sg, "sql": rec.get("sql") if tgt == "sql.sqlite" else None}, lambda c, f=fid: f)
    ck.coverage["segments_distinct_shapes"] = len(uniq)


def run():
    ck = Check("C01", level="proof")
    info = gen_split.generate()
    pr = ck.prove()
    if "error" in info:
        ck.coverage["translator_error"] = info["error"]
    broken = not pr["ok"]
    targets = ("sql.sqlite", "sql.generic")
    rng = ck.rng
    ranges_stream(ck)

    # directed: every ordered pair of transform kinds adjacent (the split table's subject), small instances
    cases = []
    g = P.Gen(rng, max_steps=5, distinct_n=0.35, rsub=0.3)
    for a in E.KINDS:
        for b in E.KINDS:
            positional = "take" in (a, b)
            for _ in range(ck.n(3 if positional else 1, 6 if positional else 4) * (3 if broken else 1)):
                pre = ["sort"] if (a in ("take", "win", "group_take", "group_win") and rng.random() < 0.8) else []
                pg = g.program(n_steps=len(pre) + 2 + rng.randint(0, 1), force=pre + [a, b])
                # takes only matter when they cut: at least 5 rows when a take is involved
                cases.append((pg, [P.gen_instance(rng, max_rows=7, min_rows=5 if positional else 3), P.gen_instance(rng, max_rows=0)]))
    recs = E.run_stream(ck, "pairs", cases, targets, judge_rows, classify)
    segments_stream(ck, recs)

    # directed families the split/sort machinery is sensitive to (see DESIGN.md 0.4)
    cases = []
    g = P.Gen(rng, max_steps=7, distinct_n=0.35, rsub=0.3)
    for _ in range(ck.n(30, 150) * (3 if broken else 1)):      # join on all columns keeping left columns (set-operation rewrite)
        pg = g.program(n_steps=1 + rng.randint(0, 2), force=["alljoin"])
        cases.append((pg, [P.gen_instance(rng, max_rows=6, min_rows=3)]))
    for _ in range(ck.n(24, 120) * (3 if broken else 1)):      # named prefix ending in a sort, then sort | take | group
        pg = g.program(n_steps=4 + rng.randint(0, 1), force=["sort", "sort", "take", rng.choice(["group_agg", "aggregate", "group_take", "filter"])])
        if [x.kind for x in pg.steps[:2]] == ["sort", "sort"] and not any(x.kind in ("join", "append") for x in pg.steps):
            pg.meta["let_at"] = 1
        cases.append((pg, [P.gen_instance(rng, max_rows=7, min_rows=5)]))
    for _ in range(ck.n(24, 120) * (3 if broken else 1)):      # sort | join | take | select | group
        pg = g.program(n_steps=5 + rng.randint(0, 1), force=["sort", "join", "take", "select", rng.choice(["group_agg", "aggregate", "distinct"])])
        cases.append((pg, [P.gen_instance(rng, max_rows=7, min_rows=5)]))
    for _ in range(ck.n(24, 120) * (3 if broken else 1)):      # the join's argument is a sorted pipeline of its own; the outer take lands in a CTE
        g.rsub = 1.0
        pg = g.program(n_steps=4 + rng.randint(0, 1), force=["sort", "join", "take", rng.choice(["filter", "derive", "group_agg", "select"])])
        g.rsub = 0.3
        cases.append((pg, [P.gen_instance(rng, max_rows=7, min_rows=5)]))
    for _ in range(ck.n(16, 80) * (3 if broken else 1)):       # whole-row groups taking 1 or n >= 2 rows, on data with duplicate rows
        g.distinct_n = 0.7
        pg = g.program(n_steps=1 + rng.randint(0, 2), force=["distinct"])
        g.distinct_n = 0.35
        inst = P.gen_instance(rng, max_rows=7, min_rows=5)
        top = max(x[0] for x in inst["t"])
        inst["t"] = inst["t"] + [[top + 1 + i] + list(r[1:]) for i, r in enumerate(inst["t"][:3])]   # same values, fresh ids
        cases.append((pg, [inst]))
    for _ in range(ck.n(6, 30) * (3 if broken else 1)):         # two sort|take blocks in front of a group (F37)
        pg = g.program(n_steps=5, force=["sort", "take", "sort", "take", rng.choice(["group_win", "group_take", "group_agg"])])
        cases.append((pg, [P.gen_instance(rng, max_rows=7, min_rows=6)]))
    for _ in range(ck.n(14, 80) * (3 if broken else 1)):        # a group nested in a group (F45), by the generator
        pg = g.program(n_steps=1 + rng.randint(0, 2), force=(["sort"] if rng.random() < 0.4 else []) + ["nested_group"])
        cases.append((pg, [P.gen_instance(rng, max_rows=7, min_rows=5)]))
    for _fid, pg, inst in E.directed_known(rng):                # one hand-built program per open finding the streams seldom hit
        cases.append((pg, [inst or P.gen_instance(rng, max_rows=7, min_rows=5)]))
    for _lbl, pg in E.directed_fixed():                         # replays of repaired findings: nothing excuses a recurrence
        cases.append((pg, [pg.meta.get("instance") or P.gen_instance(rng, max_rows=7, min_rows=5), P.gen_instance(rng, max_rows=7, min_rows=5)]))
    recs3 = E.run_stream(ck, "directed", cases, targets, judge_rows, classify)
    segments_stream(ck, recs3)

    # random programs
    cases = []
    g = P.Gen(rng, max_steps=7, distinct_n=0.35, rsub=0.3)
    for _ in range(ck.n(250, 4000) * (3 if broken else 1)):
        pg = g.program()
        cases.append((pg, [P.gen_instance(rng, max_rows=6, min_rows=2), P.gen_instance(rng, max_rows=2)]))
    recs2 = E.run_stream(ck, "random", cases, targets, judge_rows, classify)
    segments_stream(ck, recs2)

    # the code's clause assembly vs Model/SelectPluck.v on every atomic pipeline of a sample of all programs above (those with
    # takes / aggregates / distincts first), three dialects (mssql exercises the FETCH tail)
    allsrc = list(dict.fromkeys(r["prql"] for r in (recs + recs3 + recs2) if "sql" in r))
    rich = [x for x in allsrc if ("take" in x or "aggregate" in x)]
    rng.shuffle(rich)
    rest = [x for x in allsrc if x not in set(rich)]
    rng.shuffle(rest)
    c01_pluck.pluck_stream(ck, (rich + rest)[: ck.n(260, 3000)])
    # the code's split loop vs Model/SplitOff.v (with the translated table plugged in) on every call of split_off_back
    c01_splitoff.splitoff_stream(ck, (rich + rest)[: ck.n(300, 3000)])
    # the recognisers of preprocess.rs (distinct / intersect / except) vs Model/Preprocess.v on every candidate of every pass
    setop = [x for x in allsrc if ("join" in x or "group" in x)]
    rng.shuffle(setop)
    c01_preprocess.preprocess_stream(ck, setop[: ck.n(250, 2500)])

    ck.proof_broken_violation(found_input=bool(ck.violations))
    ck.assumptions += ["instances: integers and NULL in {NULL,-1,0,1,2,3}, 0..6 rows, ids unique, insertion order shuffled; floats only as results of `/`",
                       "generic-dialect SQL is executed on SQLite; constructs SQLite cannot run for the generic target (OFFSET without LIMIT) are skipped and counted",
                       "rows are compared as multisets here (sequence order is C03, column names C05)"]
    ck.finish(TRUSTED, "streams: ranges = all pairs (+ sampled triples) of take ranges with bounds in {open,1..4}; pairs = every ordered pair of 13 transform kinds forced adjacent; random = programs of 1..7 transforms; each on 2 instances x {sqlite, generic}; directed = families the split/sort machinery is sensitive to + one hand-built program per open finding (E.directed_known) + replays of repaired findings (E.directed_fixed: a recurrence is a VIOLATION); pluck = every call of translate_select_pipeline on a sample of those programs x {sqlite, generic, mssql}: Model/SelectPluck.v (+ C07's clause tail on the plucked takes) vs the hook's WHERE / HAVING condition lists, GROUP BY, ORDER BY, DISTINCT, LIMIT/OFFSET/FETCH, and the hypotheses of c01_pluck_sound judged on the same pipeline; preprocess = every Take-with-partition / inner Join / left Join + Filter in the input of the passes distinct / intersect / except x {sqlite, postgres, generic}: Model/Preprocess.v's verdict vs what the pass's output shows; splitoff = every call of split_off_back on a sample of those programs x {sqlite, postgres}: Model/SplitOff.v run in Coq with Gen/GenSplit.v's table vs the hook's outputs; segments = every atomic pipeline of the implementation's final PQ (sql.sqlite; sql.postgres too for programs with `group (.. take ..)`, where DISTINCT ON exists) judged by the Coq `clause_ordered`, and every aggregating SELECT checked to project group keys and aggregates only. distinct = hash of (program, target, instance); non-trivial = non-empty result or a failure")

"""C15 -- staged compilation through JSON equals one-shot compile."""
import json
import re

from ..common import Check, harness, harness1, CACHE, ALT, Lock, coq_make
from ..common import coq_eval as _coq_eval
from ..translate import gen_serde, gen_entry
from ..programs import POOL
from . import c15_serde as S
from .c15_programs import (COVER, ERRORS, NONFINITE, random_program, literal_edge_programs,
                           relation_literal_programs, compute_ref_programs, float_precision_programs)

def coq_eval(header, exprs):
    """coq_eval, robust against another property rebuilding a shared Model file in the middle of this run (Serde.v imports C08's
    FloatRyu.v and C17's Lexer.v read-only): on `inconsistent assumptions` rebuild Props/C15.vo under the lock and retry once"""
    try:
        return _coq_eval(header, exprs)
    except RuntimeError as ex:
        if "inconsistent assumptions" not in str(ex) and "Cannot find a physical path" not in str(ex):
            raise
        with Lock("coq"):
            coq_make(["Props/C15.vo"])
        return _coq_eval(header, exprs)


TRUSTED = [
    "Coq 8.16.1 kernel (coqc, vm_compute); no axioms: every theorem is 'Closed under the global context'",
    "theorems about arbitrary documents (c15_de_wt, c15_reserialise_stable, c15_staged_eq_direct_docs) have no side condition on the document; that the model's `de` is serde's on such documents (repeated key: error for a struct field, last wins in a map, ignored when unknown; integer token read as the nearest float; absent / null optional fields) is validated on edited documents every run, not proved; struct-from-array, integers of any size in a float position (C08's FloatRyu model: nearest binary64, shortest digits) and pre-release / build identifiers of a VersionReq included",
    "translators vplib/translate/gen_serde.py (type/attribute scanner over pr/*.rs, lr.rs, span.rs, generic.rs, ir/rq/*.rs, ir/generic.rs, ir/pl/extra.rs; fail closed on unmodelled attributes / type constructors; shape check of the hand-written Span and Ident impls) and gen_entry.py (call chains of lib.rs)",
    "modelled, not verified: coq/Model/Serde.v re-states serde-derive's rules (externally tagged enums, flatten of an enum through FlatMapSerializer/FlatMapDeserializer, skip_serializing_if, default, missing Option field = None); validated on every run against real serde on the implementation's own JSON and on descriptor-generated values",
    "serde_json's text layer (escaping, number printing by ryu; that a finite f64 survives print / parse needs serde_json's `float_roundtrip` (on since 79abe54; finding F14c); tested on full-precision literals every run); that Model/VersionReq.v is semver 1.0.27's from_str / Display (validated every run on ~500 requirement texts against the real crate, python twin and Coq); C08's Model/FloatRyu.v (round64, shortest) for integers beyond 2^53 read as floats",
    "the stage functions (parser, resolver, SQL back end) are abstract in staged_eq_direct; that they are functions of their argument alone is C11",
    "python mirror vplib/props/c15_serde.py of the Coq model (cross-checked against Eval vm_compute on a sample each run)",
    "correspondence harness (harness/src/c15.rs, main.rs) and python comparison",
]

OVERFLOW_FLOAT = re.compile(r"(?<![A-Za-z_0-9.])\d+(?:\.\d+)?[eE]\+?\d+")


def has_nonfinite_literal(src):
    """input predicate of F14: the source spells a float literal that overflows binary64"""
    for m in OVERFLOW_FLOAT.finditer(src):
        try:
            if float(m.group(0)) == float("inf"):
                return True
        except ValueError:
            pass
    return False


FLOAT_TOKEN = re.compile(r"(?<![A-Za-z_0-9.])\d[\d_]*(?:\.\d+)?(?:[eE][-+]?\d+)?")
SQL_NUM = re.compile(r"(?<![A-Za-z_0-9.])\d+(?:\.\d+)?(?:[eE][-+]?\d+)?")


def has_float_literal(src):
    return any(("." in m.group(0) or "e" in m.group(0).lower()) for m in FLOAT_TOKEN.finditer(src))


def classify_span_unit(case):
    """narrow (finding F9b): both paths report the SAME errors (kind, code, reason, hints) and differ only in the span: the staged
    chain failed in pl_to_rq / rq_to_sql, whose errors are never composed with the source and keep the tokens' BYTE offsets, while
    compile() reports CHARACTER offsets; the byte span converted with the source is exactly compile()'s span, and the source has
    non-ASCII text before the span end"""
    got = case.get("got") if isinstance(case.get("got"), dict) else {}
    d, st, src = got.get("direct"), got.get("staged"), case.get("src", "")
    if not (d and st and d[0] == "err" and st[0] == "err" and got.get("stage") in ("pl_to_rq", "rq_to_sql") and len(d[1]) == len(st[1])):
        return None
    b = src.encode("utf-8")
    differs = False
    for x, y in zip(d[1], st[1]):
        if list(x[:4]) != list(y[:4]):
            return None
        if x[4] == y[4]:
            continue
        sx, sy = json.loads(x[4]), json.loads(y[4])
        if not (sx and sy) or sx.get("source_id") != sy.get("source_id"):
            return None
        try:
            conv = (len(b[:sy["start"]].decode("utf-8")), len(b[:sy["end"]].decode("utf-8")))
        except UnicodeDecodeError:
            return None
        if conv != (sx["start"], sx["end"]) or b[:sy["end"]].isascii():
            return None
        differs = True
    return "F9b-uncomposed-error-span-in-bytes" if differs else None


def prioritise(violations):
    """order in which violations are printed (the framework prints the first 20 distinct ones): broken obligations, then
    the staged-vs-compile differences (the property's own statement), then the other kinds in turn, one of each"""
    head = [v for v in violations if v[2]] + [v for v in violations if not v[2] and v[0].startswith("proof obligation")]
    rest = [v for v in violations if v not in head]
    staged = [v for v in rest if v[0].startswith("staged chain differs")]
    groups = {}
    for v in rest:
        if v not in staged:
            groups.setdefault(v[0], []).append(v)
    out = head + staged[:8]
    pools = [staged[8:]] + list(groups.values())
    while any(pools):
        for g in pools:
            if g:
                out.append(g.pop(0))
    return out


def span_chars(e, src):
    """the span of an error in CHARACTER offsets of the source.  Since d3106b1 (F9) `composed()` converts the byte offsets that
    tokens carry to character offsets, once; an error that was never composed with its source (location = None: what pl_to_rq and
    rq_to_sql return to a caller of the staged API) still carries byte offsets."""
    sp = e.get("span")
    if not sp or e.get("location") is not None or src is None:
        return sp
    b = src.encode("utf-8")
    try:
        return dict(sp, start=len(b[:sp["start"]].decode("utf-8")), end=len(b[:sp["end"]].decode("utf-8")))
    except UnicodeDecodeError:
        return sp


def err_core(r, src=None):
    """what is compared of a result: SQL text, or the errors without display/location, spans in characters (see DESIGN C15)"""
    if "ok" in r:
        return ("ok", r["ok"])
    if "err" in r:
        return ("err", [(e["kind"], e["code"], e["reason"], tuple(e["hints"]), json.dumps(span_chars(e, src) if src is not None else e["span"], sort_keys=True)) for e in r["err"]])
    if "panic" in r:
        return ("panic", r["panic"].get("msg", "")[:120])
    return ("other", json.dumps(r, sort_keys=True)[:200])


def jnodup(j):
    """python twin of Model/SerdeDoc.v jnodup: every object of the tree has pairwise distinct keys"""
    if isinstance(j, tuple) and j[0] == "obj":
        ks = [k for k, _ in j[1]]
        return len(ks) == len(set(ks)) and all(jnodup(x) for _, x in j[1])
    if isinstance(j, list):
        return all(jnodup(x) for x in j)
    return True


def _paths(j, here=()):
    """all node paths of a JSON tree (python mirror encoding)"""
    yield here
    if isinstance(j, tuple) and j[0] == "obj":
        for i, (_, x) in enumerate(j[1]):
            yield from _paths(x, here + (i,))
    elif isinstance(j, list):
        for i, x in enumerate(j):
            yield from _paths(x, here + (i,))


def _get(j, path):
    for i in path:
        j = j[1][i][1] if isinstance(j, tuple) else j[i]
    return j


def _set(j, path, new):
    if not path:
        return new
    i = path[0]
    if isinstance(j, tuple):
        kvs = list(j[1]); kvs[i] = (kvs[i][0], _set(kvs[i][1], path[1:], new)); return ("obj", kvs)
    out = list(j); out[i] = _set(out[i], path[1:], new); return out


def perturb(j, rng):
    """one edit of a document that a hand-written client could make: reorder keys / drop a key / add an unknown key /
    repeat a key (same or another value, anywhere in the object) / null a value / change a scalar's kind (integers of any size
    included: serde reads them as the nearest float where a float is expected) / drop or add an array element / write an object as the array of its values"""
    paths = list(_paths(j))
    objs = [p for p in paths if isinstance(_get(j, p), tuple) and _get(j, p)[1]]
    arrs = [p for p in paths if isinstance(_get(j, p), list)]
    floats = [p for p in paths if isinstance(_get(j, p), float)]
    if floats and rng.random() < 0.15:
        # an integer token where the document had a float: serde reads it as the nearest binary64
        # (within i64 / u64: a longer integer is lexed by serde_json's own float parser, which is not correctly rounded: F14c, stream int-as-float)
        z = rng.choice([0, 7, -7, 2 ** 53, 2 ** 53 + 1, 2 ** 53 + 3, -(2 ** 53) - 1, 9999999999999999, 10 ** 16, 12345678901234567, 2 ** 63, 2 ** 64 - 1, -(2 ** 63),
                        rng.randrange(2 ** 53, 2 ** 64), -rng.randrange(2 ** 53, 2 ** 63)])
        return _set(j, rng.choice(floats), z), "int-for-float"
    vers = [p for p in objs if any(k == "version" for k, _ in _get(j, p)[1])]
    if vers and rng.random() < 0.12:
        # the text of a semver requirement, as a client would write it (spaces, bare versions, wildcards, nonsense)
        p = rng.choice(vers)
        kvs = [(k, S.random_version_text(rng) if k == "version" else x) for k, x in _get(j, p)[1]]
        return _set(j, p, ("obj", kvs)), "version-text"
    kind = rng.choice(["shuffle", "shuffle", "drop", "drop", "unknown", "dup-key", "dup-key", "null", "null", "scalar", "scalar", "arr-drop", "arr-dup", "obj-to-array", "obj-to-array"])
    if kind in ("shuffle", "drop", "unknown", "dup-key") and objs:
        p = rng.choice(objs); kvs = list(_get(j, p)[1])
        if kind == "shuffle":
            rng.shuffle(kvs)
        elif kind == "drop":
            kvs.pop(rng.randrange(len(kvs)))
        elif kind == "dup-key":
            k0, x0 = rng.choice(kvs)
            others = [x for _, x in kvs]
            kvs.insert(rng.randrange(len(kvs) + 1), (k0, rng.choice([x0, x0, rng.choice(others), None, "x"])))
        else:
            kvs.insert(rng.randrange(len(kvs) + 1), ("zz_unknown", rng.choice([1, "x", None, [], ("obj", [])])))
        return _set(j, p, ("obj", kvs)), kind
    if kind == "obj-to-array" and objs:
        # a struct written as the array of its field values (serde's visit_seq), possibly cut short or with one element more
        p = rng.choice(objs); vals = [x for _, x in _get(j, p)[1]]
        r = rng.random()
        if r < 0.2 and vals:
            vals = vals[:-1]
        elif r < 0.3:
            vals = vals + [None]
        return _set(j, p, vals), kind
    if kind in ("arr-drop", "arr-dup") and arrs:
        p = rng.choice(arrs); l = list(_get(j, p))
        if kind == "arr-drop" and l:
            l.pop(rng.randrange(len(l)))
        elif l:
            l.insert(rng.randrange(len(l) + 1), rng.choice(l))
        else:
            l.append(rng.choice([None, "x", True]))
        return _set(j, p, l), kind
    p = rng.choice(paths)
    if kind == "null":
        return _set(j, p, None), "null"
    return _set(j, p, rng.choice(["str", True, "1:0-1", [], ["a", "b"], "Null", 1.5, 0, 3, -3, 2 ** 53, -(2 ** 53), 12345678901, 2 ** 53 + 1, 2 ** 53 + 3, -(2 ** 53) - 1,
                                   9999999999999999, 12345678901234567, 2 ** 63, 2 ** 64 - 1, -(2 ** 63), 10 ** 400,
                                   rng.randrange(2 ** 53, 2 ** 64), -rng.randrange(2 ** 53, 2 ** 63)])), "scalar"


def canon_maps(v):
    """sort VMap entries (HashMap iteration order is not part of the value)"""
    k = v[0]
    if k == "VSome":
        return ("VSome", canon_maps(v[1]))
    if k in ("VList", "VTuple", "VStruct"):
        return (k, [canon_maps(x) for x in v[1]])
    if k == "VEnum":
        return (k, v[1], [canon_maps(x) for x in v[2]])
    if k == "VMap":
        return (k, sorted(((a, canon_maps(b)) for a, b in v[1]), key=lambda kv: kv[0]))
    return v


COQ_HEADER = ("From Coq Require Import List NArith ZArith.\n"
              "From PV Require Import Lib.ListX Model.Json Model.Serde Model.SerdeDoc Gen.GenSerde.\n"
              "Import ListNotations.\nLocal Open Scope Z_scope.\nSet Printing Depth 1000000.\nSet Printing Width 2000.\n")


def replay(path):
    """./check C15 --replay file : re-run one recorded case on the implementation"""
    import sys
    d = json.load(open(path))
    case = d.get("replay", d)
    src = case.get("src")
    if src is None:
        print("replay file names a broken obligation, not an input: %s" % json.dumps(case)[:600]); sys.exit(1)
    rq_ = {k: case[k] for k in ("src", "target", "format", "sig") if k in case}
    both = harness1("c15_both", rq_)
    js = harness1("c15_json", {"src": src})
    d_, s_ = both.get("direct", {}), both.get("staged", {})
    same = err_core(d_, src) == err_core(s_.get("r", s_), src)
    print(json.dumps({"request": rq_, "direct": err_core(d_, src), "staged": err_core(s_.get("r", s_), src), "stage": s_.get("stage"),
                      "json_round_trip": {k: js.get(k) for k in ("pl_eq", "pl_text_eq", "rq_eq", "rq_text_eq", "pl_de_err", "rq_de_err")}}, indent=1)[:3000])
    print("REPRODUCED" if not same or js.get("pl_eq") is False or js.get("rq_eq") is False or "pl_de_err" in js or "rq_de_err" in js else "NOT REPRODUCED")
    sys.exit(0)


def run():
    import os
    if os.environ.get("VERIF_REPLAY"):
        return replay(os.environ["VERIF_REPLAY"])
    ck = Check("C15", level="proof")
    info = gen_serde.generate()
    einfo = gen_entry.generate()
    pr = ck.prove()
    if "error" in info:
        ck.coverage["translator_error_serde"] = info["error"]
    if "error" in einfo:
        ck.coverage["translator_error_entry"] = einfo["error"]
    # the descriptor environment of the last run in which extraction succeeded on the registered tree: when the translator
    # fails closed (an obligation is broken and there is no current model) the model streams still run against it, as a
    # search for a concrete failing input -- what they report is then "against the last good environment"
    import pickle
    last_good = os.path.join(CACHE, "c15_last_good_env.pickle")
    stale = False
    if "error" not in info:
        env = S.Env(info)
        if not ALT:
            try:
                with open(last_good + ".tmp", "wb") as fh:
                    pickle.dump(info, fh)
                os.replace(last_good + ".tmp", last_good)
            except OSError:
                pass
    else:
        env = None
        try:
            with open(last_good, "rb") as fh:
                env = S.Env(pickle.load(fh))
            stale = True
        except (OSError, pickle.PickleError, EOFError, KeyError):
            env = None
    ck.coverage["descriptor_environment"] = "current" if env is not None and not stale else ("LAST GOOD (translator failed closed: %s)" % info.get("error", "")[:200] if stale else "none")
    STALE = " [against the last good descriptor environment; the translator failed closed]" if stale else ""
    names = [n[4:] for n in harness1("names", {})["target_names"] if n != "sql.any"]

    # ------------------------------------------------------------------ programs
    nrand = ck.n(120, 400)
    rnd = [random_program(ck.rng) for _ in range(nrand)]
    progs = []
    edges = literal_edge_programs(ck.rng, ck.n(10, 60))
    rels = relation_literal_programs(ck.rng, ck.n(16, 120))
    crefs = compute_ref_programs(ck.rng, ck.n(30, 200))
    fprec = float_precision_programs(ck.rng, ck.n(60, 600))
    for p in COVER + list(POOL) + ERRORS + NONFINITE + edges + rels + crefs + fprec + rnd:
        if p not in progs:
            progs.append(p)
    ck.coverage["program_pool"] = {"cover": len(COVER), "pool": len(POOL), "errors": len(ERRORS), "nonfinite": len(NONFINITE), "literal_edges": len(edges),
                                   "relation_literals": len(rels), "compute_refs": len(crefs), "float_precision": len(fprec), "random": nrand, "distinct": len(progs)}

    # ------------------------------------------------------------------ 1. Rust-side round trip + the implementation's JSON
    jans = harness("c15_json", [{"src": p} for p in progs])
    docs = []   # (kind, src, tree)
    for p, a in zip(progs, jans):
        ck.count("jsonrt", p)
        if "err" in a:
            ck.stat("jsonrt", "parse-error"); continue
        if "panic" in a or "abort" in a:
            ck.stat("jsonrt", "panic-or-abort(C12)"); continue
        for kind in ("pl", "rq"):
            if kind == "rq" and "rq_err" in a:
                ck.stat("jsonrt", "rq:resolve-error"); continue
            case = {"src": p, "kind": kind}
            if kind + "_ser_err" in a:
                case["got"] = a[kind + "_ser_err"]
                ck.disagreement("%s does not serialise" % kind, case); continue
            if kind + "_de_err" in a:
                case["got"] = a[kind + "_de_err"]
                ck.stat("jsonrt", kind + ":de-error")
                ck.disagreement("%s JSON written by prqlc is rejected by prqlc" % kind.upper(), case)
            else:
                if not a.get(kind + "_eq"):
                    case["got"] = "value differs after JSON round trip"
                    ck.disagreement("%s value differs after to_json . from_json" % kind.upper(), case)
                elif not a.get(kind + "_text_eq"):
                    case["got"] = "json text differs after second serialisation"
                    ck.disagreement("%s JSON text differs after round trip" % kind.upper(), case)
                else:
                    ck.stat("jsonrt", kind + ":ok")
            if kind in a:
                try:
                    docs.append((kind, p, S.loads(a[kind]), kind + "_de_err" in a))
                except ValueError as ex:
                    ck.violation("prqlc wrote JSON python cannot read: %s" % ex, case)

    # ------------------------------------------------------------------ 1b. the lexer hypothesis of c15_staged_eq_direct_if_lexer_rejects_nonfinite
    # Hlex_finite: no token carries a non-finite float.  Since d8fda67 the lexer rejects a source with an overflowing literal
    # (has_nonfinite_literal); a non-finite token, or an accepted source the predicate flags, is a VIOLATION.
    nonfinite_tok = set()
    for p, a in zip(progs, harness("lex", [{"src": p} for p in progs])):
        ck.count("lex-finite", p, nontrivial=False)
        pred = has_nonfinite_literal(p)
        if "ok" in a:
            bad = [t for t in a["ok"] if isinstance(t.get("kind"), dict) and isinstance(t["kind"].get("Literal"), dict)
                   and "Float" in t["kind"]["Literal"] and t["kind"]["Literal"]["Float"] is None]
            if bad:
                nonfinite_tok.add(p)
            if bad or pred:
                ck.violation("Hlex_finite fails: the lexer accepts a source with a number literal that overflows f64 (F14 recurs)" if bad else
                             "the overflow predicate and the lexer disagree on `a literal overflows f64`",
                             {"src": p, "kind": "lex-finite", "got": {"predicate": pred, "non_finite_tokens": len(bad)}})
            else:
                ck.stat("lex-finite", "hyp:lex_finite")
        else:
            ck.stat("lex-finite", "lexer rejects the source" + (" (overflowing literal)" if pred else ""))
            if pred and not any("not a finite 64-bit float" in e.get("reason", "") for e in a.get("err", [])):
                ck.stat("lex-finite", "overflowing literal rejected for another reason")

    # ------------------------------------------------------------------ 2. model vs real serde on the implementation's own JSON
    small = []
    if env is not None:
        for kind, p, tree, real_rejects in docs:
            root = env.roots[kind]
            ck.count("model-de-ser", kind + "|" + p)
            case = {"src": p, "kind": kind}
            try:
                v = env.de(root, tree, root[1])
            except S.DeErr as ex:
                if real_rejects:
                    ck.stat("model-de-ser", "both-reject")     # the model agrees with serde (F14 documents)
                    # Hparse_finite / Hresolve_finite: a stage value carries a non-finite float only if a token did
                    if p not in nonfinite_tok:
                        case["got"] = "prqlc and the model both reject the %s document prqlc wrote, and no token of the source is a non-finite float" % kind.upper()
                        ck.violation("a document prqlc wrote is unreadable although every token is finite (Hparse_finite / Hresolve_finite fail, or the JSON layer drops something)", case)
                else:
                    case["got"] = "model rejects a document real serde accepts: %s" % ex
                    ck.violation("serde model rejects prqlc's own %s JSON: %s" % (kind.upper(), ex) + STALE, case)
                continue
            if real_rejects:
                case["got"] = "model accepts a document real serde rejects"
                ck.violation("serde model accepts a %s document that real serde rejects" % kind.upper() + STALE, case)
                continue
            back = env.ser(root, v)
            if not S.json_eq(back, tree):
                case["got"] = {"model": S.dumps(back)[:600], "impl": S.dumps(tree)[:600]}
                ck.violation("ser (de json) <> json for prqlc's own %s JSON" % kind.upper() + STALE, case)
            elif not jnodup(tree):
                ck.violation("prqlc wrote a JSON object with a duplicate key", case)
            else:
                ck.stat("model-de-ser", "agree")
                # exactly the premise of c15_staged_eq_direct_docs for this stage value: the model reads it from a
                # document with distinct keys (and writes the same document back)
                ck.stat("model-de-ser", "hyp:from_doc(%s)" % ("dPL" if kind == "pl" else "dRQ"))
            if not env.json_ok(v):
                ck.violation("a non-finite float came out of JSON", case)
            sz = S.json_size(tree)
            ck.stat("model-de-ser", "size<=50" if sz <= 50 else "size<=200" if sz <= 200 else "size>200")
            if sz <= 160:
                small.append((kind, p, tree, v))
        cov_src = env.coverage()
        ck.coverage["descriptor_coverage_from_sources"] = cov_src

    # ------------------------------------------------------------------ 3. descriptor-driven values through real serde
    if env is not None:
        nval = ck.n(1500, 5000)
        reqs, metas = [], []
        src_hit = set(env.hit)
        env.hit = set()
        for i in range(nval + 2000):
            kind = "pl" if i % 2 == 0 else "rq"
            root = env.roots[kind]
            if i >= nval:
                # coverage-directed tail: keep only values that reach a descriptor state not seen yet
                if len(env.hit & env.universe) == len(env.universe):
                    break
                before = len(env.hit)
                v = env.gen(root, ck.rng, ck.rng.choice([8, 10, 12]))
                j = env.ser(root, v)
                try:
                    env.de(root, j, root[1])
                except S.DeErr:
                    pass
                if len(env.hit) == before:
                    continue
            else:
                v = env.gen(root, ck.rng, ck.rng.choice([3, 4, 5, 6, 7, 8]))
            j = env.ser(root, v)
            # mirror-level round trip (sanity of the mirror; the theorem is about the Coq definitions)
            try:
                v2 = env.de(root, j, root[1])
            except S.DeErr as ex:
                v2 = ("DeErr", str(ex))
            if S.norm_value(v2) != S.norm_value(v):
                ck.violation("python mirror: de (ser v) <> v", {"kind": kind, "value": repr(v)[:800], "got": repr(v2)[:400]})
            reqs.append({"kind": kind, "json": S.dumps(j)})
            metas.append((kind, v, j))
        rans = harness("c15_reser", reqs)
        for (kind, v, j), a, rq_ in zip(metas, rans, reqs):
            root = env.roots[kind]
            ck.count("generated-values", rq_["json"])
            case = {"kind": kind, "json": rq_["json"][:1500]}
            if "ok" not in a:
                case["got"] = a
                ck.violation("real serde rejects / fails on a document the model produced from a well-typed value" + STALE, case)
                continue
            try:
                t2 = S.loads(a["ok"])
                v2 = env.de(root, t2, root[1])
            except (ValueError, S.DeErr) as ex:
                case["got"] = str(ex)
                ck.violation("model cannot read back real serde's re-serialisation", case); continue
            if S.norm_value(canon_maps(v2)) != S.norm_value(canon_maps(v)):
                case["got"] = {"reser": a["ok"][:800]}
                ck.violation("real serde's de . ser changes a value the model round-trips" + STALE, case); continue
            if not S.json_eq(env.ser(root, canon_maps(v2)), env.ser(root, canon_maps(v))):
                case["got"] = {"reser": a["ok"][:800]}
                ck.violation("real serde writes a different document than the model" + STALE, case); continue
            if not a.get("value_eq_after_second_trip"):
                case["got"] = "Rust value changed on the second trip"
                ck.violation("real serde: value differs after a second round trip", case); continue
            ck.stat("generated-values", kind + ":agree")
            if S.json_size(j) <= 120 and len(small) < 4000:
                small.append((kind, None, j, v))
        # ------------------------------------------------------------------ 3b. documents prqlc did NOT write
        # c15_de_wt / c15_reserialise_stable / c15_staged_eq_direct_docs speak about every document the model's `de`
        # accepts (a language binding may send anything): `de` itself is compared with real serde on edited documents
        # -- accept / reject must agree, and when both accept, real serde's re-serialisation is the model's
        hit_before = set(env.hit)
        preqs, pmetas = [], []
        edited_small = []
        for kind, v, j in metas[:ck.n(700, 3000)]:
            j2, how = perturb(j, ck.rng)
            root = env.roots[kind]
            why = ""
            try:
                mv = env.de(root, j2, root[1])
            except S.DeErr as ex:
                mv = None; why = str(ex)
            preqs.append({"kind": kind, "json": S.dumps(j2)})
            pmetas.append((kind, how, mv, why))
            if S.json_size(j2) <= 100:
                edited_small.append((kind, how, j2, mv))
        env.hit = hit_before     # edited documents do not count towards descriptor coverage
        pans = harness("c15_reser", preqs)
        for (kind, how, mv, why), a, rq_ in zip(pmetas, pans, preqs):
            root = env.roots[kind]
            ck.count("edited-documents", rq_["json"])
            case = {"kind": kind, "edit": how, "json": rq_["json"][:1500], "model": "accept" if mv is not None else "reject: " + why}
            if "ok" not in a and "de_err" not in a:
                case["got"] = a
                ck.violation("real serde fails (not a clean rejection) on an edited document", case); continue
            if ("ok" in a) != (mv is not None):
                case["got"] = {"model": "accepts" if mv is not None else "rejects", "real": a if "ok" not in a else "accepts"}
                ck.violation("model `de` and real serde disagree on accepting an edited %s document (%s)" % (kind.upper(), how) + STALE, case); continue
            if mv is None:
                ck.stat("edited-documents", how + ":both-reject"); continue
            try:
                v2 = env.de(root, S.loads(a["ok"]), root[1])
            except (ValueError, S.DeErr) as ex:
                case["got"] = str(ex)
                ck.violation("model cannot read real serde's re-serialisation of an edited document", case); continue
            if S.norm_value(canon_maps(v2)) != S.norm_value(canon_maps(mv)):
                case["got"] = {"reser": a["ok"][:800]}
                ck.violation("model `de` and real serde read different values from an edited document (%s)" % how + STALE, case); continue
            if not a.get("value_eq_after_second_trip"):
                case["got"] = "Rust value changed on the second trip"
                ck.violation("real serde: an accepted edited document is not stable under a second trip (c15_reserialise_stable)", case); continue
            ck.stat("edited-documents", how + ":both-accept-same-value")
        env.hit = hit_before
        ck.coverage["descriptor_coverage_from_generated_values"] = env.coverage()
        env.hit |= src_hit
        cov_all = env.coverage()
        ck.coverage["descriptor_coverage_total"] = cov_all
        if cov_all["hit"] < cov_all["universe"]:
            ck.coverage["descriptor_coverage_note"] = "not every variant/option state was exercised in this run (see missed)"

    # ------------------------------------------------------------------ 3c. the semver::VersionReq codec (Model/VersionReq.v)
    # from_str . Display on texts: real semver (through a minimal RQ document), the python twin, and the Coq definitions
    vtexts = list(dict.fromkeys(S.VERSION_FIXED + S.VERSION_REQS + [S.random_version_text(ck.rng) for _ in range(ck.n(600, 4000))]))
    vdocs = ['{"def":{"version":%s,"other":{}},"tables":[],"relation":{"kind":{"ExternRef":{"LocalTable":["t"]}},"columns":[]}}' % json.dumps(t) for t in vtexts]
    vreal = {}
    for t, a in zip(vtexts, harness("c15_reser", [{"kind": "rq", "json": d} for d in vdocs])):
        ck.count("versionreq-codec", t)
        real = json.loads(a["ok"])["def"]["version"] if "ok" in a else None
        vreal[t] = real
        m = S.vreq_normalise(t)
        if m != real:
            ck.violation("the VersionReq model and semver disagree on a requirement text",
                         {"kind": "versionreq", "text": t, "got": {"model": m, "semver": real if real is not None else a}})
        else:
            ck.stat("versionreq-codec", "accept:same-display-form" if real is not None else "both-reject")
    if pr["ok"]:
        vs = [t for t in vtexts if len(t) <= 24]
        ck.rng.shuffle(vs)
        vs = [t for t in vs if vreal[t] is not None][:ck.n(40, 300)] + [t for t in vs if vreal[t] is None][:ck.n(40, 300)]
        try:
            vals = coq_eval("From Coq Require Import List NArith.\nFrom PV Require Import Lib.ListX Model.Json Model.VersionReq.\nImport ListNotations.\n",
                            ["(match vreq_normalise %s with Some s => (true, s) | None => (false, []) end)" % S.coq_codes(t) for t in vs])
        except RuntimeError as ex:
            vals = None
            ck.violation("Coq evaluation of the VersionReq model failed", {"kind": "coq-eval", "error": str(ex)[-800:]})
        for t, r in zip(vs, vals or []):
            ck.count("versionreq-coq", t)
            got = None
            if r is not None and r[0]:
                got = "".join(chr(c) for c in (r[1] if isinstance(r[1], list) else []))
            if r is None or got != vreal[t]:
                ck.violation("the Coq VersionReq model and semver disagree on a requirement text", {"kind": "versionreq", "text": t, "got": {"coq": repr(r)[:200], "semver": vreal[t]}})
            else:
                ck.stat("versionreq-coq", "agree")

    # ------------------------------------------------------------------ 3d. integer tokens where a float is expected (int_float_repr)
    # real serde_json (`z as f64`, printed by ryu) against the python mirror (value) and the Coq text (C08's round64 + shortest)
    zs = [0, 1, -1, 7, 2 ** 53 - 1, 2 ** 53, 2 ** 53 + 1, 2 ** 53 + 2, 2 ** 53 + 3, -(2 ** 53) - 1, 9999999999999998, 9999999999999999, 10 ** 16, 10 ** 16 + 1,
          12345678901234567, 2 ** 63 - 1, 2 ** 63, 2 ** 64 - 1, 2 ** 64, 2 ** 64 + 2 ** 11, 2 ** 64 + 2 ** 11 + 1, -(2 ** 63), -(2 ** 63) - 1, 10 ** 22, 10 ** 23,
          123456789012345678901234567890, 10 ** 308, 2 ** 1024 - 2 ** 970 - 1, 2 ** 1024 - 2 ** 970, 10 ** 309]
    zs += [ck.rng.randrange(2 ** 53, 2 ** 64) * ck.rng.choice([1, -1]) for _ in range(ck.n(20, 200))] + [ck.rng.randrange(10 ** 19, 10 ** 60) for _ in range(ck.n(10, 100))]
    zs = list(dict.fromkeys(zs))
    zdocs = ['{"name":"P","stmts":[{"VarDef":{"kind":"Main","name":"m","value":{"Literal":{"Float":%d}},"ty":null}}]}' % z for z in zs]
    zreal = {}
    for z, a in zip(zs, harness("c15_reser", [{"kind": "pl", "json": d} for d in zdocs])):
        ck.count("int-as-float", str(z))
        real = None
        if "ok" in a:
            mm = re.search(r'"Float":([^}]+)}', a["ok"])
            real = mm.group(1) if mm else "?"
        zreal[z] = real
        try:
            mine = float(z)
        except OverflowError:
            mine = None
        if (mine is None) != (real is None) or (mine is not None and float(real) != mine):
            ck.disagreement("an integer token in a float position: the model's value and serde_json's differ",
                            {"kind": "int-as-float", "int": str(z), "got": {"model": repr(mine), "serde_json": real if real is not None else a}})
        else:
            ck.stat("int-as-float", "same-value" if real is not None else "both-reject(rounds to infinity)")
    if pr["ok"]:
        zq = [z for z in zs if abs(z) < 10 ** 40 or z in (10 ** 308, 2 ** 1024 - 2 ** 970 - 1, 2 ** 1024 - 2 ** 970, 10 ** 309)][:ck.n(48, 200)]
        try:
            vals = coq_eval(COQ_HEADER, ["(match int_float_repr (%d)%%Z with Some r => (true, r) | None => (false, []) end)" % z for z in zq])
        except RuntimeError as ex:
            vals = None
            ck.violation("Coq evaluation of int_float_repr failed", {"kind": "coq-eval", "error": str(ex)[-800:]})
        for z, r in zip(zq, vals or []):
            ck.count("int-as-float-coq", str(z))
            got = "".join(chr(c) for c in r[1]) if r is not None and r[0] and isinstance(r[1], list) else None
            if r is None or got != zreal[z]:
                ck.disagreement("an integer token in a float position: the Coq text and serde_json's (ryu) text differ",
                                {"kind": "int-as-float", "int": str(z), "got": {"coq": repr(r)[:200], "serde_json": zreal[z]}})
            else:
                ck.stat("int-as-float-coq", "same-text")

    # ------------------------------------------------------------------ 4. the Coq definitions themselves on a sample
    if env is not None and small and pr["ok"]:
        nsample = ck.n(96, 400)
        ck.rng.shuffle(small)
        # keep both kinds and both origins
        sample = small[:nsample]
        exprs = []
        for kind, p, tree, v in sample:
            root = "root_pl" if kind == "pl" else "root_rq"
            exprs.append("(let j := %s in match de GenSerde.env GenSerde.%s j with Some v => (true, json_eqb (ser GenSerde.env GenSerde.%s v) j, andb (json_ok v) (jnodup j), v) | None => (false, false, false, VNone) end)"
                         % (S.coq_json(tree), root, root))
        try:
            vals = coq_eval(COQ_HEADER, exprs)
        except RuntimeError as ex:
            vals = None
            ck.violation("Coq evaluation of the serde model failed", {"kind": "coq-eval", "error": str(ex)[-800:]})
        if vals is not None:
            for (kind, p, tree, v), r in zip(sample, vals):
                ck.count("coq-model", kind + "|" + S.dumps(tree)[:4000])
                case = {"kind": kind, "src": p, "json": S.dumps(tree)[:1200]}
                if r is None:
                    ck.violation("no Coq result for a case", case); continue
                ok_de, ok_ser, ok_json, cv = r
                if not ok_de or not ok_ser or not ok_json:
                    case["got"] = {"de": ok_de, "ser_eq": ok_ser, "json_ok_and_jnodup": ok_json}
                    ck.violation("Coq model: de / ser (de json) = json fails on a document real serde round-trips", case); continue
                try:
                    pv = S.value_of_term(cv)
                except ValueError as ex:
                    ck.violation("cannot read Coq value: %s" % ex, case); continue
                if S.norm_value(pv) != S.norm_value(v):
                    case["got"] = {"coq": repr(pv)[:600], "python": repr(v)[:600]}
                    ck.violation("python mirror and Coq model disagree on de", case); continue
                ck.stat("coq-model", "agree")
            ck.sample({"stream": "coq-model", "json": S.dumps(sample[0][2])[:300], "coq_result": "de = Some v, ser v = json"})

    # the Coq `de` itself on edited documents (repeated keys, integer tokens, absent / unknown / reordered keys): accept / reject
    # and the value must be the mirror's, which stream 3b compared with real serde
    if env is not None and not stale and pr["ok"] and edited_small:
        ck.rng.shuffle(edited_small)
        # accepted repeated-key and scalar edits (map last-wins, unknown repeats, integer read as float) are rare: take them first
        acc = sorted([e for e in edited_small if e[3] is not None], key=lambda e: e[1] not in ("dup-key", "scalar", "obj-to-array", "int-for-float", "version-text"))[:ck.n(24, 100)]
        rej = [e for e in edited_small if e[3] is None][:ck.n(24, 100)]
        es = acc + rej
        exprs = ["(match de GenSerde.env GenSerde.%s %s with Some v => (true, v) | None => (false, VNone) end)"
                 % ("root_pl" if kind == "pl" else "root_rq", S.coq_json(j2)) for kind, how, j2, mv in es]
        try:
            vals = coq_eval(COQ_HEADER, exprs)
        except RuntimeError as ex:
            vals = None
            ck.violation("Coq evaluation of the serde model failed (edited documents)", {"kind": "coq-eval", "error": str(ex)[-800:]})
        for (kind, how, j2, mv), r in zip(es, vals or []):
            ck.count("coq-model-edited", kind + "|" + S.dumps(j2)[:4000])
            case = {"kind": kind, "edit": how, "json": S.dumps(j2)[:1200]}
            if r is None:
                ck.violation("no Coq result for an edited document", case); continue
            ok_de, cv = r
            if ok_de != (mv is not None):
                case["got"] = {"coq": "accepts" if ok_de else "rejects", "mirror": "accepts" if mv is not None else "rejects"}
                ck.violation("Coq model and python mirror disagree on accepting an edited document (%s)" % how, case); continue
            if ok_de:
                try:
                    pv = S.value_of_term(cv)
                except ValueError as ex:
                    ck.violation("cannot read Coq value: %s" % ex, case); continue
                if S.norm_value(pv) != S.norm_value(mv):
                    case["got"] = {"coq": repr(pv)[:600], "python": repr(mv)[:600]}
                    ck.violation("python mirror and Coq model disagree on de of an edited document (%s)" % how, case); continue
            ck.stat("coq-model-edited", how + (":accept" if ok_de else ":reject"))

    # ------------------------------------------------------------------ 5. staged vs direct: 12 dialects x {format} x {signature}
    sprogs = progs if ck.thorough else (COVER + list(POOL)[:20] + ERRORS + NONFINITE + edges[::3] + rels + crefs + fprec[:24] + rnd[:40])
    seen = set(); sp = []
    for p in sprogs:
        if p not in seen:
            seen.add(p); sp.append(p)
    reqs = []
    for p in sp:
        for n in names:
            for fmt in (False, True):
                for sig in (False, True):
                    reqs.append({"src": p, "target": "sql." + n, "format": fmt, "sig": sig})
        reqs.append({"src": p, "format": False, "sig": False})    # no target option: header / default dialect
    bans = harness("c15_both", reqs)
    retry = []
    for rq_, a in zip(reqs, bans):
        key = json.dumps(rq_, sort_keys=True)
        case = dict(rq_)
        if "direct" not in a:
            case["got"] = a
            ck.count("staged-vs-direct", key, nontrivial=False)
            ck.violation("harness failure on staged-vs-direct", case); continue
        d, st = a["direct"], a["staged"]
        dc = err_core(d)                      # spans as reported (F9b: an uncomposed error keeps byte offsets)
        sc = err_core(st["r"]) if isinstance(st, dict) and "r" in st else err_core(st)
        ck.count("staged-vs-direct", key, nontrivial=(dc[0] == "ok"))
        ck.stat("staged-vs-direct", "direct:" + dc[0])
        if dc == sc:
            # the error hypotheses of the staged theorems, per stage: core (compose1 s e) = core e (parse errors),
            # core (compose s o e) = core e (resolver / SQL back-end errors)
            if dc[0] == "err" and isinstance(st, dict):
                ck.stat("staged-vs-direct", {"prql_to_pl": "hyp:core_compose1(parse-error)", "pl_to_rq": "hyp:core_compose(resolve-error)",
                                             "rq_to_sql": "hyp:core_compose(sql-error)"}.get(st.get("stage"), "err-agree@" + str(st.get("stage"))))
            continue
        if dc[0] == "panic" and sc[0] == "panic":
            continue
        case["got"] = {"direct": dc, "staged": sc, "stage": st.get("stage") if isinstance(st, dict) else None}
        retry.append((rq_, case, dc, sc))
    # a mismatch is only meaningful if each path is a function of its input: outputs that already vary from call
    # to call on ONE path (hash-iteration order, property C11) are told apart by repeating both paths
    if retry:
        rep = harness("c15_both", [r for r, _, _, _ in retry for _ in range(12)])
        for k, (rq_, case, dc, sc) in enumerate(retry):
            ds, ss = {json.dumps(dc)}, {json.dumps(sc)}
            for a in rep[k * 12:(k + 1) * 12]:
                if "direct" in a:
                    ds.add(json.dumps(err_core(a["direct"])))
                    st = a["staged"]
                    ss.add(json.dumps(err_core(st["r"]) if isinstance(st, dict) and "r" in st else err_core(st)))
            if (len(ds) > 1 or len(ss) > 1) and (ds & ss):
                ck.stat("staged-vs-direct", "output-varies-between-calls(C11)")
                continue
            ck.disagreement("staged chain differs from compile() (%s vs %s)" % (dc[0], sc[0]), case, classify_span_unit)
    ck.coverage["staged_matrix"] = {"programs": len(sp), "dialects": len(names), "formats": 2, "signature": 2, "plus_no_target_option": True}

    # F14 (fixed by d8fda67) regression guards: every directed source with an overflowing literal is rejected by the lexer in BOTH
    # paths with the same error (they are part of the staged matrix above); the witness of c15_roundtrip_refuted_nonfinite
    # (`let m = 1e400`) can no longer be produced from a source
    a = harness1("c15_both", {"src": "let m = 1e400\nfrom t", "target": "sql.sqlite"})
    st = a.get("staged", {})
    okg = ("err" in a.get("direct", {}) and isinstance(st, dict) and st.get("stage") == "prql_to_pl"
           and err_core(a["direct"], "let m = 1e400\nfrom t") == err_core(st.get("r", {}), "let m = 1e400\nfrom t")
           and "not a finite 64-bit float" in a["direct"]["err"][0]["reason"])
    ck.coverage["f14_lexer_rejects_in_both_paths"] = bool(okg)
    if not okg:
        ck.violation("an overflowing number literal is not rejected by the lexer identically in both paths (F14 recurs)",
                     {"src": "let m = 1e400\nfrom t", "target": "sql.sqlite", "got": a})

    # F14b (fixed by 8eee066) directed: an empty array at an Ident position is rejected, not a panic; F9 directed
    a = harness1("c15_reser", {"kind": "pl", "json": '{"name":"P","stmts":[{"ImportDef":{"alias":null,"name":[]}}]}'})
    if "de_err" not in a:
        ck.violation("an empty array at an Ident position is not cleanly rejected by to_pl (F14b recurs)",
                     {"kind": "pl", "edit": "directed", "json": '{"name":"P","stmts":[{"ImportDef":{"alias":null,"name":[]}}]}', "got": a})
    # F9 (fixed by d3106b1) regression guard: an error behind non-ASCII text is an error in both paths, same span in characters
    src9 = 'from [{a = "é 漢 \\u{1F600} é 漢"}] | join u (==id)'
    a = harness1("c15_both", {"src": src9, "target": "sql.sqlite"})
    st = a.get("staged", {})
    dc9 = err_core(a.get("direct", {}), src9)
    sc9 = err_core(st["r"], src9) if isinstance(st, dict) and "r" in st else err_core(st, src9)
    ck.coverage["f9_error_behind_non_ascii_same_in_both_paths"] = (dc9 == sc9 and dc9[0] == "err")
    if dc9 != sc9 or dc9[0] != "err":
        ck.violation("an error behind non-ASCII text differs between compile() and the staged chain even in characters (F9 recurs)",
                     {"src": src9, "target": "sql.sqlite", "got": {"direct": dc9, "staged": sc9}})
    else:
        rd, rs = err_core(a["direct"]), err_core(st["r"])
        if rd != rs:      # F9b, directed: reproduced on every run
            ck.disagreement("staged chain differs from compile() (err vs err)",
                            {"src": src9, "target": "sql.sqlite", "got": {"direct": rd, "staged": rs, "stage": st.get("stage")}}, classify_span_unit)

    ck.proof_broken_violation(found_input=any(not ni for _, _, ni in ck.violations))
    ck.assumptions += [
        "error composition differs between the paths by design (display/location are only set by compile / prql_to_pl): compared on kind, code, reason, hints, span",
        "a panic in both paths with the same message counts as agreement (C12 owns panics)",
        "json_ok (no non-finite float) is a hypothesis of c15_staged_eq_direct_partial, and `the stage value is read from a document` the one of c15_staged_eq_direct_docs; since d8fda67 no source violates them (the lexer rejects overflowing literals: stream lex-finite requires zero non-finite tokens; model-de-ser requires zero unreadable documents)",
        "since d3106b1 a composed error carries character offsets and an uncomposed one (pl_to_rq / rq_to_sql called directly) the byte offsets of the tokens: spans are compared AS REPORTED; the difference is finding F9b (classified only when the byte span converts exactly to compile()'s span)",
        "each path is a function of its input (C11): a staged/direct mismatch is re-run 12 times and not reported when the outputs of one path already vary between calls and the two sets of outputs overlap (hash-iteration-order findings of C11)",
    ]
    ck.violations = prioritise(ck.violations)
    ck.finish(TRUSTED, "a case is (program, dialect, format, signature) for staged-vs-direct, a JSON document for the model streams; non-trivial = compile() succeeded / the document is distinct; documents are hashed by text")

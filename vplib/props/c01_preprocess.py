"""C01, tie for Model/Preprocess.v: the passes `distinct`, `intersect`, `except` of sql/pq/preprocess.rs (hook verif:preprocess,
/repo commit 8fb8a9c) vs the decision functions evaluated in Coq on what each pass read: for every candidate transform of the
pass's input (a Take with a partition / an inner Join / a left Join followed by a Filter) the model's verdict against what the
pass's output shows at that place."""
import json

from ..common import coq_eval, harness

HEADER = "From Coq Require Import List Bool Arith.\nFrom PV Require Import Model.Preprocess.\nImport ListNotations.\n"
PRE = "verif:preprocess "

DIRECTED = [
    "from t | select {a, b} | group {a, b} (take 1) | join u=(from u | select {a, d}) (t.a == u.a && t.b == u.d) | select {t.a, t.b}",
    "from t | select {a, b} | join u=(from u | select {a, d}) (t.a == u.a && t.b == u.d) | select {t.a, t.b} | group {a, b} (take 1)",
    "from t | select {a, b} | join u=(from u | select {a, d}) (t.a == u.a && t.b == u.d) | select {t.a, t.b}",
    "from t | select {a, b} | join u=(from u | select {a, d}) (t.a == u.d && t.b == u.a) | select {t.a, t.b} | group {a, b} (take 1)",
    "from t | select {a, b} | join u=(from u | select {a, d}) (t.a == u.a) | select {t.a, t.b} | group {a, b} (take 1)",
    "from t | select {a, b} | join u=(from u | select {a, d}) (t.a == u.a && t.b == u.d && t.a > 0) | select {t.a, t.b} | group {a, b} (take 1)",
    "from t | select {a, b} | join u=(from u | select {a, d}) (t.a == u.a && t.b == u.d) | select {t.a, u.d} | group {a, d} (take 1)",
    "from t | select {a, b} | join u=(from u | select {a, d}) (t.a == u.a && t.b == u.d) | filter u.d > 0 | select {t.a, t.b} | group {a, b} (take 1)",
    "from t | select {a} | join side:left u=(from u | select {a}) (t.a == u.a) | filter u.a == null | select {t.a}",
    "from t | select {a} | group {a} (take 1) | join side:left u=(from u | select {a}) (t.a == u.a) | filter u.a == null | select {t.a}",
    "from t | select {a, b} | join side:left u=(from u | select {a, d}) (t.a == u.a && t.b == u.d) | filter u.a == null | select {t.a, t.b}",
    "from t | select {a, b} | join side:left u=(from u | select {a, d}) (t.a == u.a && t.b == u.d) | filter u.a == null && u.d == null | select {t.a, t.b}",
    "from t | select {a} | join side:left u=(from u | select {a}) (t.a == u.a) | filter u.a == 1 | select {t.a}",
    "from t | select {a} | join side:left u=(from u | select {a}) (t.a == u.a) | filter u.a == null | select {t.a, x = u.a}",
    "from t | select {a} | remove (from u | select {a})",
    "from t | select {a} | intersect (from u | select {a})",
    "from t | intersect u", "from t | remove u", "from t | intersect u | group {a} (take 1)",
    "from t | select {a, b} | group {a} (take 1)",
    "from t | select {a, b} | group {a, b} (take 1) | sort a",
    "from t | select {a, b} | group {a} (take 1) | sort b | select {a}",
    "from t | select {a, b} | group {a, b} (take 2)",
    "from t | select {a, b} | group {a, b} (take 2..2)",
    "from t | select {a, b} | group {a, b} (sort b | take 1)",
    "from t | select {a, b} | group {a} (sort b | take 1) | derive {x = b + 1}",
]


def cpe(e):
    if e is None:
        return "POth"
    if "col" in e:
        return "(PCol %d%%nat)" % e["col"]
    if "lit" in e:
        return "PNull" if e["lit"] == "null" else "POth"
    if "op" in e and len(e["args"]) == 2 and e["op"] in ("std.eq", "std.and"):
        return "(%s %s %s)" % ("PEq" if e["op"] == "std.eq" else "PAnd", cpe(e["args"][0]), cpe(e["args"][1]))
    return "POth"


def nl(xs):
    return "[" + "; ".join("%d%%nat" % x for x in xs) + "]"


def b(x):
    return "true" if x else "false"


def ecols(e):
    if e is None or not isinstance(e, dict):
        return []
    if "col" in e:
        return [e["col"]]
    out = []
    for k in ("args", "sstring", "case", "array"):
        for x in e.get(k) or []:
            out += ecols(x)
    return out


def rq_used(t, rels):
    """CidCollector::collect_t of an RQ transform (in fold order; only membership matters)"""
    k = t["kind"]
    if k == "Compute":
        c = t["compute"]
        w = c["window"]
        return [c["id"]] + ecols(c["expr"]) + ((ecols(w["start"]) + ecols(w["end"]) + w["partition"] + [s["cid"] for s in w["sort"]]) if w else [])
    if k == "Aggregate":
        return t["partition"] + t["cids"]
    if k == "Select":
        return list(t["cids"])
    if k == "Filter":
        return ecols(t["expr"])
    if k == "Sort":
        return [s["cid"] for s in t["sort"]]
    if k == "Take":
        return t["partition"] + [s["cid"] for s in t["sort"]]
    if k == "Append":
        return [c["cid"] for c in t["table"]["cols"]]
    if k == "Loop":
        return [c for x in t["pipeline"] for c in rq_used(x, rels)]
    if k == "Join":
        return [c["cid"] for c in t["table"]["cols"]] + ecols(t["expr"])
    return []


def used(t, rels):
    """cids_used of preprocess.rs"""
    if "super" in t:
        return rq_used(t["super"], rels)
    if t.get("kind") == "Join":
        return ecols(t["expr"])
    if t.get("kind") == "Sort":
        return [s["cid"] for s in t["sort"]]
    if t.get("kind") == "DistinctOn":
        return list(t["cids"])
    return []


def preprocess_stream(ck, srcs, targets=("sql.sqlite", "sql.postgres", "sql.generic")):
    srcs = list(dict.fromkeys(DIRECTED + list(srcs)))
    reqs = [{"src": s, "target": t, "want": [], "msg_prefix": PRE.strip()} for s in srcs for t in targets]
    ans = harness("log", reqs)
    exprs, meta = [], []
    seen_hook, ok_compiles = False, 0
    for rq, a in zip(reqs, ans):
        if "ok" in a:
            ok_compiles += 1
        for e in a.get("entries", []):
            m = e.get("Message") or ""
            if not m.startswith(PRE):
                continue
            seen_hook = True
            d = json.loads(m[len(PRE):])
            if d["pass"] not in ("distinct", "intersect", "except"):
                continue
            pin, out = d["in"], d["out"]
            pl, sel, ctx = pin["pipeline"], pin["select_columns"], pin["ctx"]
            rels = {r["riid"]: r["cols"] or [] for r in ctx["rels"]}
            wild = {c["cid"] for cols in rels.values() for c in cols if c["wild"]}
            output = sel[-1]
            uses = [used(t, rels) for t in pl]
            behind = [sorted({c for u in uses[i + 1:] for c in u}) for i in range(len(pl))]
            outp = out.get("pipeline")
            fired = {}
            if outp is not None:
                for t in outp:
                    if t.get("kind") in ("Intersect", "Except"):
                        fired[(t["kind"], t["riid"])] = t["distinct"]
            if d["pass"] == "intersect":
                for i, t in enumerate(pl):
                    if t.get("kind") == "Join" and t["side"] == "Inner":
                        bottom = [c["cid"] for c in rels.get(t["riid"], [])]
                        top = sel[i]
                        ex = "intersect_decision %s %s %s %s %s %s %s %s %s" % (
                            nl(top), nl(bottom), nl(output), nl(behind[i]), cpe(t["expr"]),
                            b(i > 0 and pl[i - 1].get("kind") == "Distinct"), b(i + 1 < len(pl) and pl[i + 1].get("kind") == "Distinct"),
                            b(ctx["intersect_all"]), b(any(c in wild for c in top + bottom)))
                        exprs.append(ex)
                        meta.append((rq, d["pass"], i, ("Intersect", t["riid"]), fired, out, pl))
            elif d["pass"] == "except":
                for i, t in enumerate(pl[:-1]):
                    nx = pl[i + 1]
                    if t.get("kind") == "Join" and t["side"] == "Left" and "super" in nx and nx["super"]["kind"] == "Filter":
                        bottom = [c["cid"] for c in rels.get(t["riid"], [])]
                        top = sel[i]
                        ex = "except_decision %s %s %s %s %s %s %s %s %s" % (
                            nl(top), nl(bottom), nl(output), nl(behind[i + 1]), cpe(t["expr"]), cpe(nx["super"]["expr"]),
                            b(i > 0 and pl[i - 1].get("kind") == "Distinct"), b(ctx["except_all"]), b(any(c in wild for c in top + bottom)))
                        exprs.append(ex)
                        meta.append((rq, d["pass"], i, ("Except", t["riid"]), fired, out, pl))
            else:
                # align input and output: every non-candidate element is copied
                j = 0
                for i, t in enumerate(pl):
                    tk = t.get("super", {}) if "super" in t else {}
                    if tk.get("kind") == "Take" and tk["partition"]:
                        got = None
                        if outp is not None and j < len(outp):
                            o = outp[j]
                            if o.get("kind") == "Distinct":
                                got, j = "DDistinct", j + 1
                            elif o.get("kind") == "Sort" and j + 1 < len(outp) and outp[j + 1].get("kind") == "DistinctOn":
                                got, j = "DDistinctOn", j + 2
                            elif "super" in o and o["super"]["kind"] == "Compute" and j + 1 < len(outp) and "super" in outp[j + 1] and outp[j + 1]["super"]["kind"] == "Filter":
                                got, j = "DRowNumber", j + 2
                        st, en = tk["start"], tk["end"]

                        def ival(x):
                            return x["lit"]["int"] if isinstance(x, dict) and isinstance(x.get("lit"), dict) and "int" in x["lit"] else None
                        first = (st is None or ival(st) == 1) and ival(en) == 1
                        defined = []
                        for x in pl[i + 1:]:
                            if "super" in x and x["super"]["kind"] == "Compute":
                                defined.append(x["super"]["compute"]["id"])
                            elif x.get("kind") == "Join":
                                defined += [c["cid"] for c in rels.get(x["riid"], [])]
                        ex = "distinct_decision %s %s %s %s %s %s %s" % (b(first), b(not tk["sort"]), nl(sel[-1]), nl(tk["partition"]),
                                                                         nl(behind[i]), nl(defined), b(ctx["distinct_on"]))
                        exprs.append(ex)
                        meta.append((rq, "distinct", i, got, None, out, pl))
                    else:
                        j += 1
    if ok_compiles and not seen_hook:
        ck.violation("no verif:preprocess line in any of %d successful compiles: the hook of preprocess is missing" % ok_compiles,
                     {"kind": "preprocess-hook-missing"}, no_input=True)
        return
    vals = coq_eval(HEADER, exprs) if exprs else []
    agree = 0
    for (rq, ps, i, what, fired, out, pl), v in zip(meta, vals):
        ck.count("preprocess", json.dumps([ps, i, pl], sort_keys=True, default=str) + rq["target"])
        if ps == "distinct":
            ck.stat("preprocess", "distinct:" + str(v))
            ok = (v == what)
            impl = what
        else:
            if "err" in out:
                impl = "Err"
            elif what in fired:
                impl = ("Yes", fired[what])
            else:
                impl = "No"
            ck.stat("preprocess", "%s:%s" % (ps, v if isinstance(v, str) else "Yes"))
            ok = (v == impl)
            if not ok and len(fired) > 1:
                ck.stat("preprocess", "several-rewrites-in-one-pass:skipped")      # later candidates see the rewritten prefix
                continue
        if ps == "except" and impl == ("Yes", False):
            # agreed by the model, and wrong by c01_anti_join_is_except_all_refuted: the anti-join becomes EXCEPT ALL
            ck.disagreement("a left join + null filter (anti-join) is emitted as EXCEPT ALL, which subtracts multiplicities: %s [%s]" % (
                rq["src"].replace("\n", " | ")[:200], rq["target"]), {"src": rq["src"], "target": rq["target"]},
                lambda _c: "F48-anti-join-rewritten-to-except-all")
        if ok:
            agree += 1
        else:
            ck.disagreement("preprocess pass `%s` differs from Model/Preprocess.v at transform %d (model %s, implementation %s) on %s [%s]" % (
                ps, i, v, impl, rq["src"].replace("\n", " | ")[:200], rq["target"]),
                {"src": rq["src"], "target": rq["target"], "pass": ps, "position": i, "model": str(v), "implementation": str(impl), "pipeline": pl}, lambda _c: None)
    ck.coverage["preprocess_candidates"] = len(meta)
    ck.coverage["preprocess_agree"] = agree

"""C13: erroneous PRQL sources with a marked offending token.  `«tok»` marks the text the (first) error
must point at; an empty pair `«»` marks a position (end-of-input errors).  Each template was calibrated
on the unchanged tree with an ASCII source: the reported span is exactly the marked text.

keys: cls  lexical | syntactic | resolution | type | sql
      t    the source with the marker
      target   compile target (sql class: some errors are dialect specific)
      known    id of the defect class the template exists to exhibit (interp-rebase)
      check_tok  False: only bounds/location/display are checked, not the token (span is not a token)
      nospan   True: on the calibrated tree the (first) error carries no span at all (the marker shows where the
               offending text is); should it carry one, every clause including the token is checked"""


def parse_template(d):
    t = d["t"]
    i, j = t.index("«"), t.index("»")
    text = t[:i] + t[i + 1:j] + t[j + 1:]
    out = dict(d)
    out.update({"raw": t, "text": text, "off": i, "tok": t[i + 1:j],
                "inline": text.startswith("from t | ") and d.get("inline", True),
                "interp": d.get("interp", False)})
    return out


TEMPLATES = [
    # ---------------------------------------------------------------- lexical
    {"cls": "lexical", "t": "from t | select {a «^» b}"},
    {"cls": "lexical", "t": "from t | derive x = «\"»abc"},
    {"cls": "lexical", "t": "from t | derive x = «'»abc"},
    {"cls": "lexical", "t": "from t | select «;»"},
    {"cls": "lexical", "t": "from t | select {a &&«&» b}"},
    {"cls": "lexical", "t": "from t | select {a «\\» b}"},
    {"cls": "lexical", "t": "from t | select {a ~« »b}"},
    {"cls": "lexical", "t": "from t | select {a ?« »b}"},
    {"cls": "lexical", "t": "from t | derive x = 1 ` 2«»"},
    {"cls": "lexical", "t": "from t | select {a «€» b}"},
    {"cls": "lexical", "t": "from t | select {a, b} | filter a > 1 «^»"},
    {"cls": "lexical", "t": "from t\nselect {a}\nfilter b «;» 2"},
    # ---------------------------------------------------------------- syntactic
    {"cls": "syntactic", "t": "from t | select {a +«}»"},
    {"cls": "syntactic", "t": "from t | select {a, }«}»"},
    {"cls": "syntactic", "t": "from t | derive x = (1 + «)»"},
    {"cls": "syntactic", "t": "from t | derive {x = [1, 2«}»"},
    {"cls": "syntactic", "t": "let «=» 5"},
    {"cls": "syntactic", "t": "from t | join u («)»== a"},
    {"cls": "syntactic", "t": "from t | sort {-«}»"},
    {"cls": "syntactic", "t": "func f a -> \n«from» t"},
    {"cls": "syntactic", "t": "from t | derive {x = case [a => «]»}"},
    {"cls": "syntactic", "t": "from t | derive {x = a || «}»"},
    {"cls": "syntactic", "t": "from t\nselect {a, b}\nderive {c = a +«}»"},
    # errors the parser raises itself (Rich::custom over extra.span()): the span is a range of several tokens
    {"cls": "syntactic", "t": "from t | «join side:left side:right u (==id)»"},
    {"cls": "syntactic", "t": "type t = «{»..int, a = int}\nfrom t"},
    # the span of a statement starts at the new-line (or start-of-file) token in front of it: not a token of its own
    {"cls": "syntactic", "t": "«prql version:1\n»from t", "header": True, "check_tok": False},
    {"cls": "syntactic", "t": "«prql foo:bar\n»from t", "header": True, "check_tok": False},
    {"cls": "resolution", "t": "let x = 1«\nlet x = 2»\nfrom t", "check_tok": False},
    {"cls": "syntactic", "t": "from t | select {f\"{a« »+}\"}", "interp": True},
    {"cls": "syntactic", "t": "from t | select {f\"{«}»\"}", "interp": True},
    {"cls": "syntactic", "t": "from t | select {s\"{a« »b}\"}", "interp": True},
    {"cls": "syntactic", "t": "from t | select {f\"x {a« »+}\"}", "interp": True},
    # interpolation rebasing defect (known): triple quotes / an escape before the error
    {"cls": "syntactic", "t": "from t | select {f\"\"\"{a« »+}\"\"\"}", "interp": True, "known": "interp-rebase"},
    {"cls": "syntactic", "t": "from t | select {f\"x\\\"y {a« »+}\"}", "interp": True, "known": "interp-rebase"},
    # ---------------------------------------------------------------- name resolution
    {"cls": "resolution", "t": "from t | filter a == 1 | select {zz = «foo» a}"},
    {"cls": "resolution", "t": "from t | «selec» {a}"},
    {"cls": "resolution", "t": "from t | select {a} | filter «b» > 1"},
    {"cls": "resolution", "t": "from t | join u (==id) | select {«id»}"},
    {"cls": "resolution", "t": "from t | derive {x = «std.nope» a}"},
    {"cls": "resolution", "t": "from t | select {a} | select {«t.b»}"},
    {"cls": "resolution", "t": "from t | join side:«foo» u (==id)"},
    {"cls": "resolution", "t": "from (read_csv «a»)"},
    {"cls": "resolution", "t": "module m { let x = 1 }\nfrom t | derive y = «m.z»"},
    {"cls": "resolution", "t": "from t | sort a «desc»"},
    {"cls": "resolution", "t": "from t | derive x = «t.a.b»"},
    {"cls": "resolution", "t": "from t\nselect {y = a + 1}\nfilter «zz» > y"},
    # errors raised inside the body of a std function: reported at the call in the user's source since 7cb9d46
    # (before: a span of std.prql, source id 0, naming no file of the tree -- finding C13-N2, fixed)
    {"cls": "resolution", "t": "from t | «take 1..2..3»"},
    {"cls": "type", "t": "let f = func x<int> -> x\nfrom t | «derive z = f \"a\"»"},
    # raised outside fold_function with a span of std.prql: `composed` removes the span (no location, no excerpt)
    {"cls": "resolution", "t": "from t | take «-1»", "nospan": True},
    {"cls": "resolution", "t": "from t | sort «-name»", "nospan": True},
    # new error sites of the repaired tree (7911778, a131b2a, 287b286): they point at the offending name
    {"cls": "resolution", "t": "let tab = (from t | select {a} | join u (==a))\nfrom tab | filter «id» > 1"},
    # ---------------------------------------------------------------- type
    {"cls": "type", "t": "from t | take «a»"},
    {"cls": "type", "t": "from t | take «\"x\"»"},
    {"cls": "type", "t": "from t | sort {a} | take «1.5»"},
    {"cls": "type", "t": "from t | filter «\"abc\"»"},
    {"cls": "type", "t": "from t | derive {x = !«5»}"},
    {"cls": "type", "t": "from t | window rolling:«x» (derive {m = sum a})"},
    {"cls": "type", "t": "from t | window rows:«1» (derive {x = sum a})"},
    {"cls": "type", "t": "from t | derive {x = «(min a b c)»}"},
    {"cls": "type", "t": "from t | filter («from u»)"},
    {"cls": "type", "t": "from t | «join u»"},
    {"cls": "type", "t": "from t | derive {c = «1» 2}"},
    {"cls": "type", "t": "from t | aggregate {«sum»}"},
    {"cls": "type", "t": "from t | «take 1..(2+1)»"},
    {"cls": "type", "t": "from t | filter (a | in «{1, 2}»)"},
    {"cls": "type", "t": "from t | select {a} | derive {x = «date»}"},
    {"cls": "type", "t": "let r = (from u)\nfrom t | derive {x = «r»}"},
    {"cls": "type", "t": "«from [{1, 2}]»"},
    {"cls": "type", "t": "«from [{a = 1, 2}]»"},
    {"cls": "type", "t": "from [{a = 1, b = «x»}]"},
    {"cls": "type", "t": "from [{a = 1, b = 2}, {a = 3, b = «c»}]"},
    {"cls": "type", "t": "from t | «select {a}» | append (from u | select {a, b})"},
    # error sites of 7b31f75, f0c772e: they carry the span of the offending expression since 819c36b
    {"cls": "type", "t": "from t | window rows:«1..0» (derive {x1 = count a})"},
    {"cls": "type", "t": "from t | window range:«3..1» (derive {x1 = count a})"},
    {"cls": "type", "t": "from t | «remove (from u | select {a, b})»"},
    # ---------------------------------------------------------------- one template per reachable Error::new_simple site
    # (the evidence lists, per site of the regenerated inventory, whether an error of that site was seen with a span)
    {"cls": "type", "t": "from t | window rows:«a»..2 (derive {x = sum b})"},
    {"cls": "resolution", "t": "from t | join u (==«1»)"},
    {"cls": "resolution", "t": "from t | join u (==«t.id»)"},
    {"cls": "resolution", "t": "let x = 1«»", "nospan": True},
    {"cls": "resolution", "t": "# nothing«»", "nospan": True},
    {"cls": "resolution", "t": "«prql version:\"^9\"\n»from t", "header": True, "nospan": True},
    {"cls": "type", "t": "from [{a=1}] | append «[{a=1,b=2}]»"},
    {"cls": "type", "t": "from t | take foo:«1» 2"},
    {"cls": "type", "t": "from t | select {a, «t.*»} | intersect (from u | select {c})", "check_tok": False},
    {"cls": "type", "t": "from t | derive {x = s\"{«t»}\"}"},
    # error sites added by 1ae3488 (no span), e6f83f8 and 006e33c (both point at the offending text)
    {"cls": "sql", "t": "from t | derive {x = «1e400»}", "nospan": True},
    {"cls": "type", "t": "from [{a = 1}, «5»]"},
    {"cls": "type", "t": "from [{a = 1}, {a = 2}, «\"x\"»]"},
    {"cls": "type", "t": "from t | derive {x = «that»}"},
    {"cls": "type", "t": "from t | join u (==id) | derive {y = «that»}"},
    # error sites of 19e2c2a (interval literal for a dialect without one: no span) and d86674e (JSON cell of from_text that
    # cannot be represented: reported at the text since the last commit of /repo; before, at the `format` argument)
    {"cls": "sql", "t": "from t | derive {x = «3years»}", "target": "sql.sqlite", "nospan": True},
    {"cls": "type", "t": "from_text format:json «'[{\"a\": 18446744073709551615}]'»"},
    {"cls": "type", "t": "from_text format:json «'[{\"a\": [1]}]'»"},
    {"cls": "type", "t": "from t | group a («join u (==id)»)"},
    {"cls": "type", "t": "let f = func a -> «internal nope»\nfrom t | derive x = (f 1)"},
    {"cls": "type", "t": "from t | select {a} | append «null»"},
    {"cls": "sql", "t": "from t | take 9223372036854775807.. | take «2».."},
    {"cls": "sql", "t": "from «s\"SELEC * FROM t\"»", "nospan": True},
    {"cls": "sql", "t": "from t | «remove u»", "target": "sql.sqlite", "nospan": True},
    {"cls": "sql", "t": "from t | «intersect u»", "target": "sql.sqlite", "nospan": True},
    {"cls": "sql", "t": "from t | derive {d = (date.to_text «\"%Y\"» d0)}", "target": "sql.generic"},
    {"cls": "sql", "t": "from t | derive {d = (date.to_text «\"%Y\"» d0)}", "target": "sql.bigquery"},
    {"cls": "sql", "t": "from t | derive {d = (date.to_text «\"%Q\"» d0)}", "target": "sql.mysql"},
    {"cls": "sql", "t": "from t | derive {d = (date.to_text «\"%Q\"» d0)}", "target": "sql.duckdb"},
    {"cls": "sql", "t": "from t | derive {d = (date.to_text «\"%Q\"» d0)}", "target": "sql.mssql"},
    {"cls": "sql", "t": "from t | derive {d = (date.to_text «\"%Q\"» d0)}", "target": "sql.clickhouse"},
    # ---------------------------------------------------------------- SQL generation
    {"cls": "sql", "t": "from t | derive {d = (date.to_text «\"%Y\"» d0)}"},
    {"cls": "sql", "t": "from t | derive {d = «(date.to_text a b)»}"},
    {"cls": "sql", "t": "from t | derive {x = «a ~= \"x\"»}", "target": "sql.mssql"},
    {"cls": "sql", "t": "from t | derive {y = «std.regex_search a \"x\"»}", "target": "sql.mssql"},
    {"cls": "sql", "t": "from t | derive {d = date.to_text «\"%Y %q\"» d0}", "target": "sql.postgres"},
    {"cls": "sql", "t": "from t | select {d = (date.to_text «\"%A %-d\"» d0)}", "target": "sql.sqlite"},
    {"cls": "sql", "t": "from t\nsort a\nderive {d = (date.to_text «\"%Y\"» d0)}"},
]


# ---------------------------------------------------------------------------- generated: errors inside s-/f-strings
ESCAPES = ["\\n", "\\t", "\\\\", "\\x41", "\\u{41}", "\\r"]
PLAIN = ["x ", "ab", " = ", "1, ", "{{", "}}", "{a}", " ", "-"]
NONASCII = ["é", "→"]


def interp_templates(rng, n):
    """n erroneous programs whose (first) error lies inside a hole of an s-/f-string: `{a +}` (syntax: the parser of
    the string content reports the blank after `a`) or `{zz}` (resolution: unknown name).  Around the hole: plain text,
    doubled braces, well-formed holes, escape sequences, escaped quotes, with 1 or 3 quote characters of either kind.
    `known` = interp-rebase exactly when the unchanged tree's `span + 2` rebasing is wrong: three quotes, or an escape
    before the hole."""
    out = []
    for _ in range(n):
        k = rng.choice("sf")
        qc = rng.choice(["\"", "'"])
        ql = rng.choice([1, 1, 1, 3])
        q = qc * ql

        def pieces(m):
            ps = []
            for _ in range(m):
                r = rng.random()
                if r < 0.45:
                    ps.append(("esc", rng.choice(ESCAPES + ["\\" + qc])))
                elif r < 0.93:
                    ps.append(("plain", rng.choice(PLAIN)))
                else:
                    ps.append(("nonascii", rng.choice(NONASCII)))
            return ps
        before = pieces(rng.choice([0, 0, 1, 2, 3]))
        after = pieces(rng.choice([0, 1, 2, 3, 4]))
        if rng.random() < 0.5:
            hole, cls = "{a« »+}", "syntactic"
        else:
            hole, cls = "{«zz»}", "resolution"
        content = "".join(p[1] for p in before) + hole + "".join(p[1] for p in after)
        if ql == 3 and content.replace("«", "").replace("»", "").endswith(qc):
            content += " "
        src = "from t | select {a} | select {x = %s%s%s%s}" % (k, q, content, q)
        d = {"cls": cls, "t": src, "interp": True, "gen": True,
             "shape": {"quotes": ql, "esc_before": sum(1 for p in before if p[0] == "esc"), "esc_after": sum(1 for p in after if p[0] == "esc")}}
        if ql == 3 or any(p[0] == "esc" for p in before):
            d["known"] = "interp-rebase"
        out.append(d)
    return out


# ---------------------------------------------------------------------------- file-tree inputs (harness c13tree)
# errors that only a SourceTree can provoke; `path` is a string or a list of bytes (a path that is not UTF-8);
# `want` = the message (prefix) of the Error::new_simple site the case exists for; all of them carry no span on HEAD
TREE_CASES = [
    {"files": [], "want": "No `.prql` files found in the source tree"},
    {"files": [["a.prql", "from t"], ["b.prql", "let x = 1"]], "want": "Cannot find the root module within the following files:"},
    {"files": [["Project.prql", "from t"], [[120, 47, 255, 46, 112, 114, 113, 108], "let z = 1"]], "want": "Invalid file path: "},
    {"files": [["Project.prql", "from t | select {a}"]], "database": ["db"], "want": "this table is not in the current database"},
    {"files": [["Project.prql", "# é\nfrom t | select {a}"], ["m.prql", "let o_ = 1"]], "database": ["db"], "want": "this table is not in the current database"},
]

"""C14 -- formatting preserves the program and is idempotent.

  1. translator  gen_codegen  -> coq/Gen/GenCodegen.v        (formatter + parser tables, every run, fail closed)
  2. ck.prove()  Props/C14.v                                  (round trips; fmt_compat by vm_compute on the tables)
  3. correspondence  model (coq_eval) vs implementation       (c14_corr.py)
  4. THE DIRECT ORACLE on the implementation                  (this file + c14_oracle.py): for pool and generated sources
        pl(fmt(src)) == pl(src) modulo spans/comments, fmt(fmt(src)) == fmt(src), compile(fmt(src)) == compile(src)
  5. classification against known_findings.d/C14.json by narrow input predicates
"""
import json

from ..common import Check, harness
from ..programs import POOL
from . import c14_gen as G, c14_prog as P, c14_oracle as O

TARGETS = ["sql.sqlite", "sql.generic"]

TRUSTED = [
    "Coq 8.16.1 kernel (coqc, vm_compute); no axioms: every theorem is 'Closed under the global context'",
    "translator vplib/translate/gen_codegen.py (scanners over codegen/ast.rs binding_strength / associativity / can_bind_left / keywords / valid_prql_ident and the context strengths forced at restricted positions -- alias threshold of Expr::write, no_alias of the FuncCall arm, SwitchCase::write, default value / body of the Func arm, annotations in Stmt::write --, parser/expr.rs pratt levels and operator tokens, lexer/mod.rs keyword list; fail closed)",
    "modelled, not verified: coq/Model/Fmt*.v restate write_expr (width unlimited), write_ident_part, display_ident_part, Literal Display, and a predictive model of the expression parser of parser/expr.rs; both are compared with the implementation on every run (token streams of the real lexer, ASTs of the real parser)",
    "the expression theorem is at token level; at TEXT level (through C17's lexer model Model/Lexer.v, its translator gen_lex_tables.py and its forward lemmas Proofs/LexForward.v, all read-only) only the spaced fragment is proved (fmt_text_lexes, fmt_expr_text_roundtrip: bare identifiers, true/false/null, non-negative integers, plain double-quoted strings, parameters, binary operator symbols, `name =`, `|`, `=>`); that the printed text lexes to the model's token list outside it (brackets, commas, unary operators, named arguments, range bind flags, floats, keywords, line breaks) is checked by the correspondence streams, not proved",
    "Rust's f64 Display prints the shortest round-tripping decimal in positional notation, and str::parse::<f64> is correctly rounded (floats are modelled as decimal mantissa/exponent pairs); char::escape_default; Unicode classes (alphabetic/alphanumeric) as Section variables",
    "line breaking (SeparatedExprs, write_or_expand, width accounting), types (type definitions, `let x <ty>`, the type annotations of lambda parameters), the `prql` header: outside the theorems, covered only by the direct differential oracle; the statement layer (Model/FmtStmt.v) is modelled at unlimited width with indentation counted in nat",
    "harness/src/c14.rs (prql_to_pl, pl_to_prql, json::from_pl, compile) and the JSON normaliser that drops `span` and `doc_comment`",
]

# priority order for attributing an unexplained-by-repair failure to a class present in the input
# (F11-float-nonfinite: the lexer rejects such literals since d8fda67, no source parses to one; C14-named-param-type:
#  repaired by 212f897 -- both classes are gone)
# (the classes of C14-ident-star-bare, C14-restricted-position, C14-param-range are gone: repaired by commits 328740d,
#  95d15ad + 2a611aa, 1b7b9df -- a recurrence is a VIOLATION)
CLASS_TO_FINDING = [
    ("doc-comment-split", "C14-doc-comment-split"),
    ("float-integral", "F11-float-integral"),
]
REPAIR_TO_FINDING = {"float-integral": "F11-float-integral"}


def sql_same(x, y):
    """compile results agree.  A panic while *rendering an error* (error_message.rs, finding F9 of C12/C13: byte vs char
    offsets) stands for `some error`: its presence depends on where multi-byte text sits in the line."""
    if x == y:
        return True, False
    def f9(v):
        return isinstance(v, dict) and "panic" in v and "error_message.rs" in str(v["panic"])
    def failed(v):
        return isinstance(v, dict) and ("err" in v or "panic" in v)
    if (f9(x) and failed(y)) or (f9(y) and failed(x)):
        return True, True
    return False, False


def judge(ans, fmt_keywords):
    """-> (problems, features, finding ids or None).  problems == [] means the oracle holds for this source."""
    problems = []
    pl_doc = O.strip(ans["pl"], keep_doc=True)
    pl = O.strip(ans["pl"])
    feats = O.features(pl_doc, fmt_keywords)
    if "fmt_err" in ans or "fmt" not in ans:
        return ["fmt-failed"], feats, None
    ast_diff = False
    if "pl2_err" in ans:
        problems.append("unparseable")
    elif O.canon(O.strip(ans["pl2"])) != O.canon(pl):
        problems.append("ast")
        ast_diff = True
    if "pl2" in ans and ans.get("fmt2") != ans["fmt"]:
        problems.append("idem")
    skipped_f9 = False
    for t, v in (ans.get("sql") or {}).items():
        if t in (ans.get("sql_nondet") or []):
            continue     # two compilations of the same source already differ (hash order; C11): outcome sets meet
        same, f9 = sql_same(v, (ans.get("sql2") or {}).get(t))
        skipped_f9 = skipped_f9 or f9
        if not same:
            problems.append("sql:" + t)
    if not problems:
        return [], feats, ([] if not skipped_f9 else ["f9"])
    # attribution
    if "pl2" in ans:
        if ast_diff:
            used = O.explained_by_repairs(pl, O.strip(ans["pl2"]), feats)
            if used is not None:
                ids = [REPAIR_TO_FINDING[c] for c in used]
                if "idem" in problems and ans.get("fmt2") != ans["fmt"] and not used:
                    pass
                return problems, feats, ids or None
        else:
            # same AST but the second formatting or the SQL differs: nothing known explains that
            return problems, feats, None
    for cls, fid in CLASS_TO_FINDING:
        if cls in feats:
            return problems, feats, [fid]
    return problems, feats, None


def run_oracle(ck, fmt_keywords):
    """streams of sources through the direct oracle"""
    rng = ck.rng
    streams = []
    # fixed: pool, adjacency, replays of the known findings
    fixed = [("oracle-pool", p) for p in POOL]
    fixed += [("oracle-pool", p.replace(" | ", "\n")) for p in POOL if "\n" not in p]
    fixed += [("oracle-adjacency", "from t\nselect {v = %s}\n" % a) for a in G.ADJACENCY]
    fixed += [("oracle-adjacency", "let v = %s\n" % a) for a in G.ADJACENCY]
    # every keyword / literal word as alias, parameter name and identifier (write_ident_part / display_ident_part)
    for kw in G.KEYWORD_IDS:
        fixed.append(("oracle-keyword-idents", "from t\nselect {`%s` = 1}\n" % kw))
        fixed.append(("oracle-keyword-idents", "let f = func `%s` -> 1\n" % kw))
        fixed.append(("oracle-keyword-idents", "from t\nselect {x = `%s`}\n" % kw))
        fixed.append(("oracle-keyword-idents", "from t\nselect {x = t.`%s`.a}\n" % kw))
    # the identifier alphabet: names with a character of every Unicode general category (where a printer's bare
    # class can be wider than the lexer's), at alias / identifier / declaration / parameter / argument-name positions
    fixed += [("oracle-unicode-idents", s) for s in G.unicode_name_sources()]
    # every literal kind, twice (the second one exercises Display of what the first produced)
    for kinds in (["int"], ["float"], ["float0"], ["floatbig"], ["string"], ["raw"], ["date"], ["time"], ["timestamp"], ["unit"], ["bool"], ["null"], ["based"], ["under"], ["exp"]):
        seen = set()
        for _ in range(40):
            lit = G.gen_literal(rng, kinds)[2]
            if lit not in seen:
                seen.add(lit)
                fixed.append(("oracle-literals", "from t\nselect {x = %s}\n" % lit))
    for s in G.STRINGS:
        fixed.append(("oracle-literals", "from t\nfilter s == %s\n" % G.str_lit(s)))
    for f in ck.findings:
        r = f.get("replay", {})
        for s in ([r["src"]] if "src" in r else []) + list(r.get("srcs", [])):
            fixed.append(("oracle-known-replays", s))
    # s-/f-strings that span lines: the text of an interpolation is written as it is, blanks before a line break included
    for q in "sf":
        for body in ["a \nb", "a\t\n b", " \n ", "x {c} \n{d}  \n", "SELECT \n  {a},  \n  {b} \nFROM t ", "\n\n", "a\n", " "]:
            fixed.append(("oracle-interp-multiline", "from t\nselect {v = %s\"%s\"}\n" % (q, body)))
            fixed.append(("oracle-interp-multiline", "let v = %s\"%s\"\n" % (q, body)))
    # the positions repaired by commits 95d15ad / 2a611aa / 1b7b9df / 328740d, every (position, form) pair
    fixed += [("oracle-restricted-positions", s) for s in G.restricted_position_sources()]
    streams += fixed
    # exhaustive (parent, side, child) triples at depth 2 and sampled depth-3 chains
    for key, e in G.triples():
        streams.append(("oracle-triples", "from t\nselect {v = %s}\n" % G.src(e)))
    for key, e in G.quads(rng, ck.n(400, 12000)):
        streams.append(("oracle-quads", "let v = %s\n" % G.src(e)))
    # generated, clean (none of the known-defect constructs: an unknown defect cannot hide behind a known one)
    P.CLEAN[0] = True
    for _ in range(ck.n(300, 9000)):
        streams.append(("oracle-compilable", P.compilable(rng)))
    for _ in range(ck.n(300, 9000)):
        streams.append(("oracle-syntactic", P.syntactic(rng)))
    for _ in range(ck.n(150, 5000)):
        streams.append(("oracle-longlines", P.long_lines(rng)))
    for _ in range(ck.n(300, 9000)):
        streams.append(("oracle-exprs", "from t\nselect {v = %s}\n" % G.src(G.gen_expr(rng, rng.choice([2, 3, 3, 4]), {"clean": True}))))
    # generated, hostile (constructs of the known findings included)
    P.CLEAN[0] = False
    for _ in range(ck.n(80, 2500)):
        streams.append(("oracle-hostile", P.syntactic(rng)))
        streams.append(("oracle-hostile", P.compilable(rng)))
        streams.append(("oracle-hostile", "from t\nselect {v = %s}\n" % G.src(G.gen_expr(rng, 3, {"clean": False}))))
    P.CLEAN[0] = True

    reqs = [{"src": s, "targets": TARGETS} for _, s in streams]
    answers = harness("c14", reqs)
    n_parsed = n_comp = 0
    for (stream, src), a in zip(streams, answers):
        if not isinstance(a, dict) or "abort" in a or "panic" in a:
            # the parser or the printer itself died: C12's subject, but a formatter that panics on a parseable source is ours
            ck.count(stream, src)
            ck.stat(stream, "harness-abort-or-panic")
            if isinstance(a, dict) and "panic" in a and "codegen" in str(a["panic"]):
                ck.disagreement("formatter panicked", {"src": src, "answer": a}, None)
            continue
        if "parse_err" in a:
            ck.count(stream, src, nontrivial=False)
            ck.stat(stream, "input-does-not-parse")
            continue
        ck.count(stream, src)
        n_parsed += 1
        if any(isinstance(v, dict) and "ok" in v for v in (a.get("sql") or {}).values()):
            n_comp += 1
            ck.stat(stream, "compiles")
        problems, feats, ids = judge(a, fmt_keywords)
        if a.get("sql_nondet"):
            ck.stat(stream, "compile-nondeterministic(C11)-outcome-sets-meet")
        for f in sorted(feats):
            ck.stat(stream, "has:" + f)
        for f in sorted(O.constructs(O.strip(a["pl"]))):
            ck.stat(stream, "repaired-construct:" + f)
        if "\n" in (a.get("fmt") or "").strip() and any(ln.startswith(" ") for ln in a["fmt"].split("\n")):
            ck.stat(stream, "output-wrapped")
        if not problems:
            if ids == ["f9"]:
                ck.stat(stream, "compile-error-render-panic(F9)-treated-as-error")
            if stream == "oracle-compilable" or stream == "oracle-pool":
                ck.sample({"stream": stream, "src": src, "fmt": a.get("fmt"), "sql_equal": True}, cap=4)
            continue
        ck.stat(stream, "fails:" + "+".join(sorted(set(p.split(":")[0] for p in problems))))
        case = {"src": src, "problems": problems, "input_classes": sorted(feats), "fmt": a.get("fmt")}
        if "pl2_err" in a:
            try:
                case["reparse_error"] = a["pl2_err"]["err"][0]["reason"]
            except Exception:
                case["reparse_error"] = str(a["pl2_err"])[:200]
        if "fmt2" in a and a["fmt2"] != a.get("fmt"):
            case["fmt2"] = a["fmt2"]
        for t in TARGETS:
            if ("sql:" + t) in problems:
                case["sql"] = {t: [(a.get("sql") or {}).get(t), (a.get("sql2") or {}).get(t)]}
                break
        if ids:
            for fid in ids:
                got = ck.disagreement("formatting changes the program", case, lambda c, fid=fid: fid)
                if got is None:
                    break
        else:
            ck.disagreement("formatting changes the program (%s) and no known finding explains it" % ",".join(problems), case, None)
    ck.coverage["oracle"] = {"sources": len(streams), "parsed": n_parsed, "compiled_ok": n_comp, "targets": TARGETS}
    run_deep_nesting(ck)


def run_deep_nesting(ck):
    """C14-fmt-exponential (fixed by c8b3817): formatting time was exponential in the nesting depth of parenthesised
    operands that do not fit the line (depth 22: 44 s, depth 24: about 3 min; now: milliseconds).  One directed
    case, generous limit: a recurrence is a VIOLATION."""
    import subprocess, time
    from ..common import HARNESS_BIN, harness_build
    harness_build()
    src = G.deep_nesting_source(24)
    limit = 45
    t0 = time.time()
    try:
        p = subprocess.run([HARNESS_BIN, "c14"], input=json.dumps({"src": src, "targets": [], "compile": False}) + "\n",
                           capture_output=True, text=True, timeout=limit)
        out = [l for l in p.stdout.split("\n") if l.strip()]
        a = json.loads(out[0]) if out else {"abort": p.returncode}
    except subprocess.TimeoutExpired:
        a = {"hang": limit}
    dt = time.time() - t0
    ck.count("oracle-deep-nesting", src)
    ck.stat("oracle-deep-nesting", "seconds<1" if dt < 1 else "seconds<10" if dt < 10 else "seconds>=10")
    if "hang" in a:
        ck.disagreement("formatting a 24-level nest of parenthesised operands does not finish in %d s" % limit, {"src": src, "seconds": round(dt, 1)}, None)
        return
    if not isinstance(a, dict) or "fmt" not in a:
        ck.disagreement("the formatter fails on a 24-level nest of parenthesised operands", {"src": src, "answer": str(a)[:300]}, None)
        return
    if "pl2" not in a or O.canon(O.strip(a["pl2"])) != O.canon(O.strip(a["pl"])) or a.get("fmt2") != a["fmt"]:
        ck.disagreement("formatting changes the program", {"src": src, "fmt": a.get("fmt"), "problems": ["ast-or-idem"]}, None)


def run_replay(ck, path, fmt_keywords):
    """./check C14 --replay file : re-run the direct oracle on the source(s) of a replay file"""
    d = json.load(open(path))
    r = d.get("replay", d)
    srcs = ([r["src"]] if "src" in r else []) + list(r.get("srcs", []))
    answers = harness("c14", [{"src": s, "targets": TARGETS} for s in srcs])
    for s, a in zip(srcs, answers):
        ck.count("replay", s)
        if "parse_err" in a:
            print("replay: source does not parse: %r" % s)
            continue
        problems, feats, ids = judge(a, fmt_keywords)
        print("replay: %r\n  fmt = %r\n  problems = %s, input classes = %s, attributed to = %s" % (s, a.get("fmt"), problems, sorted(feats), ids))
        if problems:
            case = {"src": s, "problems": problems, "input_classes": sorted(feats), "fmt": a.get("fmt")}
            if ids:
                for fid in ids:
                    ck.disagreement("formatting changes the program", case, lambda c, fid=fid: fid)
            else:
                ck.disagreement("formatting changes the program", case, None)


def run():
    ck = Check("C14", level="proof")
    from ..translate import gen_codegen
    info = gen_codegen.generate()
    from ..translate import gen_lex_tables
    linfo = gen_lex_tables.generate()      # C17's translator (read-only use): fmt_text_lexes is stated on Model/LexerGen.v, which needs Gen/GenLexTables.v
    if "error" in linfo and "error" not in info:
        ck.coverage["lexer_translator_error"] = linfo["error"]
    pr = ck.prove()
    fmt_keywords = set(info.get("fmt_keywords") or O.FMT_KEYWORDS_FALLBACK) if "error" not in info else O.FMT_KEYWORDS_FALLBACK
    import os
    if os.environ.get("VERIF_REPLAY"):
        run_replay(ck, os.environ["VERIF_REPLAY"], fmt_keywords)
        ck.proof_broken_violation(found_input=any(not ni for _, _, ni in ck.violations))
        ck.finish(TRUSTED, "replay of one recorded input through the direct oracle")
    # correspondence of the models with the implementation
    try:
        from . import c14_corr
        c14_corr.run(ck, info, pr)
    except ImportError:
        ck.coverage["correspondence"] = "not built yet"
    # the direct oracle
    run_oracle(ck, fmt_keywords)
    ck.proof_broken_violation(found_input=any(not ni for _, _, ni in ck.violations))
    if "error" in info:
        ck.coverage["translator_error"] = info["error"]
    ck.assumptions += [
        "partial: line breaking (SeparatedExprs / write_or_expand; compared token by token with the one-line model text by corr-wrapped-tokens), `let x <ty>`, the type annotations of lambdas and the `prql` header are outside the theorems; they are covered only by the differential oracle (pl/fmt/compile on generated and pool sources).  Inside the theorems: expressions incl. lambdas (without type annotations), aliases at operand positions, annotation expressions; whole programs (statement layer); type expressions; s-/f-strings; the text level for the spaced fragment",
        "the oracle compares ASTs with `span` and `doc_comment` removed (the property ignores positions, comments and line wraps)",
        "named arguments are a HashMap in the AST, printed in key order since commit 9396557: the model represents the map as its association list in that order",
        "compile equality is judged on sql.sqlite and sql.generic with format=false; a panic inside error rendering (F9) counts as an error",
    ]
    ck.finish(TRUSTED, "direct oracle: every source that parses is one case (distinct by text); exhaustive (parent,side,child) operator triples at depth 2 over 24 node kinds, sampled depth-3 chains, unary/binary/alias/parameter/lambda adjacency list, every (position, form) pair of the restricted positions, pool, grammar-generated compilable / syntactic / long-line / hostile programs, one 24-level nest under a time limit; correspondence: model text and tokens vs `fmt`, model parser vs real parser, literal and identifier printers vs Display on generated values")

"""C03 -- sort order persists through the pipeline and take selects by position."""
import json
import re

from ..common import Check, coq_eval, harness
from ..rel import prog as P, run as R, e2e as E

TRUSTED = [
    "Coq 8.16.1 kernel (coqc, vm_compute); no axioms (every theorem: Closed under the global context)",
    "hand-written model coq/Model/Sorts.v of sql/pq/postprocess.rs SortingInference (kind level; sort keys opaque), tied to the code on every run by comparing its output with the implementation's PQ before/after post-processing (public debug log)",
    "reference semantics coq/Model/Rel.v + Value.v (specification of sort/take/filter/select/derive/join on lists of rows)",
    "end-to-end oracle: generator vplib/rel/prog.py, harness (prqlc::compile, bundled SQLite), comparison vplib/rel/run.py",
    "hand-written model coq/Model/Flatten.v of semantic/resolver/flatten.rs (kind level: carried sort, sort_undone, partition of nested groups, aggregate ending the sort, relational arguments), tied on every run by comparing its output with the implementation's RQ on every generated program and on random nested shapes",
    "the cid-level part of Model/Sorts.v (redirect_sorts, widening, fresh ids and redirects of fold_sql_query) is tied to the code through the hook 366a622 on every program; alias_last_sorting (the re-targeting of the main query's final ORDER BY) is NOT modelled: only its directions are compared",
    "modelled, not verified: whether an emitted ORDER BY column can be named where it sits (the back end resolves it by NAME: covered by execution and by C07's scope checker) and SQLite's ORDER BY semantics",
]

DIRS = {"Asc": "false", "Desc": "true"}


def dirs(sorts):
    return "[" + "; ".join(DIRS[s["direction"]] for s in sorts) + "]"


def cid_keys(sorts):
    return "[" + "; ".join("(%d%%nat, %s)" % (s["column"], DIRS[s["direction"]]) for s in sorts) + "]"


def pq_items(p, after=False, dirs=dirs):
    """atomic pipeline JSON -> (coq item list text, token list) ; None if a sub-query From is present"""
    items, toks = [], []
    for t in p:
        if isinstance(t, str):
            n, v = t, None
        else:
            n = list(t.keys())[0]
            v = t[n]
        if n == "From":
            k = v.get("kind", {})
            if "Ref" not in k:
                return None
            items.append("IFromRef %d%%nat" % k["Ref"]); toks.append("From%d" % k["Ref"])
        elif n == "Sort":
            items.append("ISort %s" % dirs(v)); toks.append("Sort" + dirs(v))
        elif n in ("Distinct", "Aggregate"):
            items.append("IReset"); toks.append("Reset")
        elif n == "Join":
            items.append("IJoin"); toks.append("Join")
        elif n == "Take":
            pe = "true" if not v.get("partition") else "false"
            items.append("ITake %s %s" % (pe, dirs(v.get("sort", [])))); toks.append("Take")
        elif n == "DistinctOn":
            items.append("IDistinctOn"); toks.append("DistinctOn")
        else:
            items.append("IOther"); toks.append("Other")
    return items, toks


def model_tokens(v):
    """parse_term value of a list of items -> tokens comparable with pq_items(after)"""
    out = []
    for it in v:
        if isinstance(it, tuple):
            h = it[0]
            if h == "IFromRef":
                out.append("From%d" % it[1])
            elif h == "ISort":
                out.append("Sort[" + "; ".join("true" if b else "false" for b in it[1]) + "]")
            elif h == "ITake":
                out.append("Take")
            else:
                out.append(str(h))
        else:
            out.append({"IReset": "Reset", "IJoin": "Join", "IDistinctOn": "DistinctOn", "IOther": "Other"}.get(it, str(it)))
    return out


def infer_stream(ck, srcs):
    """Tie B for Model/Sorts.v: run the model on the implementation's PQ *before* post-processing and
    compare with the implementation's PQ *after* it (where Sorts were dropped / emitted)."""
    ans = harness("log", [{"src": s, "target": "sql.sqlite", "want": ["ReprPq"]} for s in srcs])
    exprs, meta = [], []
    wexprs, wmeta = [], []
    for s, a in zip(srcs, ans):
        pqs = [e["ReprPq"] for e in a.get("entries", []) if "ReprPq" in e]
        if len(pqs) < 2:
            ck.stat("infer", "no-pq")
            continue
        before, after = pqs[0], pqs[-1]

        def pipes(pq, aft):
            cs = []
            for c in pq.get("ctes", []):
                k = c.get("kind", {})
                ap = None
                for v in k.values():
                    if isinstance(v, dict) and "AtomicPipeline" in v:
                        ap = v["AtomicPipeline"]
                if ap is None:
                    return None
                r = pq_items(ap, aft)
                if r is None:
                    return None
                cs.append((c["tid"], r))
            mr = pq.get("main_relation", {})
            if "AtomicPipeline" not in mr:
                return None
            m = pq_items(mr["AtomicPipeline"], aft)
            if m is None:
                return None
            return cs, m
        widen_cases(ck, s, before, after, wexprs, wmeta)
        b = pipes(before, False)
        a2 = pipes(after, True)
        if b is None or a2 is None:
            ck.stat("infer", "unsupported-shape")
            continue
        cs, m = b
        e = "(run_query (list bool) (fun k => match k with [] => true | _ => false end) [] [%s] [%s])" % (
            "; ".join("(%d%%nat, [%s])" % (tid, "; ".join(r[0])) for tid, r in cs), "; ".join(m[0]))
        exprs.append(e)
        meta.append((s, a2))
    header = "From Coq Require Import List Bool.\nFrom PV Require Import Model.Sorts.\nImport ListNotations.\n"
    wvals = coq_eval(header, wexprs) if wexprs else []
    for (s, tid, sel_b, sel_a, local), v in zip(wmeta, wvals):
        sort_cols, widened, kept = v
        if not all(c in local for c in sort_cols):
            ck.stat("widen", "inherited-sorting-skipped")      # cids of an inherited sorting are redirected at the From: not modelled
            continue
        ck.count("widen", "%s|%d" % (s, tid))
        ck.stat("widen", "widened" if not kept else "unchanged")
        if list(widened) != sel_a:
            ck.disagreement("sort inference: the SELECT of CTE %d after post-processing differs from Model/Sorts.v select_after on %s" % (tid, s.replace("\n", " | ")[:200]),
                            {"prql": s, "tid": tid, "select_before": sel_b, "implementation": sel_a, "model": list(widened), "sort_cols": list(sort_cols)}, lambda c: None)
    vals = coq_eval(header, exprs) if exprs else []
    for (s, (acs, am)), v in zip(meta, vals):
        ck.count("infer", s)
        mcs, mm = v
        want = [(tid, r[1]) for tid, r in acs] + [("main", am[1])]
        got = [(c[0], model_tokens(c[1])) for c in mcs] + [("main", model_tokens(mm))]
        if want != got:
            ck.disagreement("sort inference: implementation's post-processed PQ differs from Model/Sorts.v on %s" % s.replace("\n", " | ")[:200],
                            {"prql": s, "implementation": want, "model": got}, lambda c: None)


def widen_cases(ck, src, before, after, exprs, meta):
    """Tie for Sorts.widen / select_after: for every CTE that is one atomic pipeline, the first Select before post-processing,
    widened by the columns of the sorting the model computes for that CTE, vs the first Select after post-processing"""
    def aps(pq):
        out = []
        for c in pq.get("ctes", []):
            ap = None
            for v in c.get("kind", {}).values():
                if isinstance(v, dict) and "AtomicPipeline" in v:
                    ap = v["AtomicPipeline"]
            out.append((c["tid"], ap))
        return out
    bs, as_ = aps(before), aps(after)
    if [t for t, _ in bs] != [t for t, _ in as_] or any(ap is None for _, ap in bs):
        return
    items = []
    for tid, ap in bs:
        r = pq_items(ap, False, cid_keys)
        if r is None:
            return
        items.append((tid, r[0]))
    ctes = "[%s]" % "; ".join("(%d%%nat, [%s])" % (tid, "; ".join(it)) for tid, it in items)
    K = "(list (nat * bool))"
    for (tid, apb), (_, apa) in zip(bs, as_):
        first = lambda ap: next((t["Select"] for t in ap if isinstance(t, dict) and "Select" in t), None)
        sel_b, sel_a = first(apb), first(apa)
        if sel_b is None or sel_a is None:
            continue
        local = set()
        for t in apb:
            if isinstance(t, dict):
                for sk in (t.get("Sort") or []) if "Sort" in t else (t.get("Take", {}).get("sort") or []) if "Take" in t else []:
                    local.add(sk["column"])
        sel = "[%s]" % "; ".join("%d%%nat" % c for c in sel_b)
        exprs.append("(let cs := fst (run_ctes %s (fun k => match k with [] => true | _ => false end) [] [] %s) in "
                     "let sc := map fst (sorting %s (lookup %s [] cs %d%%nat)) in (sc, select_after false %s sc, arity_kept false %s sc))" % (K, ctes, K, K, tid, sel, sel))
        meta.append((src, tid, sel_b, sel_a, local))


def cid_stream(ck, srcs):
    """Tie for the cid-level inference of Model/Sorts.v (Section Cid): the hook verif:infer_sorts (/repo commit 366a622) logs
    the query and the slice of the context sort inference reads, at entry and at exit.  The model is run on the entry state; compared
    with the exit state: every emitted Sort (column ids and directions) and every Select of every CTE and of the main relation (but
    the ids of the main relation's final ORDER BY as alias_last_sorting + the last redirect re-target them), the cid_redirects
    of every relation instance, and the id generator."""
    PRE = "verif:infer_sorts "
    ans = harness("log", [{"src": s, "target": "sql.sqlite", "want": [], "msg_prefix": PRE.strip()} for s in srcs])
    exprs, meta = [], []
    seen, okc = False, 0

    def key(k):
        return "[" + "; ".join("(%d%%nat, %s)" % (c, "true" if d else "false") for c, d in k) + "]"

    def items(p):
        out = []
        for t in p:
            if isinstance(t, str):
                out.append("CReset" if t in ("Distinct",) else "COther")
                continue
            (n, v), = t.items()
            if n == "From":
                if "ref" not in v:
                    return None
                out.append("CFrom %d%%nat %d%%nat" % (v["ref"], v["riid"]))
            elif n == "Join":
                out.append("CJoin")
            elif n == "Select":
                out.append("CSelect [%s]" % "; ".join("%d%%nat" % c for c in v))
            elif n == "Sort":
                out.append("CSort %s" % key(v))
            elif n == "Take":
                out.append("CTake %s %s" % ("true" if not v["partition"] else "false", key(v["sort"])))
            elif n == "DistinctOn":
                out.append("CDistinctOn")
            elif n == "Aggregate":
                out.append("CReset")
            else:
                out.append("COther")
        return out

    def shape(p):
        """what is compared of a pipeline: Sorts (ids + directions), Selects, and the kinds in between"""
        out = []
        for t in p:
            if isinstance(t, str):
                out.append(t if t not in ("Filter",) else "Other")
                continue
            (n, v), = t.items()
            if n == "Sort":
                out.append(("Sort", [(c, bool(d)) for c, d in v]))
            elif n == "Select":
                out.append(("Select", list(v)))
            else:
                out.append(n)
        return out

    def mshape(v):
        out = []
        for it in v:
            if isinstance(it, tuple):
                if it[0] == "CSort":
                    out.append(("Sort", [(c, bool(d)) for c, d in it[1]]))
                elif it[0] == "CSelect":
                    out.append(("Select", list(it[1])))
                elif it[0] == "CFrom":
                    out.append("From")
                elif it[0] == "CTake":
                    out.append("Take")
            else:
                out.append({"CReset": "Reset", "CJoin": "Join", "CDistinctOn": "DistinctOn", "COther": "Other"}[it])
        return out

    def norm(sh):
        return [("Reset" if x in ("Distinct", "Aggregate") else "Other" if isinstance(x, str) and x not in ("From", "Join", "Take", "DistinctOn", "Reset") else x) for x in sh]
    for src, a in zip(srcs, ans):
        if "ok" in a:
            okc += 1
        ph = {}
        for e in a.get("entries", []):
            m = e.get("Message") or ""
            if m.startswith(PRE):
                seen = True
                d = json.loads(m[len(PRE):])
                ph[d["phase"]] = d
        if "entry" not in ph or "exit" not in ph:
            continue
        en, ex = ph["entry"], ph["exit"]
        q = en["query"]
        ctes = []
        bad = False
        for c in q["ctes"]:
            if "normal" not in c or c["normal"] is None:
                bad = True
                break
            it = items(c["normal"])
            if it is None:
                bad = True
                break
            ctes.append((c["tid"], it))
        mi = items(q["main"]) if isinstance(q["main"], list) else None
        if bad or mi is None:
            ck.stat("cid", "unsupported-shape")
            continue
        insts = "[%s]" % "; ".join("(%d%%nat, %d%%nat)" % (i["riid"], i["source"]) for i in en["ctx"]["relation_instances"])
        rds = "[%s]" % "; ".join("(%d%%nat, [%s])" % (i["riid"], "; ".join("(%d%%nat, %d%%nat)" % (s_, t_) for s_, t_ in i["redirects"])) for i in en["ctx"]["relation_instances"])
        # alias_last_sorting reads the declarations as they are AFTER the CTEs were folded (the added columns have declarations
        # by then): taken from the exit state; redirects and everything else are the model's own
        decls = "[%s]" % "; ".join(
            "(%d%%nat, %s)" % (dc["cid"], ("DRel %d%%nat %d%%nat" % (dc["riid"], dc["col"])) if "riid" in dc else
                               ("DCompute %s" % ("None" if dc.get("column_ref") is None else "(Some %d%%nat)" % dc["column_ref"])))
            for dc in sorted(ex["ctx"]["column_decls"], key=lambda x: x["cid"]))
        main_sel = next((t["Select"] for t in reversed(q["main"]) if isinstance(t, dict) and "Select" in t), [])
        from_riid = next((t["From"]["riid"] for t in q["main"] if isinstance(t, dict) and "From" in t), 0)
        exprs.append("(let '(cs, os, o, fin) := fold_query %s %s %d%%nat [%s] [%s] in ((os, o), (alias_last_sorting 50 %s (cs_rds cs) [%s] %d%%nat fin, (cs_rds cs, cs_next cs))))" % (
            insts, rds, en["ctx"]["next_cid"], "; ".join("(%d%%nat, [%s])" % (tid, "; ".join(it)) for tid, it in ctes), "; ".join(mi),
            decls, "; ".join("%d%%nat" % c for c in main_sel), from_riid))
        meta.append((src, en, ex))
    if okc and not seen:
        ck.violation("no verif:infer_sorts line in any of %d successful compiles: the hook of infer_sorts is missing" % okc, {"kind": "cid-hook-missing"}, no_input=True)
        return
    header = "From Coq Require Import List Bool Arith.\nFrom PV Require Import Model.Sorts.\nImport ListNotations.\n"
    vals = coq_eval(header, exprs) if exprs else []
    agree = 0
    for (src, en, ex), v in zip(meta, vals):
        os, o, (fin, (mrds, mnext)) = v
        ck.count("cid", src)
        problems = []
        xq = ex["query"]
        for (tid, mo), xc in zip(os, xq["ctes"]):
            if norm(mshape(mo)) != norm(shape(xc["normal"])):
                problems.append("CTE %d" % tid)
        xm = shape(xq["main"])
        if not xm or not (isinstance(xm[-1], tuple) and xm[-1][0] == "Sort"):
            problems.append("main relation has no final Sort")
        else:
            if norm(mshape(o)) != norm(xm[:-1]):
                problems.append("main relation")
            if [(c, bool(d)) for c, d in fin] != xm[-1][1]:
                problems.append("final ORDER BY (alias_last_sorting): model %s, implementation %s" % ([(c, bool(d)) for c, d in fin], xm[-1][1]))
        xr = {i["riid"]: sorted(map(tuple, i["redirects"])) for i in ex["ctx"]["relation_instances"]}
        mr = {r: sorted(map(tuple, rd)) for r, rd in mrds}
        if {k: v_ for k, v_ in xr.items() if v_} != {k: v_ for k, v_ in mr.items() if v_}:
            problems.append("cid_redirects")
        if mnext != ex["ctx"]["next_cid"]:
            problems.append("id generator (%d vs %d)" % (mnext, ex["ctx"]["next_cid"]))
        inherited = any(isinstance(x, tuple) and x[0] == "CFrom" and any(t == x[1] for t, _ in os) for _, mo in os for x in mo) or bool(os)
        ck.stat("cid", "with-ctes" if os else "no-cte")
        if mnext != en["ctx"]["next_cid"]:
            ck.stat("cid", "widening-added-columns")
        if problems:
            ck.disagreement("sort inference differs from the cid-level model of Model/Sorts.v (%s) on %s" % (", ".join(problems), src.replace("\n", " | ")[:200]),
                            {"prql": src, "model": str(v)[:700], "exit": json.dumps(ex["query"])[:700], "exit_redirects": xr, "exit_next": ex["ctx"]["next_cid"]}, lambda c: None)
        else:
            agree += 1
    ck.coverage["cid_programs"] = len(meta)
    ck.coverage["cid_agree"] = agree


def flatten_items(pg):
    """abstract program -> Coq `list (pitem (list bool))` (Model/Flatten.v); None when a shape is not modelled"""
    def k(keys):
        return "[" + "; ".join("true" if d else "false" for d, _ in keys) + "]"
    items = []
    for st in pg.steps:
        kd = st.kind
        if st.info.get("flat"):
            items.append(st.info["flat"])          # hand-built step: its shape is given
        elif kd == "sort":
            items.append("PSort %s" % k(st.info["keys"]))
        elif kd == "take":
            items.append("PTake")
        elif kd == "win":
            items.append("PWindow [PWin]" if st.info.get("frame") else "PWin")
        elif kd == "group_take":
            items.append("PGroup %d [PSort %s; PTake]" % (len(st.info["by"]), k(st.info["keys"])))
        elif kd == "group_win":
            items.append("PGroup %d [PSort %s; PWin]" % (len(st.info["by"]), k(st.info["keys"])))
        elif kd == "group_agg":
            items.append("PGroup %d [PAgg]" % len(st.info["by"]))
        elif kd == "distinct":
            items.append("PGroup %d [PTake]" % st.info["nkeys"])
        elif kd == "join" and st.info.get("rsub"):
            items.append("PSub [PSort %s]" % k(st.info["rsub"]))
        elif kd in ("join", "append", "knownjoin"):
            items.append("PSub []")
        elif kd == "aggregate":
            items.append("PAgg")
        elif kd in ("derive", "filter", "select", "exclude"):
            items.append("POther")
        else:
            return None
    return "[" + "; ".join(items) + "]"


def rq_tokens(rq):
    """order-sensitive transforms of the main pipeline of the implementation's RQ"""
    rel = rq.get("relation", {}).get("kind", {})
    if "Pipeline" not in rel:
        return None
    def d(sorts):
        return [s["direction"] == "Desc" for s in sorts]
    out = []
    for t in rel["Pipeline"]:
        if not isinstance(t, dict):
            continue
        (n, v), = t.items()
        if n == "Sort":
            out.append(("OSort", d(v)))
        elif n == "Take":
            out.append(("OTake", len(v.get("partition") or []), d(v.get("sort", []))))
        elif n == "Compute" and v.get("window") is not None:
            w = v["window"]
            out.append(("OWin", len(w.get("partition") or []), d(w.get("sort", []))))
    return out


class FlatShapes:
    """random nested pipelines for the Flattener tie: sorts, takes, windowed computes, aggregates (outside of groups, and
    inside group bodies -- last or not), groups (empty / non-empty key, nested), window bodies, relational arguments.
    Only the resolver runs on them (RQ), nothing is executed: every aggregate re-defines the columns it consumes, so
    any transform can follow any other."""
    COLS = ["id", "a", "b", "c", "g"]

    def __init__(self, rng):
        self.r, self.n = rng, 0

    def fresh(self):
        self.n += 1
        return "y%d" % self.n

    def keys(self, avail):
        r = self.r
        return [(r.random() < 0.5, c) for c in r.sample(avail, min(len(avail), r.choice([1, 1, 2])))]

    def body(self, depth, gkeys, in_window, n=None):
        """-> (coq items, prql steps); gkeys = group keys of the enclosing groups: inside the body they are not
        columns of the chunk (not aggregated again, not referenced)"""
        r = self.r
        avail = [c for c in self.COLS if c not in gkeys]
        items, steps = [], []
        want = n or r.randint(1, 4 if depth else 6)
        tries = 0
        while len(items) < want and tries < 40:
            tries += 1
            k = r.random()
            if k < 0.22:
                ks = self.keys(avail)
                items.append("PSort [%s]" % "; ".join("true" if d else "false" for d, _ in ks))
                steps.append("sort {%s}" % ", ".join(("-" if d else "") + c for d, c in ks))
            elif k < 0.38:
                items.append("PTake")
                steps.append("take %d" % r.randint(1, 3))
            elif k < 0.52:
                items.append("PWin")
                steps.append("derive {%s = %s %s}" % (self.fresh(), r.choice(["lag 1", "lead 1", "sum", "min"]), r.choice(avail[1:] or avail)))
            elif k < 0.64:
                items.append("POther")
                steps.append(r.choice(["filter id != 99", "derive {%s = id + 1}" % self.fresh(), "select {%s}" % ", ".join(avail)]))
            elif k < 0.74 and not in_window:
                items.append("PAgg")
                steps.append("aggregate {%s}" % ", ".join("%s = %s %s" % (c, r.choice(["min", "max"]), c) for c in avail))
            elif k < 0.88 and depth < 2 and not in_window:
                cand = [c for c in (["a", "g"] if depth == 0 else ["b", "c"]) if c not in gkeys]
                by = [] if r.random() < 0.2 else r.sample(cand, r.choice([1, 1, 2]))
                bi, bs = self.body(depth + 1, gkeys + by, False)
                items.append("PGroup %d [%s]" % (len(by), "; ".join(bi)))
                steps.append("group {%s} (%s)" % (", ".join(by), " | ".join(bs)))
            elif k < 0.95 and depth < 2:
                bi, bs = self.body(depth + 1, gkeys, True, n=r.randint(1, 2))
                items.append("PWindow [%s]" % "; ".join(bi))
                steps.append("window %s (%s)" % (r.choice(["rolling:2", "rows:-1..1", "expanding:true"]), " | ".join(bs)))
            elif depth == 0:
                items += ["POther", "PSub []"]
                steps += ["select {id, a, b, c, g}", "append (from t | select {id, a, b, c, g} | sort {-a, id} | take 4)"]
        return items, steps

    def case(self):
        items, steps = self.body(0, [], False)
        return "from t | select {id, a, b, c, g} | " + " | ".join(steps), "[POther; %s]" % "; ".join(items)


def flatten_stream(ck, programs, shapes=()):
    """Tie B for Model/Flatten.v: the sorts the resolver hands to takes / windowed computes, their partitions, and which
    Sort transforms survive, in the implementation's RQ vs the model run on the abstract program.
    programs: generated Programs; shapes: (prql text, coq item list) pairs of the FlatShapes family"""
    cand = [(pg.prql(), flatten_items(pg)) for pg in programs if not pg.meta.get("let_at")]
    cand = [(src, it) for src, it in cand if it is not None] + list(shapes)
    ans = harness("rq", [{"src": src} for src, _ in cand])
    exprs, meta = [], []
    for (src, it), a in zip(cand, ans):
        if "ok" not in a:
            ck.stat("flatten", "not-resolved")
            continue
        toks = rq_tokens(a["ok"])
        if toks is None:
            ck.stat("flatten", "no-main-pipeline")
            continue
        exprs.append("(fst (flat (list bool) [] 200 false None [] %s), (fst (carried_spec (list bool) [] 200 None [] %s), tame_nest (list bool) 200 None %s))" % (it, it, it))
        meta.append((src, it, toks))
    header = "From Coq Require Import List Bool.\nFrom PV Require Import Model.Flatten.\nImport ListNotations.\n"
    vals = coq_eval(header, exprs) if exprs else []
    for (src, it, toks), (v, (spec, tame_n)) in zip(meta, vals):
        ck.count("flatten", src)
        ck.stat("flatten", "tame" if tame_n else "not-tame")
        for tag in ("PAgg", "PGroup", "PWindow", "PSub"):
            if tag in it:
                ck.stat("flatten", "has:" + tag)
        if not tame_n:
            ck.stat("flatten", "has:group-nested-in-nonempty-group")
        got = []
        for o in v:
            if o[0] == "OSort":
                got.append(("OSort", list(o[1])))
            else:
                got.append((o[0], o[1], list(o[2])))
        if got != toks:
            ck.disagreement("flattener: the sorts carried in the implementation's RQ differ from Model/Flatten.v on %s" % src.replace("\n", " | ")[:220],
                            {"prql": src, "items": it, "implementation_rq": toks, "model": got}, lambda c: None)
        # implementation vs SPECIFICATION (carried_spec: the order in effect at every take / windowed compute).  Inside the
        # class `tame` this follows from the comparison above (c03_flattener_carries_order_in_effect_partial); outside of it
        # it is finding F45 (a group nested in a group with a non-empty key); F44 (an aggregate inside a group body did not
        # end the sort) is FIXED by f809321 and excuses nothing
        carried = [(t[1], t[2]) for t in toks if t[0] != "OSort"]
        want = [(pb, list(k)) for pb, k in spec]
        if carried != want:
            ck.disagreement("flattener: a take / window function is handed a sort that is not the order in effect at its position: %s" % src.replace("\n", " | ")[:220],
                            {"prql": src, "items": it, "implementation_rq": toks, "specification": want},
                            lambda c, n=tame_n: ("F45-nested-group-partition" if not n else None))


def main_order_by(sql):
    """does the outermost query end with an ORDER BY at parenthesis depth 0?"""
    depth = 0
    last_select = -1
    i = 0
    order = False
    up = sql
    while i < len(up):
        ch = up[i]
        if ch == "'":
            j = up.find("'", i + 1)
            while j >= 0 and up[j + 1:j + 2] == "'":
                j = up.find("'", j + 2)
            i = (j if j >= 0 else len(up)) + 1
            continue
        if ch == "(":
            depth += 1
        elif ch == ")":
            depth -= 1
        elif depth == 0 and up.startswith("SELECT ", i):
            last_select = i
            order = False
        elif depth == 0 and up.startswith(" ORDER BY ", i):
            order = True
        i += 1
    return order


def judge_order(rec):
    v = rec["verdict"]
    pg = rec["program"]
    if v in ("names",):
        v = "ok"
    if v == "rows" and not pg.ordered and R.rows_equal(rec["sqlite_rows"], rec["model_rows"], ordered=False):
        v = "ok"
    if v in ("ok", "rows") and "sqlite_rows" in rec:
        rows, mrows = rec["sqlite_rows"], rec["model_rows"]
        if pg.ordered:
            if not R.rows_equal(rows, mrows, ordered=True):
                if R.rows_equal(rows, mrows, ordered=False):
                    return "rows are right but their ORDER differs from the sort in effect"
                return "result rows differ (take by position, or values)"
            if rows and len(rows) > 1 and not main_order_by(rec.get("sql", "")):
                return "an order is in effect but the main query has no ORDER BY (order only incidental)"
            return None
        kp = pg.meta.get("key_pos")
        if kp and R.rows_equal(rows, mrows, ordered=False):
            # ties allowed: the sequence of key tuples must be the model's
            a = [tuple(R.key([r[p]])[0] for p, _ in kp) for r in rows]
            b = [tuple(R.key([r[p]])[0] for p, _ in kp) for r in mrows]
            if pg.meta.get("outer_right"):
                # rows of a right/full join without a left partner have NULL left keys: no position is specified for them
                a = [k for k in a if (0, 0) not in k]
                b = [k for k in b if (0, 0) not in k]
            if a != b:
                return "rows are right but the sort keys are not in the order in effect (ties aside)"
            if rows and len(set(a)) > 1 and not main_order_by(rec.get("sql", "")):
                return "an order is in effect but the main query has no ORDER BY (order only incidental)"
            return None
        if v == "rows":
            return "result rows differ from the pipeline's meaning"
        return None
    if v == "sql-err":
        return "emitted SQL does not execute: %s" % str(rec.get("sqlite"))[:200]
    if v == "panic":
        return "compiler panicked: %s" % str(rec.get("compile"))[:200]
    if v == "compile-err":
        return "well-scoped program rejected: %s" % str([e.get("reason") for e in rec["compile"].get("err", [])])[:300]
    return None


def selfjoin_program(rng):
    """a sorted let-bound relation whose sort columns are dropped by its select, referenced twice (self-join): the
    order must be that of the LEFT reference, whatever the compiler does to carry the sort column out of the CTE"""
    n = P.nid
    cols = ["a", "c", "g"]
    # `a` is made unique in the instances of this family, so {±a, ..} is a total order although `id` is not a key
    ks = [(rng.random() < 0.5, "a")] + [(rng.random() < 0.5, c) for c in rng.sample(["c", "g"], rng.choice([0, 1]))]
    if rng.random() < 0.3:
        ks = ks + [(rng.random() < 0.4, rng.choice(["id", "b"]))]     # a sort column that is kept (known finding C07-N1)
    side = rng.choice(["LeftJ", "LeftJ", "Inner"])
    tk = rng.choice([None, None, (None, 3), (2, 4)])
    ktxt = ", ".join(("-" if d else "") + c for d, c in ks)
    lines = ["let s = (", "from t", "sort {%s}" % ktxt, "select {id, b}", ")", "from s",
             "join %ss2=s (s.b == s2.id)" % ("side:left " if side == "LeftJ" else ""), "select {s.id, s.b, k = s2.b}"]
    tail = []
    if tk:
        lines.append("take %s" % (str(tk[1]) if tk[0] is None else "%d..%d" % tk))
        tail.append("TTake %s (Some (%d))" % ("None" if tk[0] is None else "(Some (%d))" % tk[0], tk[1]))
        if rng.random() < 0.6:
            lines.append("filter id != 99")
            tail.append("TFilter (EBin Ne (ECol None %d%%N) (ELit (VInt 99)))" % n("id"))
    S, S2 = n("t"), n("u")     # qualifier tokens of the two references
    ckeys = "[" + "; ".join("(%s, ECol None %d%%N)" % ("true" if d else "false", n(c)) for d, c in ks) + "]"

    def model(inst):
        base = P.coq_rel("t", inst["t"], "(Some %d%%N)" % n("t"), P.inst_cols(inst, "t"))
        steps = ["TJoin %s %d%%N [%d%%N; %d%%N] p (EBin Eq (ECol (Some %d%%N) %d%%N) (ECol (Some %d%%N) %d%%N))" % (side, S2, n("id"), n("b"), S, n("b"), S2, n("id")),
                 "TSelect [(None, ECol (Some %d%%N) %d%%N); (None, ECol (Some %d%%N) %d%%N); (Some %d%%N, ECol (Some %d%%N) %d%%N)]" % (S, n("id"), S, n("b"), n("k"), S2, n("b"))] + tail
        return ("(let p := run %s [TSort %s; TSelect [(None, ECol None %d%%N); (None, ECol None %d%%N)]] in "
                "let r := run (map (requalify %d%%N) p) [%s] in (show r, names r))" % (base, ckeys, n("id"), n("b"), S, "; ".join(steps)))
    kinds = ["sort", "select", "join", "select"] + (["take"] if tk else []) + (["filter"] if len(tail) == 2 else [])
    return P.RawProgram(kinds, "\n".join(lines), model, True, ["id", "b", "k"], {"let_at": 2, "selfjoin": True})


def permuted(rng, inst):
    out = {}
    for t, rows in inst.items():
        rows = list(rows)
        rng.shuffle(rows)
        out[t] = rows
    return out


def run():
    ck = Check("C03", level="proof")
    pr = ck.prove()
    broken = not pr["ok"]
    rng = ck.rng
    targets = ("sql.sqlite", "sql.generic")
    weights = {"sort": 4.0, "take": 3.5, "select": 2.2, "derive": 1.6, "filter": 2.0, "join": 2.0, "aggregate": 0.4, "group_agg": 0.6,
               "group_take": 0.9, "group_win": 0.6, "win": 0.8, "distinct": 0.4, "append": 0.1}
    g = P.Gen(rng, weights=weights, max_steps=8, lets=0.3, rsub=0.4)
    cases = []
    # directed: sort followed by every kind, then a take; sort on a computed / later-dropped column
    for k in E.KINDS:
        for _ in range(ck.n(2, 8) * (3 if broken else 1)):
            pg = g.program(n_steps=3 + rng.randint(0, 2), force=["sort", k, "take"] if rng.random() < 0.6 else ["sort", k])
            inst = P.gen_instance(rng, max_rows=7, min_rows=4)
            cases.append((pg, [inst, permuted(rng, inst)]))
    # any number of sub-queries: repeated sort|take blocks (each forces a split) followed by every kind
    for k in E.KINDS:
        for _ in range(ck.n(1, 4) * (3 if broken else 1)):
            pg = g.program(n_steps=5 + rng.randint(0, 1), force=["sort", "take", "sort", "take", k])
            inst = P.gen_instance(rng, max_rows=7, min_rows=5)
            cases.append((pg, [inst, permuted(rng, inst)]))
    # a join between the sort and the take (the left input's order must survive the join)
    for _ in range(ck.n(24, 120) * (3 if broken else 1)):
        pg = g.program(n_steps=4 + rng.randint(0, 2), force=["sort", "join", "take", rng.choice(["group_agg", "filter", "derive", "select", "aggregate"])])
        inst = P.gen_instance(rng, max_rows=7, min_rows=5)
        cases.append((pg, [inst, permuted(rng, inst)]))
    # the join's relational argument is a sorted pipeline of its own: its sort must not reach the outer take
    # (which lands in a CTE because of what follows it)
    for _ in range(ck.n(24, 120) * (3 if broken else 1)):
        g.rsub = 1.0
        pg = g.program(n_steps=4 + rng.randint(0, 1), force=["sort", "join", "take", rng.choice(["filter", "derive", "group_agg", "select"])])
        g.rsub = 0.4
        inst = P.gen_instance(rng, max_rows=7, min_rows=5)
        cases.append((pg, [inst, permuted(rng, inst)]))
    # sort | join | take | select (unique names) | group: the take's own sort is the only carrier of the order
    for _ in range(ck.n(30, 150) * (3 if broken else 1)):
        pg = g.program(n_steps=5 + rng.randint(0, 1), force=["sort", "join", "take", "select", rng.choice(["group_agg", "aggregate", "distinct"])])
        inst = P.gen_instance(rng, max_rows=7, min_rows=5)
        cases.append((pg, [inst, permuted(rng, inst)]))
    # a named prefix ending in a sort, then another sort | take | group: the CTE's sorting must not override the take's
    for _ in range(ck.n(30, 150) * (3 if broken else 1)):
        pg = g.program(n_steps=4 + rng.randint(0, 1), force=["sort", "sort", "take", rng.choice(["group_agg", "aggregate", "group_take", "filter"])])
        if [x.kind for x in pg.steps[:2]] == ["sort", "sort"] and not any(x.kind in ("join", "append") for x in pg.steps):
            pg.meta["let_at"] = 1
        inst = P.gen_instance(rng, max_rows=7, min_rows=5)
        cases.append((pg, [inst, permuted(rng, inst)]))
    # a sorted let-bound relation referenced twice
    for _ in range(ck.n(24, 160) * (3 if broken else 1)):
        inst = P.gen_instance(rng, max_rows=7, min_rows=5)
        ai = P.TABLES["t"].index("a")
        vals = rng.sample(range(-3, 12), len(inst["t"]))
        inst["t"] = [r[:ai] + [v] + r[ai + 1:] for r, v in zip((list(x) for x in inst["t"]), vals)]
        cases.append((selfjoin_program(rng), [inst, permuted(rng, inst)]))
    # consecutive takes (they share one SELECT: composed into ONE LIMIT/OFFSET by range_of_ranges), systematically: every
    # ordered pair of 12 representative ranges, and sampled triples, executed on 7 rows under a total order
    RANGES = [(None, 1), (None, 2), (None, 3), (None, 4), (1, None), (2, None), (3, None), (1, 2), (2, 3), (2, 4), (3, 3), (3, 5)]

    def take_step(rg):
        s_, e_ = rg
        txt = "take %d" % e_ if s_ is None else "take %d..%s" % (s_, "" if e_ is None else e_)
        return P.Step("take", txt, "TTake %s %s" % ("None" if s_ is None else "(Some (%d))" % s_, "None" if e_ is None else "(Some (%d))" % e_), rng=rg)

    def takes_program(rgs, desc):
        key = [(desc, ("col", None, "id"))]
        steps = [P.Step("sort", "sort %s" % P.prql_keys(key), "TSort %s" % P.coq_keys(key), keys=key)] + [take_step(r) for r in rgs]
        names = list(P.TABLES["t"])
        steps.append(P.Step("select", "select {%s}" % ", ".join(names), "TSelect [%s]" % "; ".join("(None, ECol None %d%%N)" % P.nid(c) for c in names), final=True))
        return P.Program(steps, True, names, {"order": key, "key_pos": [(0, desc)]})
    seqs = [[a, b] for a in RANGES for b in RANGES]
    trip = [[a, b, c] for a in RANGES for b in RANGES for c in RANGES]
    rng.shuffle(trip)
    seqs += trip[: ck.n(40, 600)]
    inst7 = P.gen_instance(rng, max_rows=7, min_rows=7)
    for sq in seqs:
        cases.append((takes_program(sq, rng.random() < 0.3), [inst7]))
    # a group nested in a group (F45), by the generator
    for _ in range(ck.n(12, 80) * (3 if broken else 1)):
        pg = g.program(n_steps=2 + rng.randint(0, 2), force=["sort", "nested_group"])
        inst = P.gen_instance(rng, max_rows=7, min_rows=5)
        cases.append((pg, [inst, permuted(rng, inst)]))
    # one hand-built program per open finding the random streams seldom hit
    for _fid, pg, inst in E.directed_known(rng):
        inst = inst or P.gen_instance(rng, max_rows=7, min_rows=5)
        cases.append((pg, [inst, permuted(rng, inst)]))
    for _lbl, pg in E.directed_fixed():          # replays of repaired findings: nothing excuses a recurrence
        inst = pg.meta.get("instance") or P.gen_instance(rng, max_rows=7, min_rows=5)
        cases.append((pg, [inst, permuted(rng, inst)]))
    for _ in range(ck.n(260, 4000) * (3 if broken else 1)):
        pg = g.program()
        inst = P.gen_instance(rng, max_rows=7, min_rows=3)
        cases.append((pg, [inst, permuted(rng, inst)]))
    recs = E.run_stream(ck, "order", cases, targets, judge_order, E.classify_common)
    nord = len({r["prql"] for r in recs if r["program"].ordered})
    nkeys = len({r["prql"] for r in recs if (not r["program"].ordered) and r["program"].meta.get("key_pos")})
    ck.coverage["programs_with_unique_order"] = nord
    ck.coverage["programs_with_tied_order_checked_by_keys"] = nkeys
    srcs = sorted({r["prql"] for r in recs if "sql" in r})
    infer_stream(ck, srcs)
    cid_stream(ck, srcs)
    seenp, progs = set(), []
    for pg, _ in cases:
        if pg.prql() not in seenp:
            seenp.add(pg.prql())
            progs.append(pg)
    fs = FlatShapes(rng)
    flatten_stream(ck, progs, [fs.case() for _ in range(ck.n(250, 2500) * (3 if broken else 1))])

    ck.proof_broken_violation(found_input=bool(ck.violations))
    ck.assumptions += ["each ordered program runs on two insertion orders of the same rows, so an order that is only incidental on one of them shows",
                       "positional transforms are only generated while the order in effect ends in a unique key (documented meaning deterministic); ties are checked through the key columns when they survive to the result",
                       "a syntactic clause accompanies execution: when an order is in effect and more than one row is returned, the outermost query must carry an ORDER BY"]
    ck.finish(TRUSTED, "streams: order = sort followed by each of 13 transform kinds (directed) + random pipelines weighted towards sort/take/select/join, each on 2 insertion orders x {sqlite, generic}, compared as sequences; infer = Model/Sorts.v run on the implementation's pre-postprocess PQ vs its post-processed PQ for every distinct program; cid = the cid-level inference of Model/Sorts.v run on the entry state logged by the hook verif:infer_sorts vs the exit state (every emitted Sort with its column ids, every Select, the cid_redirects of every relation instance, the id generator); flatten = Model/Flatten.v (and its specification carried_spec) vs the order-sensitive transforms of the implementation's RQ for every generated program + random nested shapes (groups in groups, window bodies, aggregates inside and outside of groups, relational arguments). distinct = hash of (program, target, instance); non-trivial = non-empty result or a failure")

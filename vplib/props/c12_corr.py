"""C12: model / implementation correspondence runs for the functions repaired since b55902d
(Model/RangeArith.v id_load, frame_bounds, static_neg) and the directed regression cases of the fixed findings.
Every function takes the Check and reports through ck.count / ck.stat / ck.violation."""
import copy
import json
import re

from ..common import coq_eval, harness
from .c12_run import probe

I64MAX = 9223372036854775807
I64MIN = -I64MAX - 1
USIZE_MAX = 18446744073709551615
ID_LIMIT = USIZE_MAX // 2

HEADER = ("From Coq Require Import List ZArith.\nFrom PV Require Import Model.Checked Model.RangeArith.\n"
          "Import ListNotations.\nLocal Open Scope Z_scope.\n")


def zlist(xs):
    return "[" + "; ".join("(%d)" % x for x in xs) + "]"


def model_eval(ck, exprs):
    try:
        return coq_eval(HEADER, exprs)
    except RuntimeError as ex:
        ck.coverage["model_eval_error"] = str(ex)[-400:]
        return None


# ----------------------------------------------------------------------------- IdGenerator::load
ID_VALUES = [0, 1, 2, 3, 7, 2 ** 31, 2 ** 62, ID_LIMIT - 1, ID_LIMIT, ID_LIMIT + 1, ID_LIMIT + 2, 2 ** 63 + 2 ** 62, USIZE_MAX - 1, USIZE_MAX]


def rename_ids(doc, cmap, tmap):
    """consistent renaming of the column ids and table ids of an RQ (as JSON) of the shape prqlc emits for
    `from t | select {..} | take n`: From.columns[i][1], Select, tables[i].id, From.source"""
    d = copy.deepcopy(doc)
    cids, tids = [], []
    for t in d["tables"]:
        t["id"] = tmap.get(t["id"], t["id"])
        tids.append(t["id"])
    for tr in d["relation"]["kind"]["Pipeline"]:
        if "From" in tr:
            tr["From"]["source"] = tmap.get(tr["From"]["source"], tr["From"]["source"])
            for col in tr["From"]["columns"]:
                col[1] = cmap.get(col[1], col[1])
                cids.append(col[1])
        elif "Select" in tr:
            tr["Select"] = [cmap.get(c, c) for c in tr["Select"]]
            cids += tr["Select"]
    return d, cids, tids


def id_correspondence(ck):
    """Model/RangeArith.v id_load vs rq_to_sql on an RQ whose column / table ids are renamed consistently
    (the query stays closed: only the magnitude of the ids changes): Ret <-> SQL, Fail <-> `id N is too large`."""
    rng = ck.rng
    base = harness("rq", [{"src": "from t | select {a, b} | take 5"}])[0]
    if "ok" not in base:
        ck.violation("cannot get the RQ of the id correspondence base program", {"answer": str(base)[:300], "kind": "correspondence"})
        return
    base = base["ok"]
    cases = []
    for _ in range(ck.n(150, 1200)):
        low = [v for v in ID_VALUES if v <= ID_LIMIT]
        u = rng.random()
        vals = rng.sample(low, 3) if u < 0.4 else rng.sample(ID_VALUES, 3) if u < 0.8 else [rng.randrange(0, USIZE_MAX + 1) for _ in range(3)]
        if len(set(vals)) < 3:
            continue
        tid = rng.choice(low) if u < 0.4 else rng.choice(ID_VALUES) if rng.random() < 0.8 else rng.randrange(0, USIZE_MAX + 1)
        cases.append((tuple(vals), tid))
    # the recorded witnesses of C12-N6 first
    cases = [((0, 1, 2), USIZE_MAX), ((USIZE_MAX, 1, 2), 0), ((0, 1, USIZE_MAX - 1), 0), ((0, 1, ID_LIMIT), ID_LIMIT), ((0, 1, ID_LIMIT + 1), 0)] + cases
    cases = list(dict.fromkeys(cases))
    docs = [rename_ids(base, dict(zip((0, 1, 2), vals)), {0: tid}) for vals, tid in cases]
    reqs = [{"entry": "json_rq", "src": json.dumps(d), "stack_mb": 64, "target": "sql.generic"} for d, _, _ in docs]
    impl = probe(reqs, cap_ms=20000)
    exprs = []
    for _, cids, tids in docs:
        exprs.append("(id_load 0 %s, id_load 0 %s)" % (zlist(cids), zlist(tids)))
    model = model_eval(ck, exprs)
    for i, ((vals, tid), a) in enumerate(zip(cases, impl)):
        ck.count("corr-id-load", json.dumps([vals, tid]))
        r = a.get("r", a)
        if "ok" in r:
            got = "Ret"
        elif "err" in r and r["err"] and re.fullmatch(r"id \d+ is too large", r["err"][0].get("reason") or ""):
            got = "Fail"
        elif "panic" in r:
            got = "Panic"
        else:
            got = "Other:" + json.dumps(a)[:160]
        ck.stat("corr-id-load", "impl:" + got.split(":")[0])
        if model is None:
            if got not in ("Ret", "Fail"):
                ck.violation("rq_to_sql on an RQ with renamed ids %s / table id %s: %s" % (vals, tid, got),
                             {"cids": vals, "tid": tid, "src": reqs[i]["src"], "entry": "json_rq", "impl": got, "kind": "correspondence"})
            continue
        mc, mt = model[i]
        m = "Panic" if "Panic" in (mc, mt) else "Fail" if "Fail" in (mc, mt) else "Ret"
        if m != got:
            ck.violation("Model/RangeArith.v id_load differs from rq_to_sql on column ids %s / table id %s: model %s, impl %s" % (vals, tid, m, got),
                         {"cids": vals, "tid": tid, "src": reqs[i]["src"], "entry": "json_rq", "model": m, "impl": got, "kind": "correspondence"})


# ----------------------------------------------------------------------------- window frame bounds
FRAME_VALUES = [None, I64MIN, I64MIN + 1, -2 ** 62, -5, -1, 0, 1, 7, 2 ** 62, I64MAX - 1, I64MAX]
BOUND_RE = r"(UNBOUNDED PRECEDING|UNBOUNDED FOLLOWING|CURRENT ROW|\d+ PRECEDING|\d+ FOLLOWING)"
FRAME_RE = re.compile(r"OVER \((?:ORDER BY [A-Za-z_0-9\", .]+ )?(ROWS|RANGE) BETWEEN " + BOUND_RE + " AND " + BOUND_RE + r"\)")


def _windows(v):
    if isinstance(v, dict):
        if "frame" in v and isinstance(v["frame"], dict):
            yield v
        for x in v.values():
            yield from _windows(x)
    elif isinstance(v, list):
        for x in v:
            yield from _windows(x)


def _bound_text(mb, missing):
    """model fbound (parsed coq term) -> the SQL text of the bound"""
    if mb == "None":
        return missing
    b = mb[1]
    if b == "CurrentRow":
        return "CURRENT ROW"
    return "%d %s" % (b[1], "FOLLOWING" if b[0] == "Following" else "PRECEDING")


def frame_correspondence(ck):
    """Model/RangeArith.v frame_bounds vs rq_to_sql: the frame of a window function with integer-literal bounds
    (every sign, zero, i64::MIN / MAX, missing) fed through json_rq; the printed bounds must be the model's."""
    rng = ck.rng
    # exactly one sort key: since 91a6a23 a RANGE frame with a numeric offset needs one (translate_windowed, outside the model)
    base = harness("rq", [{"src": "from t | window rows:-1..1 (sort a | derive {s = sum b})"}])[0]
    if "ok" not in base or not list(_windows(base["ok"])):
        ck.violation("cannot get the RQ of the frame correspondence base program", {"answer": str(base)[:300], "kind": "correspondence"})
        return
    base = base["ok"]
    cases = [(s, e, k) for s in FRAME_VALUES for e in FRAME_VALUES for k in ("Rows", "Range")]
    if not ck.thorough:
        must = [c for c in cases if I64MIN in c[:2]]
        cases = must + rng.sample([c for c in cases if c not in must], 120)
    for _ in range(ck.n(40, 400)):
        cases.append((rng.randrange(I64MIN, I64MAX + 1), rng.randrange(I64MIN, I64MAX + 1), rng.choice(("Rows", "Range"))))
    cases = list(dict.fromkeys(cases))
    reqs = []
    lit = lambda v: None if v is None else {"kind": {"Literal": {"Integer": v}}, "span": None}
    for s, e, k in cases:
        d = copy.deepcopy(base)
        for w in _windows(d):
            w["frame"]["kind"] = k
            w["frame"]["range"]["start"] = lit(s)
            w["frame"]["range"]["end"] = lit(e)
        reqs.append({"entry": "json_rq", "src": json.dumps(d), "stack_mb": 64, "target": "sql.generic"})
    impl = probe(reqs, cap_ms=20000)
    ob = lambda v: "None" if v is None else "(Some (BInt (%d)))" % v
    model = model_eval(ck, ["frame_bounds (ERange %s %s)" % (ob(s), ob(e)) for s, e, _ in cases])
    for i, ((s, e, k), a) in enumerate(zip(cases, impl)):
        ck.count("corr-frame-bounds", json.dumps([s, e, k]))
        r = a.get("r", a)
        if "ok" in r:
            mm = FRAME_RE.search(r["ok"])
            if mm:
                got = ("Ret", mm.group(1), mm.group(2), mm.group(3))
            elif "BETWEEN" not in r["ok"] and s is None and (e is None or (e == 0 and k == "Range")):
                # (with a sort key, RANGE UNBOUNDED PRECEDING .. CURRENT ROW is SQL's default frame too)
                got = ("Ret", k.upper(), "UNBOUNDED PRECEDING", "UNBOUNDED FOLLOWING" if e is None else "CURRENT ROW")     # a default frame is not printed
            else:
                got = ("Shape", r["ok"][:200])
        elif "panic" in r:
            got = ("Panic", r["panic"].get("loc", ""), r["panic"].get("msg", "")[:80])
        elif "err" in r:
            got = ("Fail",)
        else:
            got = ("Other", json.dumps(a)[:160])
        ck.stat("corr-frame-bounds", "impl:" + got[0])
        if model is None:
            if got[0] not in ("Ret", "Fail"):
                ck.violation("rq_to_sql on a window frame %s..%s (%s): %s" % (s, e, k, got),
                             {"start": s, "end": e, "frame_kind": k, "src": reqs[i]["src"], "entry": "json_rq", "impl": str(got), "kind": "correspondence"})
            continue
        mv = model[i]
        if mv in ("Panic", "Fail"):
            m = (mv,)
        else:
            ms, me = mv[1]
            m = ("Ret", k.upper(), _bound_text(ms, "UNBOUNDED PRECEDING"), _bound_text(me, "UNBOUNDED FOLLOWING"))
        if m != got:
            ck.violation("Model/RangeArith.v frame_bounds differs from rq_to_sql on the frame %s..%s (%s): model %s, impl %s" % (s, e, k, m, got),
                         {"start": s, "end": e, "frame_kind": k, "src": reqs[i]["src"], "entry": "json_rq", "model": str(m), "impl": str(got), "kind": "correspondence"})


# ----------------------------------------------------------------------------- constant folding of std.neg
NEG_VALUES = [I64MIN, I64MIN + 1, I64MIN + 2, -2 ** 62, -7, -1, 0, 1, 5, 2 ** 53, 2 ** 62, I64MAX - 1, I64MAX]


def _computes(v):
    if isinstance(v, dict):
        if "Compute" in v and isinstance(v["Compute"], dict):
            yield v["Compute"]
        for x in v.values():
            yield from _computes(x)
    elif isinstance(v, list):
        for x in v:
            yield from _computes(x)


def neg_correspondence(ck):
    """Model/RangeArith.v static_neg vs the resolver: PL (as JSON) of `derive {x = -<literal>}` with the literal set
    to every interesting i64, lowered to RQ: folded to Literal(-v), or left as std.neg(Literal(v)) for i64::MIN."""
    rng = ck.rng
    base = harness("pl", [{"src": "from t | derive {x = -5}"}])[0]
    marker = '{"Literal": {"Integer": 5}'
    txt = json.dumps(base.get("ok"))
    if "ok" not in base or txt.count(marker) != 1 or '"op": "Neg"' not in txt:
        ck.violation("the PL of `from t | derive {x = -5}` no longer has the shape the negation correspondence edits", {"answer": txt[:400], "kind": "correspondence"})
        return
    vals = NEG_VALUES + [rng.randrange(I64MIN, I64MAX + 1) for _ in range(ck.n(40, 400))]
    vals = list(dict.fromkeys(vals))
    reqs = [{"entry": "json_pl_rq", "src": txt.replace(marker, '{"Literal": {"Integer": %d}' % v), "stack_mb": 64} for v in vals]
    impl = probe(reqs, cap_ms=20000)
    model = model_eval(ck, ["static_neg (%d)" % v for v in vals])
    for i, (v, a) in enumerate(zip(vals, impl)):
        ck.count("corr-static-neg", str(v))
        r = a.get("r", a)
        if "ok" in r:
            cs = list(_computes(r["ok"]))
            kind = cs[0]["expr"]["kind"] if len(cs) == 1 else None
            if isinstance(kind, dict) and "Literal" in kind and isinstance(kind["Literal"], dict) and "Integer" in kind["Literal"]:
                got = ("Ret", ("Some", kind["Literal"]["Integer"]))
            elif (isinstance(kind, dict) and "Operator" in kind and kind["Operator"].get("name") == "std.neg"
                  and [x.get("kind") for x in kind["Operator"].get("args", [])] == [{"Literal": {"Integer": v}}]):
                got = ("Ret", "None")
            else:
                got = ("Shape", json.dumps(kind)[:200])
        elif "panic" in r:
            got = ("Panic", r["panic"].get("loc", ""), r["panic"].get("msg", "")[:80])
        else:
            got = ("Other", json.dumps(a)[:160])
        ck.stat("corr-static-neg", "impl:" + got[0] + (":unevaluated" if got == ("Ret", "None") else ""))
        if model is None:
            if got[0] != "Ret":
                ck.violation("pl_to_rq on `-(%d)` (PL from JSON): %s" % (v, got), {"value": v, "src": reqs[i]["src"], "entry": "json_pl", "impl": str(got), "kind": "correspondence"})
            continue
        mv = model[i]
        m = (mv,) if mv in ("Panic", "Fail") else ("Ret", "None" if mv[1] == "None" else ("Some", mv[1][1]))
        if m != got:
            ck.violation("Model/RangeArith.v static_neg differs from the resolver on -(%d): model %s, impl %s" % (v, m, got),
                         {"value": v, "src": reqs[i]["src"], "entry": "json_pl", "model": str(m), "impl": str(got), "kind": "correspondence"})


# ----------------------------------------------------------------------------- directed cases of fixed / open findings
def directed_cases(ck):
    """(family, case dict) list: the replays of the findings fixed since b55902d (a recurrence is a VIOLATION: fixed
    findings classify nothing) and of the open finding C12-N14.  JSON documents are derived from what prqlc emits."""
    out = []

    def add(fam, entry, src, stack=64, **kw):
        out.append(dict({"entry": entry, "src": src, "stack_mb": stack, "family": fam, "prog": None}, **kw))

    # C12-H1 (e945e0b): unclosed parentheses, far beyond the depth at which the old parser hung (30)
    for d in ([30, 60, 200, 1000] if not ck.thorough else [30, 60, 200, 1000, 4000]):
        for e in ("pl", "fmt", "rq", "compile"):
            add("fixed:H1:%d" % d, e, "from t | derive x = " + "(" * d, **({"target": "sql.generic"} if e == "compile" else {}))
        add("fixed:H1:braces:%d" % d, "pl", "from t | select " + "{(" * d)
        add("fixed:H1:call:%d" % d, "pl", "from t | derive x = " + "(f (" * d)
        add("fixed:H1:pipe:%d" % d, "pl", "from t | derive x = " + "(a | (" * d)
        add("fixed:H1:coalesce:%d" % d, "pl", "from t | derive x = " + "(a ?? (" * d)
    # C12-H2 (c8b3817): nesting that no longer fits the line, beyond the depth at which the old formatter hung (30)
    h2 = {
        "pipe": lambda d: "from t | derive x = " + "(a | " * d + "b" + ")" * d,
        "case": lambda d: "from t | derive x = " + "case [true => " * d + "1" + "]" * d,
        "tuple": lambda d: "from t | select " + "{" * d + "a" + "}" * d,
        "array": lambda d: "from t | derive x = " + "[" * d + "1" + "]" * d,
        "group": lambda d: "from t | " + "group {a} (" * d + "take 1" + ")" * d,
        "call": lambda d: "from t | derive x = " + "(f " * d + "1" + ")" * d,
        "tuple-call": lambda d: "from t | select " + "{f (" * d + "a" + ")}" * d,
        "alias": lambda d: "from t | derive x = " + "(y = " * d + "1" + ")" * d,
        "long-leaf": lambda d: "from t | derive x = " + "(a | " * d + "b" * 60 + ")" * d,
    }
    for name, mk in h2.items():
        for d in ([30, 45, 120] if not ck.thorough else [30, 45, 120, 400]):
            add("fixed:H2:%s:%d" % (name, d), "fmt", mk(d))
    # C12-N7 (c8b3817): one token wider than any u16 width (43000 was the first overflow; 65536+ needs the unlimited width)
    for n in (43000, 60000, 65535, 65536, 70000, 140000):
        add("fixed:N7:ident:%d" % n, "fmt", "from t | select " + "a" * n)
        add("fixed:N7:string:%d" % n, "fmt", "from t | derive x = \"" + "a" * n + "\"")
    add("fixed:N7:number", "fmt", "from t | derive x = " + "9" * 70000)
    add("fixed:N7:backtick", "fmt", "from `" + "a" * 70000 + "`")
    add("fixed:N7:nested", "fmt", "module m {\n let x = (from t | select {" + "a" * 70000 + ", b})\n}")
    add("fixed:N7:wide-tuple", "fmt", "from t | select {" + ", ".join("c%d" % i for i in range(20000)) + "}")
    # C12-N12 (b4fb037): no replay -- the panic needed 32 768 levels of indentation, and with the fix that source formats to
    # ~2 GB of output; the recurrence is an obligation (text pin of reset_line + arith row), see known_findings.d
    # C12-N13 (e6f83f8): a row of a relation literal that is not a tuple
    for src in ("from [{a = 1}, 2]", "from [{a = 1}, \"x\"]", "from [{a = 1}, [2]]"):
        add("fixed:N13", "compile", src, target="sql.generic")
    # C12-N14 (9639161): a lambda around a partially applied built-in
    for src in ("from t | -> take 5", "from t | (-> derive {x = 1})", "from t | func -> append u", "let f = x -> take x\nfrom t | f 5",
                "let f = x -> in x\nfrom t | filter (a | f 1..2)"):
        add("fixed:N14", "compile", src, target="sql.generic")
    # F29 (456bdcd), lowering / from_text panics (7911778, 287b286, 8204886): the programs are in c12_streams.EXTRA_PROGRAMS
    # C12-N5 (222f71a): i64::MIN under a negation -- PL from JSON (constant folding) ...
    w5 = harness("pl", [{"src": "from t | window rows:-1..1 (derive {s = sum b})"}])[0]
    if "ok" in w5:
        txt = json.dumps(w5["ok"])
        t2 = txt.replace('{"Unary": {"expr": {"Literal": {"Integer": 1}', '{"Unary": {"expr": {"Literal": {"Integer": -9223372036854775808}')
        if t2 != txt:
            add("fixed:N5:pl", "json_pl", t2, prog="from t | window rows:-1..1 (derive {s = sum b})")
    d5 = harness("pl", [{"src": "from t | derive {x = -5, y = -(-5)} | filter -5 < a"}])[0]
    if "ok" in d5:
        txt = json.dumps(d5["ok"])
        t2 = txt.replace('{"Literal": {"Integer": 5}', '{"Literal": {"Integer": -9223372036854775808}')
        if t2 != txt:
            add("fixed:N5:pl-derive", "json_pl", t2, prog="from t | derive {x = -5}")
    # ... and RQ from JSON (frame bound)
    r5 = harness("rq", [{"src": "from t | window rows:-1..1 (derive {s = sum b})"}])[0]
    if "ok" in r5:
        for s, e in ((I64MIN, 1), (I64MIN, I64MIN), (None, I64MIN), (I64MIN, None)):
            d = copy.deepcopy(r5["ok"])
            for w in _windows(d):
                w["frame"]["range"]["start"] = None if s is None else {"kind": {"Literal": {"Integer": s}}, "span": None}
                w["frame"]["range"]["end"] = None if e is None else {"kind": {"Literal": {"Integer": e}}, "span": None}
            add("fixed:N5:rq", "json_rq", json.dumps(d), target="sql.generic", prog="from t | window rows:-1..1 (derive {s = sum b})")
    # d8fda67: a non-finite number literal behind multi-byte text (the slices source[..span] of non_finite_literals)
    for src in ("from \u00e9 | derive x = 1e400", "let \u20ac = 1e999\nfrom t", "from t | derive {s = '\U0001F600', x = -1e400, y = 1e-400}"):
        for e in ("tokens", "compile"):
            add("directed:non-finite", e, src, **({"target": "sql.generic"} if e == "compile" else {}))
    # C12-N18 (f30b660): an Aggregate partitioned by its own aggregated columns
    a5 = harness("rq", [{"src": "from t | aggregate {n = count this, c = count_distinct a}"}])[0]
    if "ok" in a5:
        d = copy.deepcopy(a5["ok"])
        for tr in d["relation"]["kind"]["Pipeline"]:
            if "Aggregate" in tr:
                tr["Aggregate"]["partition"] = list(tr["Aggregate"]["compute"])
        add("fixed:N18", "json_rq", json.dumps(d), target="sql.generic")
    # C12-N16 (696874e): an operator node no std.sql implementation matches
    o5 = harness("rq", [{"src": "from t | derive {x = a + b, s = sum a}"}])[0]
    if "ok" in o5:
        txt = json.dumps(o5["ok"])
        for t2 in (txt.replace('"std.add"', '"_literal"'), txt.replace('"std.add"', '"add"'), txt.replace('"std.add"', '"std."')):
            if t2 != txt:
                add("fixed:N16", "json_rq", t2, target="sql.generic")
        d = copy.deepcopy(o5["ok"])

        def strip_args(v):
            if isinstance(v, dict):
                op = v.get("Operator")
                if isinstance(op, dict) and isinstance(op.get("args"), list) and op["args"]:
                    op["args"] = op["args"][:-1]
                for x in v.values():
                    strip_args(x)
            elif isinstance(v, list):
                for x in v:
                    strip_args(x)
        strip_args(d)
        for dialect in ("sql.generic", "sql.sqlite", "sql.mssql"):
            add("fixed:N16", "json_rq", json.dumps(d), target=dialect)
    # C12-N19 (open): a qualified table and a table named like its first segment
    for src in ("from s.t | join s (==k)", "from a.b.r | join side:left a (==q)"):
        add("N19:namesake", "compile", src, target="sql.generic")
    # C12-N20 (open): the main relation is an ExternRef
    add("N20:extern-main", "json_rq", json.dumps({"def": {"other": {}, "version": None}, "relation": {"columns": ["Wildcard"], "kind": {"ExternRef": {"LocalTable": ["t"]}}}, "tables": []}), target="sql.generic")
    # C12-N6 (79f4a51): ids of usize::MAX
    b5 = harness("rq", [{"src": "from t | take 5"}])[0]
    if "ok" in b5:
        for big in (USIZE_MAX, USIZE_MAX - 1, ID_LIMIT + 1):
            d = copy.deepcopy(b5["ok"])
            d["tables"][0]["id"] = big
            d["relation"]["kind"]["Pipeline"][0]["From"]["source"] = big
            add("fixed:N6:tid", "json_rq", json.dumps(d), target="sql.generic", prog="from t | take 5")
            d, _, _ = rename_ids(b5["ok"], {0: big}, {})
            add("fixed:N6:cid", "json_rq", json.dumps(d), target="sql.generic", prog="from t | take 5")
    return out



def open_hang_cases():
    """replays of the OPEN findings whose symptom is a hang (C12-H3, C12-H4): few, probed with their own small cap and
    without the second look of probe_confirmed (their cost is exponential: 1.8^depth)"""
    out = []

    def add(fam, entry, src):
        out.append({"entry": entry, "src": src, "stack_mb": 64, "family": fam, "prog": None})

    # C12-H3: nested named arguments -- VALID programs
    add("H3:named-args:40", "pl", "from t | derive x = " + "(f x:" * 40 + "1" + ")" * 40)
    add("H3:named-args:16", "pl", "from t | derive x = " + "(f x:" * 16 + "1" + ")" * 16)       # seconds, not a hang: the slow criterion
    # C12-H4: unclosed parenthesis behind an operator that also has a prefix form
    add("H4:plus:40", "pl", "from t | derive x = " + "(a + (" * 40)
    add("H4:alias:40", "pl", "from t | derive x = " + "(a = (" * 40)
    add("H4:eq:40", "compile", "from t | filter " + "(a == (" * 40)
    out[-1]["target"] = "sql.generic"
    return out


# ----------------------------------------------------------------------------- closure application (Model/Closure.v)
# how each std special function is called in generated programs: the positional arguments in front of the relation
STD_CALLS = {
    "take": ["5"], "derive": ["{y = 1}"], "filter": ["true"], "select": ["{y = 1}"], "sort": ["{}"],
    "loop": [("pipe", "filter")], "group": ["{}", ("pipe", "take")], "window": [("pipe", "derive")],
}


def _codes(s):
    return "[" + ";".join(str(ord(c)) for c in s) + "]%N"


def closure_programs(ck, decls):
    """random terms of Model/Closure.v's expr over the std transforms, with their PRQL rendering.
    term: ("std", name) | ("lam", p, body) | ("app", callee, [args]) | ("val", text)"""
    rng = ck.rng
    sig = {n: (a, b) for n, i, a, b in decls if n == i}

    def std_call(name, drop=0, extra=0):
        args = []
        for a in STD_CALLS[name]:
            args.append(("app", ("std", a[1]), [("val", t) for t in STD_CALLS[a[1]]]) if isinstance(a, tuple) else ("val", a))
        args = args[:max(0, len(args) - drop)] + [("val", "(from u)")] * extra
        return ("app", ("std", name), args) if args else ("std", name)

    def gen(depth):
        name = rng.choice(list(STD_CALLS))
        u = rng.random()
        # (arguments of lambdas are relations: an argument that overflows the lambda's own parameters lands in the relation
        #  parameter of the transform, and the resolver type-checks arguments before it reaches unpack)
        t = std_call(name, extra=1 if u > 0.93 else 0)     # (no bare built-in here: a relation argument in its value slot is a type error first)
        for _ in range(depth):
            p = rng.choice([0, 0, 1, 1, 2])
            t = ("lam", p, t)
            q = rng.choice([p, p, p, max(0, p - 1), p + 1])
            if q or rng.random() < 0.5:
                t = ("app", t, [("val", "(from u)")] * q) if q else t
        return t

    counter = [0]

    def render(t):
        if t[0] == "val":
            return t[1]
        if t[0] == "std":
            return t[1]
        if t[0] == "lam":
            counter[0] += 1
            ps = " ".join("x%d_%d" % (counter[0], i) for i in range(t[1]))
            return "(func %s-> %s)" % (ps + " " if ps else "", render(t[2]))
        return "(%s %s)" % (render(t[1]), " ".join(render(a) for a in t[2])) if t[2] else render(t[1])

    def model(t):
        if t[0] == "val":
            return "Val"
        if t[0] == "std":
            a, b = sig[t[1]]
            return "(Fn %d %d [] (Internal %s))" % (a, b, _codes(t[1]))
        if t[0] == "lam":
            return "(Fn 0 %d [] (Body %s))" % (t[1], model(t[2]))
        return "(App %s [%s])" % (model(t[1]), "; ".join(model(a) for a in t[2]))

    out = []
    directed = [
        ("lam", 0, std_call("take")), ("app", ("lam", 1, std_call("take")), [("val", "(from u)")]), ("lam", 1, std_call("take")),
        std_call("take"), std_call("take", drop=1), std_call("take", extra=1), ("lam", 0, std_call("window")),
        ("app", ("lam", 2, std_call("derive")), [("val", "(from u)")]), ("app", ("lam", 1, ("lam", 0, std_call("filter"))), [("val", "(from u)")]),
        ("lam", 0, ("lam", 0, std_call("select"))), ("app", ("lam", 0, std_call("take")), [("val", "(from u)")]),
    ]
    for t in directed + [gen(rng.choice([0, 1, 1, 2, 2, 3])) for _ in range(ck.n(160, 1500))]:
        counter[0] = 0
        stage = render(t)
        out.append(("from t | " + stage, "(App %s [Val])" % model(t), t))
    return out


def closure_correspondence(ck, ginfo):
    """Model/Closure.v fold vs the resolver: which of {value, function, too many arguments, bad special function cast}
    a program made of lambdas around partially applied std transforms ends in."""
    if "error" in ginfo:
        return
    progs = closure_programs(ck, ginfo["decls"])
    progs = list({p[0]: p for p in progs}.values())
    impl = probe([{"entry": "rq", "src": p[0], "stack_mb": 64} for p in progs], cap_ms=20000)
    header = ("From Coq Require Import List NArith.\nFrom PV Require Import Lib.ListX Model.Closure Gen.GenUnpack.\n"
              "Import ListNotations.\n")
    try:
        model = coq_eval(header, ["fold (arity_of GenUnpack.arms) 60 %s" % p[1] for p in progs])
    except RuntimeError as ex:
        ck.coverage["model_eval_error"] = str(ex)[-400:]
        model = None
    for i, (p, a) in enumerate(zip(progs, impl)):
        ck.count("corr-closure-arity", p[0])
        r = a.get("r", a)
        reason = (r["err"][0].get("reason") or "") if "err" in r and r["err"] else ""
        if "ok" in r:
            got = "Val"
        elif "panic" in r:
            got = "BadCast" if "bad special function cast" in r["panic"].get("msg", "") else "Panic:" + r["panic"].get("msg", "")[:80]
        elif reason.startswith("Too many arguments"):
            got = "TooMany"
        elif "expected a pipeline that resolves to a table" in reason or "expected type `relation`" in reason or "but found type `func" in reason:
            got = "Fn"
        elif "expected a function" in reason:
            got = "NotAFunction"
        else:
            got = "Other:" + (reason or json.dumps(a))[:120]
        ck.stat("corr-closure-arity", "impl:" + got.split(":")[0])
        if model is None:
            continue
        mv = model[i]
        if mv in ("TooMany", "NotAFunction", "Fuel"):
            m = mv
        elif mv[0] == "BadCast":
            m = "BadCast"
        else:
            m = "Val" if mv[1] == "Val" else "Fn"
        if m != got:
            ck.violation("Model/Closure.v fold differs from the resolver on `%s`: model %s, impl %s" % (p[0], m, got),
                         {"src": p[0], "entry": "rq", "model": str(mv)[:300], "impl": got, "term": p[1], "kind": "correspondence"})


def parse_retry_times(ck):
    """evidence next to c12_parse_nested_named_cost (Model/ParseRetry.v: calls n = 2^(n+1) - 1): the time of prql_to_pl on
    `(f x:(f x:( .. 1 .. )))` at depth 10, 12, 14 (log off), with the ratios per two levels (model: 4)"""
    ds = (10, 12, 14)
    reqs = [{"entry": "pl", "src": "from t | derive x = " + "(f x:" * d + "1" + ")" * d, "stack_mb": 64, "log": "off"} for d in ds]
    ans = probe(reqs, cap_ms=30000, shards=3)
    ms = [a.get("ms") for a in ans]
    for d in ds:
        ck.count("parse-retry-times", str(d))
    ck.coverage["parse_retry_ms_at_depth_10_12_14"] = ms
    if all(isinstance(x, int) and x > 0 for x in ms):
        ck.coverage["parse_retry_ratio_per_two_levels"] = [round(ms[1] / ms[0], 2), round(ms[2] / ms[1], 2)]


# ----------------------------------------------------------------------------- arithmetic at singular points
ARITH_OPS = ["+", "-", "*", "/", "//", "%", "**", "==", "<", "&&", "||", "??"]
ARITH_VALS = ["0", "1", "-1", "2", "10", "-10", str(I64MAX), str(-I64MAX), "0.0", "-0.0", "1.5", "null", "true"]
ARITH_INTS = [0, 1, -1, 2, 10, -10, I64MAX, I64MIN, I64MIN + 1]


def arith_singular_cases(ck):
    """every arithmetic / logical std operator x literal operands at the singular points (0, -1, i64::MIN / MAX, ...):
    directly in source, through `let` constants (constant folding sees the literal only after inlining), and with the
    literals of the PL / RQ JSON of `a op b` replaced (i64::MIN cannot be written in source).  A pure literal change is
    never classified as an unvalidated-document finding: any panic here is a VIOLATION."""
    rng = ck.rng
    out = []

    def add(fam, entry, src, **kw):
        out.append(dict({"entry": entry, "src": src, "stack_mb": 64, "family": fam, "prog": None}, **kw))

    pairs = [(a, b) for a in ARITH_VALS for b in ARITH_VALS]
    for op in ARITH_OPS:
        sel = pairs if ck.thorough else [(a, b) for a, b in pairs if "0" in (a, b) or "-1" in (a, b) or str(I64MAX) in (a, b)][:40] + rng.sample(pairs, 12)
        for a, b in sel:
            e = "(%s) %s (%s)" % (a, op, b)
            add("arith:src", "compile", "from t | derive x = %s | filter (%s) != 3" % (e, e), target=rng.choice(["sql.generic", "sql.sqlite", "sql.postgres", "sql.mssql", "sql.bigquery"]))
            add("arith:let", "compile", "let p = %s\nlet q = %s\nfrom t | derive x = p %s q | filter x != 3" % (a, b, op), target="sql.generic")
    for un in ("-", "!", "+"):
        for a in ARITH_VALS:
            add("arith:src", "compile", "from t | derive x = %s(%s)" % (un, a), target="sql.generic")
            add("arith:let", "compile", "let p = %s\nfrom t | derive x = %sp" % (a, un), target="sql.generic")
    # PL / RQ documents of `7 op 3` with the two literals replaced
    for op in ("+", "-", "*", "/", "//", "%", "**"):
        src = "from t | derive x = 7 %s 3" % op
        pl = harness("pl", [{"src": src}])[0]
        rq = harness("rq", [{"src": src}])[0]
        for a in ARITH_INTS:
            for b in ARITH_INTS:
                if not ck.thorough and rng.random() < 0.5 and 0 not in (a, b) and I64MIN not in (a, b):
                    continue
                if "ok" in pl:
                    t = json.dumps(pl["ok"]).replace('{"Integer": 7}', '{"Integer": %d}' % a).replace('{"Integer": 3}', '{"Integer": %d}' % b)
                    add("arith:pl", "json_pl", t, prog=src)
                if "ok" in rq:
                    t = json.dumps(rq["ok"]).replace('{"Integer": 7}', '{"Integer": %d}' % a).replace('{"Integer": 3}', '{"Integer": %d}' % b)
                    add("arith:rq", "json_rq", t, prog=src, target=rng.choice(["sql.generic", "sql.sqlite", "sql.mssql", "sql.duckdb"]))
    return out


# ----------------------------------------------------------------------------- RQ documents: column-name mixes x dialects
RQCOL_PROGRAMS = [
    "from t | select {a, b}", "from t | select {a, b} | take 3", "from t | derive {c = a + 1} | select {a, c}",
    "from t | select {a, a + 1}", "from t | select {t.*} | select !{a}", "from t | join u (==a) | select {t.a, u.b}",
    "from t | group {a} (aggregate {n = count b})", "from t | select {a, b} | append (from u | select {a, b})",
    "from t | select {a, b} | sort a | take 2..4 | derive {r = a * 2}", "from t | window rows:-1..1 (derive {s = sum b}) | select {a, s}",
]
DIALECTS12 = ["sql.generic", "sql.sqlite", "sql.postgres", "sql.mssql", "sql.mysql", "sql.bigquery", "sql.clickhouse",
              "sql.duckdb", "sql.snowflake", "sql.ansi", "sql.glaredb", "sql.redshift"]


def _relcol_slots(doc):
    """every place of an RQ document that holds a RelationColumn: (container, key)"""
    out = []

    def walk(v):
        if isinstance(v, dict):
            if isinstance(v.get("columns"), list):
                cols = v["columns"]
                for i, c in enumerate(cols):
                    if isinstance(c, list) and len(c) == 2:      # TableRef.columns: [RelationColumn, cid]
                        out.append((c, 0))
                    else:                                           # Relation.columns
                        out.append((cols, i))
            for x in v.values():
                walk(x)
        elif isinstance(v, list):
            for x in v:
                walk(x)
    walk(doc)
    return out


def rq_column_cases(ck):
    """RQ documents prqlc emitted, with the NAMES of their columns edited -- nameless `{"Single": null}`, `"Wildcard"`, another
    name -- in every position that holds a RelationColumn, on every dialect.  Names are not ids: the documents stay well
    formed (rq_wf), so none of this is C12-N3; any panic is a VIOLATION."""
    rng = ck.rng
    out = []
    rqs = harness("rq", [{"src": p} for p in RQCOL_PROGRAMS])
    edits = [{"Single": None}, "Wildcard", {"Single": "x"}, {"Single": "a"}, {"Single": ""}]
    for p, a in zip(RQCOL_PROGRAMS, rqs):
        if "ok" not in a:
            continue
        n = len(_relcol_slots(a["ok"]))
        plans = [[(i, e)] for i in range(n) for e in edits[:2]]                       # every single slot nameless / wildcard
        plans += [[(i, edits[0]) for i in range(n)], [(i, edits[1]) for i in range(n)]]  # all nameless, all wildcards
        for _ in range(ck.n(6, 60)):
            plans.append([(i, rng.choice(edits)) for i in range(n) if rng.random() < 0.5])
        for plan in plans:
            d = copy.deepcopy(a["ok"])
            slots = _relcol_slots(d)
            for i, e in plan:
                c, k = slots[i]
                c[k] = copy.deepcopy(e)
            text = json.dumps(d)
            ds = DIALECTS12 if len(plan) != 1 or ck.thorough else ["sql.generic", "sql.bigquery", "sql.snowflake", "sql.duckdb", "sql.clickhouse", "sql.mssql"]
            for dialect in ds:
                out.append({"entry": "json_rq", "src": text, "stack_mb": 64, "family": "rqcols", "prog": p, "target": dialect})
    return out


# ----------------------------------------------------------------------------- formatter layout protocol (Model/FmtLayout.v)
def fmt_layout_trees(ck):
    """random trees of  e ::= Id w | Tup [e..] | Bin e e  with their PRQL rendering and Coq term"""
    rng = ck.rng

    def gen(depth):
        u = rng.random()
        if depth == 0 or u < 0.3:
            return ("Id", rng.choice([1, 2, 3, 5, 8, 12, 20, 30, 45, 60]))
        if u < 0.65:
            return ("Tup", [gen(depth - 1) for _ in range(rng.choice([0, 1, 2, 2, 3, 4]))])
        return ("Bin", gen(depth - 1), gen(depth - 1))

    def src(t, right=False):
        if t[0] == "Id":
            return "a" * t[1]
        if t[0] == "Tup":
            return "{" + ", ".join(src(c) for c in t[1]) + "}"
        s = src(t[1]) + " + " + src(t[2], True)
        return "(" + s + ")" if right else s

    def coq(t):
        if t[0] == "Id":
            return "(Id %d)" % t[1]
        if t[0] == "Tup":
            r = "NNil"
            for c in reversed(t[1]):
                r = "(NCons %s %s)" % (coq(c), r)
            return "(Tup %s)" % r
        return "(Bin %s %s)" % (coq(t[1]), coq(t[2]))

    def chain(n, w, shape):
        t = ("Id", w)
        for _ in range(n):
            t = ("Bin", ("Id", w), t) if shape == "right" else ("Tup", [t]) if shape == "tup" else ("Tup", [("Bin", ("Id", w), t)])
        return t

    trees = [chain(n, w, sh) for sh in ("right", "tup", "mixed") for n in (1, 3, 6, 10, 16) for w in (2, 9)]
    trees += [gen(rng.choice([1, 2, 3, 4, 5, 6])) for _ in range(ck.n(140, 1200))]
    out = []
    for t in trees:
        out.append(("let v = " + src(t), coq(t), t))
    return list({x[0]: x for x in out}.values())


def fmt_layout_correspondence(ck):
    """Model/FmtLayout.v format_let vs prql_to_pl + pl_to_prql (harness c12fmt): the formatted text, character by character,
    and the number of invocations of <pr::Expr as WriteSource>::write that the hook verif:fmt-calls reports (a tree without
    the hook is a VIOLATION: fail closed)."""
    cases = fmt_layout_trees(ck)
    impl = harness("c12fmt", [{"src": c[0]} for c in cases])
    header = ("From Coq Require Import List NArith ZArith.\nFrom PV Require Import Lib.ListX Model.FmtLayout.\nImport ListNotations.\n")
    try:
        model = coq_eval(header, ["format_let %s" % c[1] for c in cases])
    except RuntimeError as ex:
        ck.coverage["model_eval_error"] = str(ex)[-400:]
        return
    hook = any(a.get("calls") is not None for a in impl)
    ck.coverage["fmt_calls_hook_present"] = hook
    if not hook:
        # fail closed: the hook verif:fmt-calls is part of /repo since de8cd03; a tree without it cannot be checked for the counts
        ck.violation("the hook verif:fmt-calls (pl_to_prql, /repo de8cd03) is missing from this tree: the invocation counts of Model/FmtLayout.v cannot be compared",
                     {"kind": "missing-hook", "hook": "verif:fmt-calls"}, no_input=True)
    for c, a, mv in zip(cases, impl, model):
        ck.count("corr-fmt-layout", c[0])
        if "ok" not in a:
            ck.violation("prql_to_pl / pl_to_prql did not format `%s`: %s" % (c[0][:120], json.dumps(a)[:200]), {"src": c[0], "entry": "fmt", "kind": "correspondence"})
            continue
        mt, mc = mv
        mtext = None if mt == "None" else "".join(chr(x) for x in mt[1])
        ck.stat("corr-fmt-layout", "lines:%s" % min(a["ok"].count("\n"), 6))
        if mtext != a["ok"]:
            ck.violation("Model/FmtLayout.v format_let differs from pl_to_prql on `%s`" % c[0][:160],
                         {"src": c[0], "entry": "fmt", "model": mtext, "impl": a["ok"], "term": c[1][:400], "kind": "correspondence"})
            continue
        if a.get("calls") is not None:
            ck.stat("corr-fmt-layout", "calls-compared")
            if int(a["calls"]) != mc:
                ck.violation("Model/FmtLayout.v counts %d invocations of Expr::write on `%s`, the hook verif:fmt-calls reports %d" % (mc, c[0][:160], a["calls"]),
                             {"src": c[0], "entry": "fmt", "model_calls": mc, "impl_calls": a["calls"], "kind": "correspondence"})

"""Program generator for C07: ACCEPTED programs over every construct family of the property's quantifier
(relational core, windows, set operations, loop, literals, from_text, casts, std functions, s-strings, joins
with aliases / name clashes, let-tables used several times, take ranges incl. open ends, empty selects, sort by
dropped columns, identifiers that need quoting).

A case is a dict {src, fam, tags:set}.  Acceptance is decided by the compiler itself (the property quantifies
over accepted programs); the accept rate per family is written into the evidence.

Tables (the SQLite schema of stream (c) and the closed schema of the scope model):
  t(id,a,b,c,g)  u(id,a,d,g)   -- the tables of vplib/rel/prog.py
  v(id,s,dt,x,y)               -- text / date / float columns
  `my table`(a, `order`, `a b`, Mixed)
  w(a,g), w1(a)                -- bare tables whose columns are exactly {a, g}: a legitimate wildcard operand of set operations
  Table_0(a,g)                 -- a user table spelled like a generated CTE name in another letter case (fix 99a89d3)
"""
from ..rel import prog as P

SCHEMA = {
    "t": ["id", "a", "b", "c", "g"],
    "u": ["id", "a", "d", "g"],
    "v": ["id", "s", "dt", "x", "y"],
    "my table": ["a", "order", "a b", "Mixed"],
    "w": ["a", "g"],
    "w1": ["a"],
    "Table_0": ["a", "g"],
}


def sqlite_setup():
    out = []
    for t, cs in SCHEMA.items():
        out.append('create table "%s"(%s)' % (t, ", ".join('"%s"' % c for c in cs)))
    return out


class G:
    def __init__(self, rng):
        self.r = rng
        self.core = P.Gen(rng, max_steps=6)
        self.n = 0

    # ------------------------------------------------------------------ helpers
    def pick(self, xs):
        return self.r.choice(xs)

    def maybe(self, p):
        return self.r.random() < p

    def fresh(self, p="n"):
        self.n += 1
        return "%s%d" % (p, self.n)

    def num(self, cols, d=1):
        r = self.r
        k = r.random()
        if d <= 0 or k < 0.4:
            return self.pick(cols) if r.random() < 0.8 else str(self.pick([0, 1, 2, 10]))
        if k < 0.75:
            return "(%s %s %s)" % (self.num(cols, d - 1), self.pick(["+", "-", "*", "/", "//", "%", "??"]), self.num(cols, d - 1))
        if k < 0.85:
            return "(-%s)" % self.num(cols, d - 1)
        if k < 0.93:
            return "(%s %s)" % (self.pick(["math.abs", "math.floor", "math.ceil", "math.round 1", "math.sqrt", "math.pow 2"]), self.num(cols, d - 1))
        return "case [%s > 1 => %s, true => %s]" % (self.num(cols, d - 1), self.num(cols, d - 1), self.num(cols, d - 1))

    def cond(self, cols):
        return "%s %s %s" % (self.num(cols, 1), self.pick(["==", "!=", "<", ">=", ">"]), self.num(cols, 0))

    def take_txt(self):
        r = self.r
        k = r.random()
        if k < 0.3:
            return "take %d" % r.randint(1, 5)
        if k < 0.55:
            return "take %d.." % r.randint(1, 4)
        if k < 0.7:
            return "take ..%d" % r.randint(1, 5)
        s = r.randint(1, 3)
        return "take %d..%d" % (s, s + r.randint(0, 3))

    # ------------------------------------------------------------------ families
    def f_core(self):
        pg = self.core.program()
        tags = set(pg.kinds())
        src = pg.prql()
        if "(-(" in src:
            tags.add("neg")
        for s in pg.steps:
            if s.kind == "take" and s.info.get("rng", (None, 0))[1] is None:
                tags.add("open_take")
        return src, tags

    def f_core_nosel(self):
        pg = self.core.program(final_select=False)
        tags = set(pg.kinds())
        src = pg.prql()
        if "(-(" in src:
            tags.add("neg")
        for s in pg.steps:
            if s.kind == "take" and s.info.get("rng", (None, 0))[1] is None:
                tags.add("open_take")
        return src, tags

    def f_window(self):
        r = self.r
        cols = ["a", "b", "c"]
        fn = self.pick(["row_number this", "rank a", "rank_dense b", "lag 1 a", "lead 2 b", "first a", "last b", "sum a", "average b", "min c", "max a",
                        "count this", "count_distinct a", "stddev a"])
        fn2 = self.pick(["sum b", "row_number this", "lag 1 c"])
        shape = r.randint(0, 8)
        pre = self.pick(["", "", "sort {a, id}\n", "sort {-b}\n", "filter a > 0\n", "select {id, a, b, c, g}\n"])
        if shape == 8:
            # RANGE frames with offset bounds: valid with exactly one sort key only (C07-N14)
            rg = self.pick(["range:-1..1", "range:-2..0", "range:0..3", "range:-1..", "range:..2"])
            srt = self.pick(["", "sort a | ", "sort {-b} | ", "sort {a, b} | ", "sort {g, -id} | "])
            body = self.pick(["window %s (%sderive {w = %s})", "group {g} (window %s (%sderive {w = %s}))"]) % (rg, srt, self.pick(["sum a", "max b", "count this", "average c"]))
            return "from t\n%s%s" % (pre if not srt else "", body), {"window", "range_frame"}
        if shape == 0:
            body = "derive {w = %s}" % fn
        elif shape == 1:
            body = "group {g} (sort %s | derive {w = %s})" % (self.pick(["a", "{-a, id}", "{b}"]), fn)
        elif shape == 2:
            body = "window %s (derive {w = %s})" % (self.pick(["rolling:3", "expanding:true", "rows:-2..0", "rows:..0", "rows:0..", "rows:-1..1", "range:-1..1", "range:..0"]), fn)
        elif shape == 3:
            body = "group {g} (window %s (sort a | derive {w = %s, w2 = %s}))" % (self.pick(["rolling:2", "rows:-1..1", "expanding:true"]), fn, fn2)
        elif shape == 4:
            body = "derive {w = %s}\nfilter w > 1" % fn
        elif shape == 5:
            body = "group {g} (derive {w = %s})\nderive {w2 = %s}\nfilter w2 != null" % (fn, fn2)
        elif shape == 6:
            body = "filter (%s) > 1" % fn
        else:
            body = "group {g, a} (derive {w = %s})\nsort w" % fn
        post = self.pick(["", "", "\nselect {g, w}" if shape not in (6,) else "", "\n" + self.take_txt(), "\nsort {-id}", "\naggregate {n = count this}",
                          "\nselect {id}"])
        tags = {"window"}
        if "take" in post and ".." in post and post.rstrip().endswith(".."):
            tags.add("open_take")
        return "from t\n%s%s%s" % (pre, body, post), tags

    def _operand(self, cols_known, tbl=None, one=False):
        """a relation with the columns a, g (or only a when `one`) -- known layout -- or a wildcard table"""
        r = self.r
        tbl = tbl or self.pick(["t", "u"])
        cl = "a" if one else "a, g"
        if not cols_known:
            return "from %s" % tbl, True
        k = r.randint(0, 6)
        if k == 6:
            return "from %s" % ("w1" if one else "w"), True          # columns unknown to the compiler, arity right in the database
        if k == 0:
            return "from %s | select {%s}" % (tbl, cl), False
        if k == 1:
            return "from %s | filter a > %d | select {%s}" % (tbl, r.randint(0, 3), cl), False
        if k == 2:
            return "from %s | select {%s} | sort a | %s" % (tbl, cl, self.take_txt()), False
        if k == 3:
            return "from %s | group {%s} (take 1) | select {%s}" % (tbl, cl, cl), False
        if k == 4:
            return ("from [{a = 1}, {a = 3}]" if one else "from [{a = 1, g = 2}, {a = 3, g = 4}]"), False
        return ("from %s | group {g} (aggregate {a = max a}) | select {a}" % tbl if one else "from %s | group {g} (aggregate {a = max a}) | select {a, g}" % tbl), False

    def f_setops(self):
        r = self.r
        known = r.random() < 0.8
        one = known and r.random() < 0.35
        cl = "a" if one else "a, g"
        wt = self.pick(["t", "u"])          # wildcard operands use ONE table: the compiler cannot know the arity of others
        top, w1 = self._operand(known, None if known else wt, one)
        n = 1 if r.random() < 0.7 else 2
        src = top
        tags = {"setop"}
        if known:
            tags.add("setop_cols1" if one else "setop_cols2")
        for _ in range(n):
            op = self.pick(["append", "remove", "intersect", "append", "union_distinct"])
            bot, w2 = self._operand(known, None if known else wt, one)
            if w1 or w2:
                tags.add("setop_wild")
            if op == "union_distinct":
                src += "\nappend (%s)\ngroup {%s} (take 1)" % (bot, cl) if known else "\nappend (%s)" % bot
                tags.add("append"); tags.add("distinct")
            else:
                src += "\n%s (%s)" % (op, bot)
                tags.add(op)
            if r.random() < 0.25 and op in ("remove", "intersect") and known:
                src = src.replace("\n%s (" % op, "\ngroup {%s} (take 1)\n%s (" % (cl, op), 1)
                tags.add("distinct")
        post = self.pick(["", "", "\nsort a", "\nselect {a}", "\nselect {g}" if not one else "", "\nfilter a > 1", "\n" + self.take_txt(), "\naggregate {n = count this}",
                          "\ngroup {%s} (take 1)" % cl, "\nsort {-a} | take 2", "\nderive {z = a + 1}"])
        if post.strip().startswith("select") or post.strip().startswith("aggregate"):
            tags.add("narrow_after_setop")
        if post.rstrip().endswith(".."):
            tags.add("open_take")
        return src + post.replace(" | ", "\n"), tags

    LET_RELS = ["(from t | select {a} | take 3)", "(from u | select {a, d} | filter a > 0)", "(from t | group {a} (aggregate {m = max b}))",
                "(from t | select {a, b} | sort a | take 2..4)", "(from [{a = 1}, {a = 2}])"]
    POSTS = ["sort n", "take 3", "filter n > 1", "aggregate {s = sum n}", "select {n}", "take 2..", "derive {k2 = n * 2}", "derive {w = sum n}", "filter w > 1",
             "group {n} (take 1)", "take 2", "sort {-n}", "join u (u.id == n)", "select {n, z = n + 1}"]

    def posts(self, k):
        out = []
        for _ in range(k):
            p = self.pick(self.POSTS)
            if "w >" in p and not any("w = " in x for x in out):
                p = "derive {w = sum n}"
            out.append(p)
            if p.startswith("aggregate"):
                break
        return out

    def f_loop(self):
        r = self.r
        tags = {"loop"}
        lets = ""
        use_let = r.random() < 0.4
        if use_let:
            lets = "let x = %s\n" % self.pick(self.LET_RELS)
            tags.add("let")
        init = self.pick(["from [{n = 1}]", "from [{n = 1, m = 2}]", "from t | select {n = a}", "from t | filter a == 1 | select {n = a, m = b}", "from t | take 1 | select {n = id}"]
                         + (["from x | select {n = a}"] if use_let else []))
        two = "m =" in init
        steps = ["filter n < %d | select {n = n + 1%s}" % (r.randint(2, 6), ", m = m * 2" if two else ""),
                 "select {n = n + 1%s} | filter n < 4" % (", m" if two else ""),
                 "filter n < 3 | derive {k = n + 1} | select {n = k%s}" % (", m" if two else ""),
                 "join side:inner u (u.id == n) | select {n = n + 1%s} | filter n < 5" % (", m = u.a" if two else "")]
        if use_let:
            steps += ["join x (x.a == n) | filter n < 4 | select {n = n + 1%s}" % (", m" if two else "")] * 3
        step = self.pick(steps)
        post = self.posts(r.choice([0, 1, 1, 2, 2, 3]))
        if use_let and r.random() < 0.6:
            post.insert(r.randint(0, len(post)), "join x (x.a == n)")
            if not any(p.startswith(("aggregate", "select", "group")) for p in post):
                post.append("select {n, xa = x.a}")
        if post and post[-1].endswith(".."):
            tags.add("open_take")
        return "%s%s\nloop (%s)%s" % (lets, init, step, "".join("\n" + p for p in post)), tags

    def f_literal(self):
        r = self.r
        k = r.randint(0, 7)
        tags = {"literal"}
        if k == 7:
            # a string literal with a backslash -- at its end it swallows the closing quote where the engine reads backslash
            # escapes unless the compiler doubles it (fix d2c1667; sql.bigquery was left as it is: C07-N13)
            lit = self.pick(['"a\\\\"', '"\\\\"', '"a\\\\\'b"', "'it\\\\'", '"C:\\\\dir\\\\"', 'r"a\\"'])
            src = self.pick(["from t\nderive {x = %s}\nfilter b == 3", 'from t\nfilter (a | as text) == %s\nselect {a, y = "z"}',
                             "from [{a = 1, b = %s}]\nderive {c = \"k\"}"]) % lit
            tags.add("backslash")
            return src, tags
        if k == 0:
            src = 'from [{a = 1, b = "x"}, {a = 2, b = "y"}]'
        elif k == 1:
            src = "from [{a = 1.5, b = null, c = true}]"
        elif k == 2:
            src = 'from_text format:json \'[{"a": 1, "m": "x"}, {"a": 2, "m": "y"}]\''
            tags.add("from_text")
        elif k == 3:
            src = 'from_text """\na,b,c\n1,2,3\n4,5,6\n"""'
            tags.add("from_text")
        elif k == 4:
            src = 'from_text format:json \'{"columns": ["a", "b"], "data": [[1, "x"], [2, "y"]]}\''
            tags.add("from_text")
        elif k == 5:
            src = "from [{a = @2020-01-01, b = @10:00, c = 3days}]"
        else:
            src = "from [{`order` = 1, `a b` = 2}]"
        post = self.pick(["", "\nfilter a > 1", "\nderive {z = a}", "\nselect {a}", "\njoin t (==a)", "\nsort a | take 1", "\naggregate {n = count this}",
                          "\nappend (from [{a = 9, b = \"z\"}])" if k == 0 else "", "\ntake 2.."]) if k != 6 else self.pick(["", "\nselect {`order`}", "\nsort `a b`"])
        if post.endswith(".."):
            tags.add("open_take")
        return src + post.replace(" | ", "\n"), tags

    def f_cast_std(self):
        r = self.r
        items = []
        tags = {"std"}
        for _ in range(r.randint(1, 4)):
            k = r.randint(0, 11)
            nm = self.fresh("c")
            if k == 0:
                items.append("%s = (%s | as %s)" % (nm, self.pick(["x", "s", "id"]), self.pick(["int", "float", "text", "bool", "date", "timestamp", "varchar"])))
                tags.add("cast")
            elif k == 1:
                items.append("%s = text.%s s" % (nm, self.pick(["lower", "upper", "trim", "ltrim", "rtrim", "length"])))
            elif k == 2:
                items.append('%s = (s | text.%s "ab")' % (nm, self.pick(["starts_with", "contains", "ends_with"])))
            elif k == 3:
                items.append('%s = (s | text.extract %d %d)' % (nm, r.randint(1, 3), r.randint(1, 4)))
            elif k == 4:
                items.append('%s = (s | text.replace "a" "b")' % nm)
            elif k == 5:
                items.append("%s = math.%s x" % (nm, self.pick(["abs", "floor", "ceil", "exp", "ln", "log10", "sqrt", "degrees", "radians", "cos", "acos", "sin", "asin", "tan", "atan"])))
            elif k == 6:
                items.append("%s = (x | math.%s)" % (nm, self.pick(["pow 2", "round 2", "log 2"])))
            elif k == 7:
                items.append('%s = (dt | date.to_text "%s")' % (nm, self.pick(["%Y-%m-%d", "%d/%m/%y %H:%M", "%A %B", "%Y 'q' %%"])))
                tags.add("date")
            elif k == 8:
                items.append("%s = %s" % (nm, self.pick(["@2020-01-01", "@2020-01-01T10:00:00", "@10:00", "@2020-01-01T10:00:00+02:00", "dt + 3days", "2years", "dt - 1hours"])))
                tags.add("date")
            elif k == 9:
                items.append('%s = (s ~= "%s")' % (nm, self.pick(["^a", "b$", "a.c"])))
                tags.add("regex")
            elif k == 10:
                items.append('%s = f"{s}-{x}%s"' % (nm, self.pick(["", "!", " {y}"])))
            else:
                items.append("%s = math.pi" % nm if r.random() < 0.3 else "%s = (x | in 1..5)" % nm if r.random() < 0.5 else "%s = x ** 2" % nm)
        verb = self.pick(["derive", "derive", "select"])
        post = self.pick(["", "\nfilter x > 1", "\nsort s", "\ntake 2", "\ngroup {s} (aggregate {m = max x, ca = concat_array s, al = all (x > 1), an = any (y > 2)})"])
        if "group" in post and verb == "select":
            post = ""
        return "from v\n%s {%s}%s" % (verb, ", ".join(items), post), tags

    def f_sstring(self):
        r = self.r
        k = r.randint(0, 7)
        tags = {"sstring"}
        if k == 0:
            src = 'from t\nderive {z = s"COALESCE({a}, {b}, 0)"}'
        elif k == 1:
            src = 'from t\nfilter s"{a} BETWEEN 1 AND 3"\nselect {a, b}'
        elif k == 2:
            src = 'from s"SELECT * FROM t"\nfilter a > 1'
            tags.add("sstring_rel")
        elif k == 3:
            src = 'from s"SELECT id, a FROM u WHERE a > 0"\njoin t (==id)\nselect {t.b, u_a = a}'
            tags.add("sstring_rel")
        elif k == 4:
            src = 'from t\nderive {z = s"ABS({a} - {b})" + 1}\nsort z'
        elif k == 5:
            src = 'let x = s"SELECT a, g FROM t"\nfrom x\nappend (from u | select {a, g})'
            tags.add("sstring_rel"); tags.add("setop"); tags.add("append")
        elif k == 6:
            src = 'from t\ngroup {g} (aggregate {m = s"MAX({a})", n = count this})\nfilter m > 1'
        else:
            src = 'from t\nderive {z = s"(SELECT MAX(d) FROM u WHERE u.g = {g})"}\nselect {id, z}'
            tags.add("sstring_subquery")
        post = self.pick(["", "", "\ntake 3", "\nsort {-a}" if k not in (3, 6, 7) else "", "\ntake 2.." if k != 5 else ""])
        if post.endswith(".."):
            tags.add("open_take")
        return src + post, tags

    def f_join(self):
        r = self.r
        k = r.randint(0, 9)
        tags = {"join"}
        side = self.pick(["", "side:left ", "side:right ", "side:full ", ""])
        if k == 0:
            src = "from x = t\njoin %sy = t (x.id == y.g)\nselect {x.a, ya = y.a, y.b}" % side
        elif k == 1:
            src = "from t\njoin %su (==id)\nselect {t.id, u.id, t.a, ua = u.a, u.d}" % side
            tags.add("clash")
        elif k == 2:
            src = "from t\njoin %su (t.g == u.g)\nderive {z = t.a + u.a}\nfilter u.id > 1" % side
            tags.add("clash"); tags.add("join_wild")
        elif k == 3:
            src = "from t\njoin u (==id)\njoin v (t.id == v.id)\nselect {t.a, u.d, v.s}"
        elif k == 4:
            src = "from x = t\njoin y = (from u | filter a > 1 | select {id, d}) (x.id == y.id)\nselect {x.a, y.d}"
        elif k == 5:
            src = "from t\njoin %su (==id)\n%s\nselect {t.a, u.d}" % (side, self.pick(["sort {t.b}", "sort {u.a, t.id}", "filter t.a > u.a", self.take_txt(), "sort {t.b}\n" + self.take_txt()]))
        elif k == 6:
            src = "from t\nselect {id, a}\njoin %s(from u | select {id, a}) (==id)" % side
            tags.add("clash")
        elif k == 7:
            src = "from a = t\njoin b = t (a.id == b.id)\njoin c = t (b.id == c.id)\nselect {a.a, bb = b.b, cc = c.c}\nsort {a.a}"
        elif k == 8:
            src = "from t\njoin u (t.g == u.g)\ngroup {t.g} (aggregate {n = count this, m = max u.d})\nsort {-n}"
        else:
            src = "from t\n%sjoin %su (t.g == u.g)\nderive {x1 = %s}\n%s" % (self.pick(["", "filter a != 3\n", "take 5\n"]), side, self.pick(["t.c + 1", "t.id + u.id"]),
                                                                         self.pick(["filter (u.id == 3)", "take 2\nfilter (u.a > t.a)", "group {u.id} (take 1)", "sort {u.id}"]))
            tags.add("clash"); tags.add("join_wild")
        post = self.pick(["", "", "\n" + self.take_txt(), "\naggregate {n = count this}"])
        if post.rstrip().endswith("..") or "take" in src and ".." in src.split("take")[-1].split("\n")[0] and src.split("take")[-1].split("\n")[0].strip().endswith(".."):
            tags.add("open_take")
        return src + post, tags

    def f_let(self):
        r = self.r
        k = r.randint(0, 8)
        tags = {"let"}
        if k == 0:
            src = "let x = (from t | filter a > 1)\nfrom x\njoin y = (from x | take 3) (==a)"
            tags.add("join_wild")
        elif k == 1:
            src = "let x = (from t | select {id, a} | sort a | take 5)\nfrom x\njoin y = x (x.id == y.id)\nselect {x.a, ya = y.a}"
        elif k == 2:
            src = "let x = (from t | group {g} (aggregate {m = max a}))\nlet y = (from x | filter m > 1)\nfrom y\nappend x\nappend y"
            tags.add("setop"); tags.add("append")
        elif k == 3:
            src = "let x = (from t | select {a, g})\nfrom x\nremove (from x | filter a > 2)"
            tags.add("setop"); tags.add("remove")
        elif k == 4:
            src = "let table_0 = (from t | select {a, g} | take 3)\nfrom table_0\nderive {w = sum a}\nfilter w > 1"
            tags.add("name_capture")
        elif k == 5:
            src = "let x = (from t | derive {z = a + 1})\nfrom x\njoin side:left u (x.id == u.id)\nselect {x.z, u.d}\nsort {x.z}"
        else:
            # one relation variable used in two or three different positions
            rel = self.pick(self.LET_RELS)
            uses = r.sample(["from", "join", "append", "join2", "remove"], r.randint(2, 3))
            src = "let x = %s\nfrom b = %s" % (rel, "x" if "from" in uses else "t")
            if "join" in uses:
                src += "\njoin y = x (b.a == y.a)"
            if "join2" in uses:
                src += "\njoin side:left z = x (b.a == z.a)"
            src += "\nselect {b.a}"
            if "append" in uses:
                src += "\nappend (from x | select {a})"
                tags.add("setop"); tags.add("append")
            if "remove" in uses:
                src += "\nremove (from x | select {a})"
                tags.add("setop"); tags.add("remove")
        post = self.pick(["", "", "\n" + self.take_txt()]) if k not in (2, 3) else ""
        if post.rstrip().endswith(".."):
            tags.add("open_take")
        return src + post, tags

    def f_take(self):
        r = self.r
        steps = []
        tags = {"take"}
        for _ in range(r.randint(1, 4)):
            k = r.random()
            if k < 0.5:
                t = self.take_txt()
                steps.append(t)
                if t.endswith(".."):
                    tags.add("open_take")
            elif k < 0.65:
                steps.append("sort %s" % self.pick(["a", "{-b, id}", "{a, -c}"]))
            elif k < 0.75:
                steps.append("filter a > %d" % r.randint(0, 2))
            elif k < 0.85:
                steps.append("derive {%s = a + %d}" % (self.fresh("d"), r.randint(1, 3)))
            elif k < 0.92:
                steps.append("select {id, a, b}")
            else:
                steps.append(self.pick(["aggregate {n = count this}", "group {g} (take 1)", "group {g} (sort a | take 2..3)", "group {g} (sort a | take 2..)"]))
                if "take 2..)" in steps[-1]:
                    tags.add("open_take_group")
                break
        return "from t\n" + "\n".join(steps), tags

    def f_empty(self):
        r = self.r
        k = r.randint(0, 6)
        tags = {"empty_select"}
        if k == 0:
            src = "from t\nselect {}"
        elif k == 1:
            src = "from t\ntake 10\naggregate {n = count this}"
        elif k == 2:
            src = "from t\nselect {}\n" + self.take_txt()
        elif k == 3:
            src = "from t\nsort a\nselect {}\ntake 3"
        elif k == 4:
            src = "from t\njoin u (==id)\nselect {}"
        elif k == 5:
            src = "from t\ngroup {g} (take 1)\naggregate {c = count this}"
        else:
            src = "from t\nfilter a > 1\nselect {}\nderive {one = 1}"
        if src.rstrip().endswith(".."):
            tags.add("open_take")
        return src, tags

    def f_sort_dropped(self):
        r = self.r
        k = r.randint(0, 7)
        tags = {"sort_dropped"}
        if k == 0:
            src = "from t\nsort a\nselect {b}"
        elif k == 1:
            src = "from t\nsort {a, -c}\nselect {b}\ntake 3"
        elif k == 2:
            src = "from t\nsort a\nderive {r = row_number this}\nfilter r > 1\nselect {b}"
        elif k == 3:
            src = "from t\nsort {a + b}\nselect {c}"
        elif k == 4:
            src = "from t\njoin u (==id)\nsort {u.d}\nselect {t.a}"
        elif k == 5:
            src = "from t\nsort a\nselect {b}\njoin u (u.id == b)\nselect {u.d}"
        elif k == 6:
            src = "from t\nsort a\ntake 5\nselect {b}\nfilter b > 1"
        else:
            src = "from t\nderive {k = a * 2}\nsort k\nselect {b}\n" + self.take_txt()
        if src.rstrip().endswith(".."):
            tags.add("open_take")
        return src, tags

    def f_quoted(self):
        r = self.r
        k = r.randint(0, 6)
        tags = {"quoted"}
        if k == 0:
            src = "from `my table`\nselect {`order`, `a b`, `Mixed`}"
        elif k == 1:
            src = "from `my table`\nfilter `a b` > 1\nsort `order`\ntake 2"
        elif k == 2:
            src = "from order = t\njoin `group` = u (order.id == `group`.id)\nselect {order.a, `group`.d}"
        elif k == 3:
            src = "from t\nderive {`table` = a, `where` = b}\nfilter `table` > 1\nsort `where`"
        elif k == 4:
            src = "from `my table`\nderive {`x y` = a + 1}\ntake 3\nfilter `x y` > 2"
        elif k == 5:
            src = "from t\nselect {`Order` = a, `user` = b, `Table` = c}\nsort `Order`"
        else:
            src = "from `my table`\ngroup {`order`} (aggregate {`max a` = max a})\nsort {-`max a`}"
        return src, tags

    def f_distinct(self):
        r = self.r
        k = r.randint(0, 5)
        tags = {"distinct"}
        if k == 0:
            src = "from t\nselect {a, g}\ngroup {a, g} (take 1)"
        elif k == 1:
            src = "from t\ngroup {g} (sort a | take 1)"
            tags.add("distinct_on")
        elif k == 2:
            src = "from t\ngroup {g} (sort {-a} | take 1)\nselect {g, a}\nsort g"
            tags.add("distinct_on")
        elif k == 3:
            src = "from t\nselect {a}\ngroup {a} (take 1)\nsort a\n" + self.take_txt()
        elif k == 4:
            src = "from t\ngroup {g} (take 1)\njoin u (==g)"
            tags.add("distinct_on"); tags.add("join_wild")
        else:
            src = "from t\nselect {a, b}\ngroup {a, b} (take 1)\nderive {z = a + b}\nfilter z > 1"
        if src.rstrip().endswith(".."):
            tags.add("open_take")
        return src, tags

    def f_sort_setop(self):
        """a sort in effect in front of append / remove / intersect / loop, its key kept or dropped by the select before the
        operation (C07-N12: the sort column is added to the first operand only)"""
        r = self.r
        key = self.pick(["a", "b", "b", "{-b, id}", "c", "{a}"])
        op = self.pick(["append", "append", "remove", "intersect", "loop", "loop"])
        mid = self.pick(["", "", "take 3\n", "filter a > 0\n", "derive {z = b + 1}\n"])
        tags = {"sort_setop", op}
        if op == "loop":
            top = "from t\nsort %s\n%sselect {n = a}" % (key, mid)
            body = self.pick(["filter n < 4 | select {n = n + 1}", "filter n < 3 | derive {k = n + 1} | select {n = k}", "filter n < 4"])
            src = "%s\nloop (%s)" % (top, body)
            post = self.pick(["", "", "\ntake 3", "\nsort n", "\naggregate {s = sum n}", "\njoin u (u.id == n)\nselect {n, u.d}"])
        else:
            cl = self.pick(["a", "a, g", "n = a"])
            top = "from t\nsort %s\n%sselect {%s}" % (key, mid, cl)
            bot = self.pick(["from u | select {%s}" % cl, "from u | filter a > 1 | select {%s}" % cl, "from u | sort d | select {%s}" % cl])
            src = "%s\n%s (%s)" % (top, op, bot)
            post = self.pick(["", "", "\ntake 3", "\nsort %s" % ("n" if cl.startswith("n") else "a"), "\naggregate {c = count this}", "\nfilter %s > 1" % ("n" if cl.startswith("n") else "a")])
        return src + post, tags

    # programs whose defect was repaired in /repo (a recurrence has no classifier: VIOLATION)
    REPAIRED = [
        ("99a89d3", "from Table_0\nderive {w = sum a}\nfilter w > 1"),
        ("99a89d3", "from Table_0\nselect {a, g}\ntake 3\nfilter a > 1\nsort g\ntake 2"),
        ("99a89d3", "from t\njoin Table_0 (t.a == Table_0.a)\ntake 3\nfilter t.b > 1\nselect {t.a, Table_0.g}"),
        ("99a89d3", "from t\njoin TABLE_0 = u (==id)\ntake 3\nfilter t.a > 1\nselect {t.a, TABLE_0.d}"),
        ("a131b2a", "let x = (from u)\nfrom t\nderive {y = x}"),
        ("a131b2a", "from t\nderive {y = math}"),
        ("a131b2a", "let x = (from u | select {a})\nfrom t\nfilter a == x"),
        ("f0c772e", "from u\nselect {a, g}\nremove (from w)"),
        ("f0c772e", "from w\nremove (from t | filter a > 0 | select {a, g})\naggregate {n = count this}"),
        ("f0c772e", "from u\nselect {a, g}\nintersect (from w)\nselect {a}"),
        ("6d6f07a", "from t\nselect {a, g}\nappend (from w)"),
        ("6d6f07a", "from w\nappend (from t | select {a, g})\ntake 3"),
        ("7b31f75", "from t\nwindow rows:1..0 (derive {w = sum a})"),
        ("7b31f75", "from t\ngroup {g} (window range:2..1 (sort a | derive {w = sum a}))"),
        ("3561315", "from t\ngroup {g} (sort a | take 1)\nselect {g, a}\ngroup {g, a} (take 1)"),
        ("eae33f3", "from t\ngroup {g} (sort a | take 2..1)"),
        ("755de8e", "from t\nderive {_expr_0 = a}\nsort {-b + c}\ntake 3\nfilter _expr_0 > 1"),
        ("e9c9719", "from t\nselect {a, g}\ngroup {a, g} (take 1)\njoin y = (from u | select {a, g}) (t.a == y.g && t.g == y.a)\nselect {t.a, t.g}"),
        ("21d8d82", "from t\nselect {a, g}\ngroup {a, g} (take 1)\njoin y = (from u | select {a, g}) (t.a == y.a && t.g == y.g)\nselect {t.a, t.g, k = y.g}"),
        ("8204886", 'from_text """\na,b\n"""\nderive {c = a}'),
        ("287b286", "from [{a = 1 + 1}]"),
        ("d92afac", "module m {\n  let x = (from t | select {a})\n  let y = (from x | take 2)\n}\nfrom m.y"),
        ("8d54bf7", "from t\nsort b\naggregate {s = sum a}\nderive {r = row_number this}"),
        ("8d54bf7", "from t\nsort b\naggregate {s = sum a}\ntake 2..\nfilter s > 1"),
        ("456bdcd", "from t\nsort id\nselect {a, b}\ntake 2\ngroup {a} (aggregate {n = count b})"),
        ("7911778", "from t\nselect {a + 1, b + 1}\njoin u (true)\ntake 3"),
        # guards (no fix commit): valid today because assign_names renames a declaration whose name is taken
        ("guard-assign-names", "let t = (from t | select {a, b})\nfrom t\nfilter a > 1"),
        ("guard-assign-names", "module m1 {\n  let x = (from t | select {a} | take 3)\n}\nmodule m2 {\n  let x = (from u | select {a} | take 2)\n}\nfrom b = m1.x\njoin y = m2.x (b.a == y.a)\nselect {b.a, ya = y.a}"),
        ("guard-assign-names", "module m1 {\n  let x = (from t | select {a} | take 3)\n}\nmodule m2 {\n  let x = (from u | select {a} | take 2)\n}\nfrom m1.x\nappend m2.x"),
        ("guard-assign-names", "let u = (from u | filter a > 1 | take 4)\nfrom t\njoin u (==id)\nselect {t.a, u.d}"),
        ("1f1ce08", "from t\ngroup {a} (aggregate {x6 = count b})\nselect {a}\ngroup {a} (take 1)\naggregate {x9 = count this}"),
        ("1f1ce08", "from t\ngroup {a, g} (aggregate {m = max b})\nselect {a, g}\ngroup {a, g} (take 1)\naggregate {n = count this}"),
        ("1cedbd3", "from t\ntake 4294967296"), ("1cedbd3", "from t\ntake 3..4294967300"), ("1cedbd3", "from t\nsort a\ntake 2..\ntake ..4294967296"),
        ("4cb0b4e", "from t\ngroup this (derive {r = row_number this})"), ("4cb0b4e", "from t\nselect {a, g}\ngroup this (derive {r = row_number this})"),
        ("91a6a23", "from t\nwindow range:-1..1 (derive {w = sum a})"), ("91a6a23", "from t\nwindow range:-1..1 (sort {a, b} | derive {w = sum a})"),
        ("91a6a23", "from t\ngroup {g} (window range:-2..0 (derive {w = max a}))"), ("91a6a23", "from t\nwindow range:-1..1 (sort a | derive {w = sum a})"),
        ("006e33c", "from t\nderive {x = that}"),
        ("006e33c", "from t\njoin u (==id)\nfilter that.a > 1"),
        ("7f02b48", "module m {\n  let x = (from t | select {a})\n  module n {\n    let y = (from x | take 2)\n  }\n}\nfrom m.n.y"),
        ("7f02b48", "let x = (from u | select {d})\nmodule m {\n  let x = (from t | select {a})\n  let y = (from x | take 2)\n}\nfrom m.y\nselect {a}"),
        ("bb7bbd5", "from v\nderive {r = (s | text.contains (s + \"b\"))}"),
        ("bb7bbd5", "from v\nfilter (s | text.starts_with (case [x > 1 => \"a\", true => \"b\"]))\nselect {s}"),
    ]

    @classmethod
    def repaired_cases(cls):
        """every program of REPAIRED, as directed cases of every run"""
        return [{"src": src, "fam": "repaired", "tags": ["fix:" + c, "repaired"]} for c, src in cls.REPAIRED]

    FAMILIES = ["core", "core_nosel", "window", "setops", "loop", "literal", "cast_std", "sstring", "join", "let", "take", "empty", "sort_dropped", "quoted", "distinct", "sort_setop"]
    WEIGHTS = [5, 2, 3, 4, 1.5, 1.5, 3, 1.5, 3, 1.5, 3, 1, 1.5, 1.2, 1.2, 1.5]

    def case(self, fam=None):
        fam = fam or self.r.choices(self.FAMILIES, weights=self.WEIGHTS)[0]
        src, tags = getattr(self, "f_" + fam)()
        return {"src": src, "fam": fam, "tags": sorted(tags)}

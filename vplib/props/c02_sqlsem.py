"""Python mirror of Model/SqlSem.v: SQLite's scalar semantics over the engine's reading of an emitted
expression (a term printed by Coq).  Values: None | int | Fraction (a Fraction is a REAL, even if integral)."""
from fractions import Fraction

from . import c02_gen as G


class Unmodelled(Exception):
    pass


def short(x):
    return x.split(".")[-1] if isinstance(x, str) else x


def text(codes):
    return "".join(chr(c) for c in codes)


def tree_py(x):
    """('Some', term) -> python tree ; 'None' -> None"""
    if not (isinstance(x, tuple) and x and short(x[0]) == "Some"):
        return None
    return conv(x[1])


def conv(t):
    h = short(t[0])
    if h == "Atom":
        a = t[1]
        if short(a[0]) == "AText":
            return ("atom", text(a[1]))
        return ("hole",)
    if h == "Bin":
        return ("bin", short(t[1]), conv(t[2]), conv(t[3]))
    if h == "Un":
        return ("un", short(t[1]), conv(t[2]))
    if h == "Call":
        f = t[1]
        name = "CASE" if short(f) == "FCase" else text(f[1])
        return ("call", name, [conv(a) for a in t[2]])
    raise ValueError("unexpected term head %r" % (h,))


def triples_py(x):
    """(list (str*nat*str), list (str*str)) as printed by Coq -> ([(p, site, c)], [(o, o2)])"""
    if x is None:
        return None
    tr, rp = x
    return ([(text(p), n, text(c)) for p, n, c in tr], [(text(a), text(b)) for a, b in rp])


def truth(v):
    return None if v is None else (v != 0)


def arith(op, x, y):
    if x is None or y is None:
        return None
    if isinstance(x, int) and isinstance(y, int):
        return {"SAdd": x + y, "SSub": x - y, "SMul": x * y}[op]
    fx, fy = Fraction(x), Fraction(y)
    return {"SAdd": fx + fy, "SSub": fx - fy, "SMul": fx * fy}[op]


def trunc_div(x, y):
    q = abs(x) // abs(y)
    return q if (x >= 0) == (y >= 0) else -q


def round_half_away(q):
    from math import floor
    if q >= 0:
        return floor(q + Fraction(1, 2))
    return -floor(-q + Fraction(1, 2))


def atom_val(s, env):
    if s == "NULL":
        return None
    if s == "true":
        return 1
    if s == "false":
        return 0
    if len(s) == 1 and "a" <= s <= "z":
        return env[ord(s) - 97]
    try:
        if "." in s:
            return Fraction(s)
        return int(s)
    except ValueError:
        raise Unmodelled(s)


def cmp(op, x, y):
    if x is None or y is None:
        return None
    fx, fy = Fraction(x), Fraction(y)
    return 1 if {"SEq": fx == fy, "SNe": fx != fy, "SLt": fx < fy, "SLe": fx <= fy, "SGt": fx > fy, "SGe": fx >= fy}[op] else 0


def and3(x, y):
    a, b = truth(x), truth(y)
    if a is False or b is False:
        return 0
    return 1 if (a and b) else None


def or3(x, y):
    a, b = truth(x), truth(y)
    if a is True or b is True:
        return 1
    return 0 if (a is False and b is False) else None


def eval_sql(t, env):
    k = t[0]
    if k == "atom":
        return atom_val(t[1], env)
    if k == "hole":
        raise Unmodelled("hole")
    if k == "un":
        v = eval_sql(t[2], env)
        if t[1] == "SNot":
            b = truth(v)
            return None if b is None else (0 if b else 1)
        if t[1] == "SNeg":
            return None if v is None else G.chk(-v)
        return v
    if k == "bin":
        op = t[1]
        if op == "SBetween":
            x = eval_sql(t[2], env)
            if t[3][0] != "bin" or t[3][1] != "SBand":
                raise Unmodelled("BETWEEN without AND")
            lo = eval_sql(t[3][2], env)
            hi = eval_sql(t[3][3], env)
            return and3(cmp("SGe", x, lo), cmp("SLe", x, hi))
        if op == "SBand":
            raise Unmodelled("stray BETWEEN-AND")
        x = eval_sql(t[2], env)
        y = eval_sql(t[3], env)
        if op in ("SAdd", "SSub", "SMul"):
            return G.chk(arith(op, x, y))
        if op == "SDiv":
            if x is None or y is None:
                return None
            if isinstance(x, int) and isinstance(y, int):
                return None if y == 0 else trunc_div(x, y)
            return None if y == 0 else G.chk(Fraction(x) / Fraction(y))
        if op == "SMod":
            if x is None or y is None:
                return None
            if isinstance(x, int) and isinstance(y, int):
                return None if y == 0 else x - y * trunc_div(x, y)
            raise Unmodelled("% on reals")
        if op in ("SEq", "SNe", "SLt", "SLe", "SGt", "SGe"):
            return cmp(op, x, y)
        if op == "SAnd":
            return and3(x, y)
        if op == "SOr":
            return or3(x, y)
        if op in ("SIs", "SIsNot"):
            eq = (x is None and y is None) or (x is not None and y is not None and Fraction(x) == Fraction(y))
            return 1 if eq == (op == "SIs") else 0
        raise Unmodelled(op)
    if k == "call":
        name, args = t[1], [eval_sql(a, env) for a in t[2]]
        if name == "CASE":
            i = 0
            while i + 1 < len(args):
                if truth(args[i]) is True:
                    return args[i + 1]
                i += 2
            return args[i] if i < len(args) else None
        if name == "COALESCE" and len(args) == 2:
            return args[1] if args[0] is None else args[0]
        if len(args) == 1:
            x = args[0]
            if name in ("ROUND", "ABS", "SIGN", "FLOOR") and x is None:
                return None
            if name == "ROUND":
                return Fraction(x) if isinstance(x, int) else Fraction(round_half_away(x))
            if name == "ABS":
                return abs(x)
            if name == "SIGN":
                return (x > 0) - (x < 0)
            if name == "FLOOR":
                from math import floor
                return x if isinstance(x, int) else Fraction(floor(x))
        if name == "POW" and len(args) == 2:
            x, y = args
            if x is None or y is None:
                return None
            fy = Fraction(y)
            if fy.denominator != 1 or fy < 0:
                raise Unmodelled("POW exponent")
            if abs(Fraction(x)) > 1 and fy > 64:
                raise G.Inexact()
            return G.chk(Fraction(x) ** int(fy))
        raise Unmodelled(name)
    raise ValueError(k)


def same_sql(pred, obs):
    if pred is None or obs is None:
        return pred is None and obs is None
    if isinstance(obs, tuple):
        return False
    return Fraction(pred) == Fraction(obs)

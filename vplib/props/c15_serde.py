"""Python mirror of coq/Model/Serde.v (ser / de over the descriptor environment extracted by gen_serde),
used for volume; a sample of every run is cross-checked against `Eval vm_compute` of the Coq definitions.

JSON trees keep object key order: ("obj", [(k, v), ...]); arrays are lists; numbers int / float.
Generic values are tagged tuples mirroring the Coq constructors:
  ("VStr", s) ("VInt", z) ("VFloat", x | None) ("VBool", b) ("VChar", c) ("VNone",) ("VSome", v)
  ("VList", [..]) ("VTuple", [..]) ("VMap", [(k, v)..]) ("VStruct", [..]) ("VEnum", tag, [..])
  ("VSpan", id, s, e) ("VIdent", [path..], name)
"""
import json
import math


class DeErr(Exception):
    pass


# ---------------------------------------------------------------- semver::VersionReq (python twin of Model/VersionReq.v)
U64 = 1 << 64
_OPS = {"OpExact": "=", "OpGt": ">", "OpGe": ">=", "OpLt": "<", "OpLe": "<=", "OpTilde": "~", "OpCaret": "^", "OpWild": ""}


def _trim(s):
    return s.lstrip(" ")


def _num_ident(s):
    n = 0
    while n < len(s) and s[n] in "0123456789":
        n += 1
    if n == 0 or (s[0] == "0" and n > 1) or int(s[:n]) >= U64:
        return None
    return int(s[:n]), s[n:]


def _wildcard(s):
    return s[1:] if s[:1] in ("*", "x", "X") and s else None


def _parse_cmp(s):
    dflt = False
    if s[:1] == "=":
        op, t = "OpExact", s[1:]
    elif s[:2] == ">=":
        op, t = "OpGe", s[2:]
    elif s[:1] == ">":
        op, t = "OpGt", s[1:]
    elif s[:2] == "<=":
        op, t = "OpLe", s[2:]
    elif s[:1] == "<":
        op, t = "OpLt", s[1:]
    elif s[:1] == "~":
        op, t = "OpTilde", s[1:]
    elif s[:1] == "^":
        op, t = "OpCaret", s[1:]
    else:
        op, t, dflt = "OpCaret", s, True
    r = _num_ident(_trim(t))
    if r is None:
        return None
    maj, t = r
    mi = pa = None
    hasw = False
    if t[:1] == ".":
        w = _wildcard(t[1:])
        if w is not None:
            hasw = True; t = w
            if dflt:
                op = "OpWild"
        else:
            r = _num_ident(t[1:])
            if r is None:
                return None
            mi, t = r
    if t[:1] == ".":
        w = _wildcard(t[1:])
        if w is not None:
            t = w
            if dflt:
                op = "OpWild"
        elif hasw:
            return None
        else:
            r = _num_ident(t[1:])
            if r is None:
                return None
            pa, t = r
    pre = ""
    if pa is not None and t[:1] == "-":
        r = _identifier(True, t[1:])
        if r is None:
            return None
        pre, t = r
    if pa is not None and t[:1] == "+":
        r = _identifier(False, t[1:])      # build metadata: checked and dropped
        if r is None:
            return None
        t = r[1]
    return (op, maj, mi, pa, pre), _trim(t)


_IDENT = set("0123456789ABCDEFGHIJKLMNOPQRSTUVWXYZabcdefghijklmnopqrstuvwxyz-")


def _identifier(pre, s):
    n = 0
    while n < len(s) and (s[n] in _IDENT or s[n] == "."):
        n += 1
    body = s[:n]
    for seg in body.split("."):
        if seg == "" or (pre and len(seg) > 1 and seg[0] == "0" and seg.isdigit() and seg.isascii()):
            return None
    return body, s[n:]


def vreq_parse(text):
    t = _trim(text)
    w = _wildcard(t)
    if w is not None:
        return [] if _trim(w) == "" else None
    out = []
    while True:
        if len(out) == 32:
            return None
        r = _parse_cmp(t)
        if r is None:
            return None
        c, t = r
        out.append(c)
        if t == "":
            return out
        if t[0] != ",":
            return None
        t = _trim(t[1:])


def vreq_print(cs):
    if not cs:
        return "*"
    parts = []
    for op, maj, mi, pa, pre in cs:
        s = _OPS[op] + str(maj)
        wild = ".*" if op == "OpWild" else ""
        if mi is not None:
            s += "." + str(mi)
            s += "." + str(pa) + ("-" + pre if pre else "") if pa is not None else wild
        else:
            s += wild
        parts.append(s)
    return ", ".join(parts)


def vreq_normalise(text):
    r = vreq_parse(text)
    return None if r is None else vreq_print(r)


def loads(text):
    return json.loads(text, object_pairs_hook=lambda ps: ("obj", ps), parse_constant=lambda c: ("const", c))


def dumps(j):
    if isinstance(j, tuple) and j[0] == "obj":
        return "{" + ",".join(json.dumps(k, ensure_ascii=False) + ":" + dumps(v) for k, v in j[1]) + "}"
    if isinstance(j, list):
        return "[" + ",".join(dumps(x) for x in j) + "]"
    if isinstance(j, float):
        return repr(j)
    return json.dumps(j, ensure_ascii=False)


def unbox(d):
    while d[0] == "DBox":
        d = d[1]
    return d


class Env:
    def __init__(self, info):
        self.defs = dict(info["env"])
        self.roots = {k: ("DRef", v) for k, v in info["roots"].items()}
        # coverage universe
        self.universe = set()
        for n, df in info["env"]:
            if df[0] == "DefEnum":
                for vn, sh in df[1]:
                    self.universe.add(("variant", n, vn))
                    if sh[0] == "SStruct":
                        self._field_universe("%s::%s" % (n, vn), sh[1])
            elif df[0] == "DefStruct":
                self._field_universe(n, df[1])
        self.hit = set()

    def _field_universe(self, where, fs):
        for f in fs:
            d = unbox(f["desc"])
            if d[0] == "DOption":
                self.universe.add(("opt", where, f["name"], "some")); self.universe.add(("opt", where, f["name"], "none"))
            if f["skip"] != "SkipNever":
                self.universe.add(("skip", where, f["name"], "present")); self.universe.add(("skip", where, f["name"], "absent"))
            if d[0] in ("DVec", "DMap"):
                self.universe.add(("seq", where, f["name"], "empty")); self.universe.add(("seq", where, f["name"], "nonempty"))

    def struct_def(self, d):
        d = unbox(d)
        return self.defs.get(d[1]) if d[0] == "DRef" else None

    def enum_shape(self, d, tag):
        df = self.struct_def(d)
        if df and df[0] == "DefEnum":
            for vn, sh in df[1]:
                if vn == tag:
                    return sh
        return None

    def name_of(self, d):
        d = unbox(d)
        return d[1] if d[0] == "DRef" else "?"

    # ------------------------------------------------------------ ser
    def ser(self, d, v):
        k = v[0]
        if k == "VStr":
            return v[1]
        if k == "VInt":
            return v[1]
        if k == "VFloat":
            return None if v[1] is None else v[1]
        if k == "VBool":
            return v[1]
        if k == "VChar":
            return v[1]
        if k == "VNone":
            return None
        if k == "VSome":
            dd = unbox(d)
            return self.ser(dd[1] if dd[0] == "DOption" else ("DStr",), v[1])
        if k == "VList":
            dd = unbox(d)
            inner = dd[1] if dd[0] in ("DVec", "DMap") else ("DStr",)
            return [self.ser(inner, x) for x in v[1]]
        if k == "VTuple":
            dd = unbox(d)
            ds = dd[1] if dd[0] == "DTuple" else []
            return [self.ser(a, b) for a, b in zip(ds, v[1])]
        if k == "VMap":
            dd = unbox(d)
            inner = dd[1] if dd[0] in ("DVec", "DMap") else ("DStr",)
            return ("obj", [(kk, self.ser(inner, x)) for kk, x in v[1]])
        if k == "VStruct":
            df = self.struct_def(d)
            if df and df[0] == "DefStruct":
                return ("obj", self.ser_fields(df[1], v[1]))
            if df and df[0] == "DefNewtype":
                return self.ser(df[1], v[1][0]) if len(v[1]) == 1 else None
            return None
        if k == "VEnum":
            sh = self.enum_shape(d, v[1])
            if sh is None:
                return None
            if sh[0] == "SUnit":
                return v[1]
            p = self.ser_payload(sh, v[2])
            if p is NotImplemented:
                return None
            return ("obj", [(v[1], p)])
        if k == "VSpan":
            return "%d:%d-%d" % (v[1], v[2], v[3])
        if k == "VIdent":
            return list(v[1]) + [v[2]]
        raise ValueError(v)

    def ser_payload(self, sh, p):
        if sh[0] == "SUnit":
            return None
        if sh[0] == "SNewtype":
            return self.ser(sh[1], p[0]) if len(p) == 1 else NotImplemented
        if sh[0] == "STuple":
            return [self.ser(a, b) for a, b in zip(sh[1], p)]
        return ("obj", self.ser_fields(sh[1], p))

    @staticmethod
    def skipped(skip, v):
        return ((skip == "SkipIfNone" and v == ("VNone",)) or (skip == "SkipIfEmptyVec" and v == ("VList", []))
                or (skip == "SkipIfEmptyMap" and v == ("VMap", [])) or (skip == "SkipIfFalse" and v == ("VBool", False)))

    def ser_fields(self, fs, vs):
        out = []
        for f, v in zip(fs, vs):
            if f["flatten"]:
                if v[0] == "VEnum":
                    sh = self.enum_shape(f["desc"], v[1])
                    if sh is not None and sh[0] != "SStruct":
                        p = self.ser_payload(sh, v[2])
                        if p is not NotImplemented:
                            out.append((v[1], p))
            elif self.skipped(f["skip"], v):
                pass
            else:
                out.append((f["name"], self.ser(f["desc"], v)))
        return out

    # ------------------------------------------------------------ de
    def de(self, d, j, where="?"):
        k = d[0]
        if k == "DBox":
            return self.de(d[1], j, where)
        if k == "DOption":
            if j is None:
                return ("VNone",)
            return ("VSome", self.de(d[1], j, where))
        if k == "DVec":
            if not isinstance(j, list):
                raise DeErr("expected array at %s" % where)
            return ("VList", [self.de(d[1], x, where) for x in j])
        if k == "DMap":
            if not (isinstance(j, tuple) and j[0] == "obj"):
                raise DeErr("expected object at %s" % where)
            out = []            # HashMap::insert: a repeated key replaces the value (Model/Serde.v dedup_last)
            for kk, x in j[1]:
                v = self.de(d[1], x, where)
                for i, (k0, _) in enumerate(out):
                    if k0 == kk:
                        out[i] = (kk, v); break
                else:
                    out.append((kk, v))
            return ("VMap", out)
        if k == "DTuple":
            if not isinstance(j, list) or len(j) != len(d[1]):
                raise DeErr("expected %d-array at %s" % (len(d[1]), where))
            return ("VTuple", [self.de(a, b, where) for a, b in zip(d[1], j)])
        if k == "DRef":
            df = self.defs.get(d[1])
            if df is None:
                raise DeErr("unknown type %s" % d[1])
            if df[0] == "DefNewtype":
                return ("VStruct", [self.de_prim(df[1], j, d[1])])
            if df[0] == "DefStruct":
                if isinstance(j, list):
                    return ("VStruct", self.de_struct_seq(df[1], j, d[1]))
                if not (isinstance(j, tuple) and j[0] == "obj"):
                    raise DeErr("expected object for %s" % d[1])
                return ("VStruct", self.de_fields(df[1], j[1], d[1]))
            # enum
            if isinstance(j, str):
                sh = self.enum_shape(d, j)
                if sh is None or sh[0] != "SUnit":
                    raise DeErr("string %r is not a unit variant of %s" % (j, d[1]))
                self.hit.add(("variant", d[1], j))
                return ("VEnum", j, [])
            if isinstance(j, tuple) and j[0] == "obj" and len(j[1]) == 1:
                tag, x = j[1][0]
                sh = self.enum_shape(d, tag)
                if sh is None:
                    raise DeErr("unknown variant %s of %s" % (tag, d[1]))
                self.hit.add(("variant", d[1], tag))
                return ("VEnum", tag, self.de_payload(sh, x, "%s::%s" % (d[1], tag)))
            raise DeErr("expected string or single-key object for enum %s" % d[1])
        if k == "DOpaque":
            if d[1] == "CSpan":
                if not isinstance(j, str):
                    raise DeErr("span: expected string")
                return ("VSpan",) + self.span_de(j)
            if d[1] == "CIdent":
                if not isinstance(j, list) or not j or not all(isinstance(x, str) for x in j):
                    raise DeErr("ident: expected non-empty array of strings")
                return ("VIdent", j[:-1], j[-1])
            if d[1] == "CVersionReq":
                if not isinstance(j, str):
                    raise DeErr("version: expected string")
                n = vreq_normalise(j)        # Model/Serde.v de_opaque CVersionReq: from_str, held as its Display form
                if n is None:
                    raise DeErr("version: not a semver requirement (or pre-release / build metadata: not modelled)")
                return ("VStr", n)
        return self.de_prim(d, j, where)

    @staticmethod
    def parse_dec(s, bound):
        body = s[1:] if s[:1] == "+" else s
        if not body or not all("0" <= c <= "9" for c in body):
            raise DeErr("bad number %r" % s)
        v = int(body)
        if v >= bound:
            raise DeErr("number out of range %r" % s)
        return v

    def span_de(self, t):
        if ":" not in t:
            raise DeErr("malformed span")
        a, rest = t.split(":", 1)
        i = self.parse_dec(a, 1 << 16)
        if "-" not in rest:
            raise DeErr("malformed span")
        b, c = rest.split("-", 1)
        return (i, self.parse_dec(b, 1 << 64), self.parse_dec(c, 1 << 64))

    def de_prim(self, d, j, where):
        k = d[0]
        if k == "DStr" and isinstance(j, str):
            return ("VStr", j)
        if k == "DInt" and isinstance(j, int) and not isinstance(j, bool):
            if d[1] <= j <= d[2]:
                return ("VInt", j)
            raise DeErr("integer out of range at %s" % where)
        if k == "DFloat" and isinstance(j, float):
            return ("VFloat", j)
        if k == "DFloat" and isinstance(j, int) and not isinstance(j, bool):
            # serde_json hands an integer token to the f64 visitor as `z as f64`: the nearest binary64, ties to even
            # (python's int -> float is correctly rounded too); Model/Serde.v int_float_repr
            try:
                return ("VFloat", float(j))
            except OverflowError:
                raise DeErr("integer rounds to infinity at %s" % where)
        if k == "DBool" and isinstance(j, bool):
            return ("VBool", j)
        if k == "DChar" and isinstance(j, str) and len(j) == 1:
            return ("VChar", j)
        raise DeErr("type mismatch at %s: %s vs %r" % (where, k, j if not isinstance(j, (list, tuple)) else type(j).__name__))

    def de_payload(self, sh, j, where):
        if sh[0] == "SUnit":
            if j is not None:
                raise DeErr("unit variant with payload at %s" % where)
            return []
        if sh[0] == "SNewtype":
            return [self.de(sh[1], j, where)]
        if sh[0] == "STuple":
            if not isinstance(j, list) or len(j) != len(sh[1]):
                raise DeErr("tuple variant arity at %s" % where)
            return [self.de(a, b, where) for a, b in zip(sh[1], j)]
        if isinstance(j, list):
            return self.de_struct_seq(sh[1], j, where)
        if not (isinstance(j, tuple) and j[0] == "obj"):
            raise DeErr("struct variant expects object at %s" % where)
        return self.de_fields(sh[1], j[1], where)

    def de_struct_seq(self, fs, l, where):
        """Model/Serde.v de_struct_seq: serde-derive's visit_seq (fields in order; exhausted array: `default` fields get their
        default, any other field is invalid length; extra elements are an error; no visit_seq with a flatten field)"""
        if any(f["flatten"] for f in fs):
            raise DeErr("array for a struct with a flattened field at %s" % where)
        if len(l) > len(fs):
            raise DeErr("too many elements for struct at %s" % where)
        out = []
        for i, f in enumerate(fs):
            if i < len(l):
                out.append(self.de(f["desc"], l[i], where + "." + f["name"]))
            elif f["default"]:
                v = self.default_of(f["desc"])
                if v is None:
                    raise DeErr("default of an unmodelled type at %s.%s" % (where, f["name"]))
                out.append(v)
            else:
                raise DeErr("invalid length %d for struct at %s" % (len(l), where))
        return out

    @staticmethod
    def default_of(d):
        d = unbox(d)
        return {"DOption": ("VNone",), "DVec": ("VList", []), "DMap": ("VMap", []), "DBool": ("VBool", False)}.get(d[0])

    def de_fields(self, fs, kvs, where):
        own = [f["name"] for f in fs if not f["flatten"]]
        seen_own = [kk for kk, _ in kvs if kk in own]
        if len(seen_own) != len(set(seen_own)):
            raise DeErr("duplicate field at %s" % where)      # Model/Serde.v de_fields: nodupb (own_keys ..)
        out = []
        for f in fs:
            if f["flatten"]:
                df = self.struct_def(f["desc"])
                if not df or df[0] != "DefEnum":
                    raise DeErr("flatten of a non-enum at %s" % where)
                found = None
                for kk, x in kvs:
                    if kk in own:
                        continue
                    sh = self.enum_shape(f["desc"], kk)
                    if sh is not None:
                        found = (kk, sh, x); break
                if found is None:
                    raise DeErr("no variant of %s found in flattened data at %s" % (self.name_of(f["desc"]), where))
                tag, sh, x = found
                if sh[0] == "SStruct":
                    raise DeErr("struct variant inside flatten is not modelled")
                self.hit.add(("variant", self.name_of(f["desc"]), tag))
                out.append(("VEnum", tag, self.de_payload(sh, x, where + "." + tag)))
                continue
            present = [x for kk, x in kvs if kk == f["name"]]
            if present:
                v = self.de(f["desc"], present[0], where + "." + f["name"])
                if f["skip"] != "SkipNever":
                    self.hit.add(("skip", where, f["name"], "present"))
            else:
                if f["skip"] != "SkipNever":
                    self.hit.add(("skip", where, f["name"], "absent"))
                if f["default"]:
                    v = self.default_of(f["desc"])
                    if v is None:
                        raise DeErr("default of an unmodelled type at %s.%s" % (where, f["name"]))
                elif unbox(f["desc"])[0] == "DOption":
                    v = ("VNone",)
                else:
                    raise DeErr("missing field %s at %s" % (f["name"], where))
            dd = unbox(f["desc"])
            if dd[0] == "DOption":
                self.hit.add(("opt", where, f["name"], "none" if v == ("VNone",) else "some"))
            if dd[0] in ("DVec", "DMap"):
                self.hit.add(("seq", where, f["name"], "empty" if not v[1] else "nonempty"))
            out.append(v)
        return out

    # ------------------------------------------------------------ properties of values
    def json_ok(self, v):
        k = v[0]
        if k == "VFloat":
            return v[1] is not None
        if k == "VSome":
            return self.json_ok(v[1])
        if k in ("VList", "VTuple", "VStruct"):
            return all(self.json_ok(x) for x in v[1])
        if k == "VEnum":
            return all(self.json_ok(x) for x in v[2])
        if k == "VMap":
            return all(self.json_ok(x) for _, x in v[1])
        return True

    def coverage(self):
        hit = self.hit & self.universe
        miss = sorted(self.universe - hit)
        return {"universe": len(self.universe), "hit": len(hit), "missed": ["/".join(m) for m in miss][:60]}

    # ------------------------------------------------------------ descriptor-driven generator
    def gen(self, d, rng, depth, finite=True):
        """a random well-typed generic value of descriptor d; depth bounds recursion through DRef"""
        k = d[0]
        if k == "DBox":
            return self.gen(d[1], rng, depth, finite)
        if k == "DStr":
            return ("VStr", rng.choice(STRINGS))
        if k == "DInt":
            lo, hi = d[1], d[2]
            c = [x for x in (0, 1, 2, 7, 42, lo, hi, lo + 1, hi - 1, -1, 1 << 31, 1 << 53, (1 << 53) + 1, 1234567890123456789, -(1 << 53) - 1,
                           rng.randrange(1 << 53, 1 << 63), rng.randrange(-(1 << 63), -(1 << 53))) if lo <= x <= hi]
            return ("VInt", rng.choice(c))
        if k == "DFloat":
            if not finite and rng.random() < 0.3:
                return ("VFloat", None)
            return ("VFloat", rng.choice(FLOATS))
        if k == "DBool":
            return ("VBool", rng.random() < 0.5)
        if k == "DChar":
            return ("VChar", rng.choice("axé\"\\"))
        if k == "DOption":
            if rng.random() < 0.45 or depth <= 0 and self._recursive(d[1]):
                return ("VNone",)
            return ("VSome", self.gen(d[1], rng, depth - 1, finite))
        if k == "DVec":
            n = 0 if (depth <= 0 and self._recursive(d[1])) else rng.choice([0, 1, 1, 2, 3])
            return ("VList", [self.gen(d[1], rng, depth - 1, finite) for _ in range(n)])
        if k == "DMap":
            n = 0 if (depth <= 0 and self._recursive(d[1])) else rng.choice([0, 0, 1, 2, 3])
            keys = rng.sample(["a", "b", "side", "target", "x y", "é"], n)
            return ("VMap", [(kk, self.gen(d[1], rng, depth - 1, finite)) for kk in keys])
        if k == "DTuple":
            return ("VTuple", [self.gen(x, rng, depth - 1, finite) for x in d[1]])
        if k == "DOpaque":
            if d[1] == "CSpan":
                a = rng.choice([0, 1, 5, 1000, (1 << 64) - 2])
                return ("VSpan", rng.choice([0, 1, 2, 65535]), a, a + rng.choice([0, 1, 10]) if a < (1 << 63) else a)
            if d[1] == "CIdent":
                return ("VIdent", [rng.choice(IDENT_PARTS) for _ in range(rng.choice([0, 0, 1, 2]))], rng.choice(IDENT_PARTS))
            return ("VStr", rng.choice(VERSION_REQS))
        if k == "DRef":
            df = self.defs[d[1]]
            if df[0] == "DefNewtype":
                return ("VStruct", [self.gen(df[1], rng, depth, finite)])
            if df[0] == "DefStruct":
                return ("VStruct", [self.gen(f["desc"], rng, depth - 1, finite) for f in df[1]])
            vs = df[1]
            if depth <= 0:
                leaf = [x for x in vs if not self._shape_recursive(x[1])]
                vs = leaf or vs
            vn, sh = rng.choice(vs)
            return ("VEnum", vn, self.gen_payload(sh, rng, depth - 1, finite))
        raise ValueError(d)

    def gen_payload(self, sh, rng, depth, finite):
        if sh[0] == "SUnit":
            return []
        if sh[0] == "SNewtype":
            return [self.gen(sh[1], rng, depth, finite)]
        if sh[0] == "STuple":
            return [self.gen(x, rng, depth, finite) for x in sh[1]]
        return [self.gen(f["desc"], rng, depth, finite) for f in sh[1]]

    def _recursive(self, d):
        """does d mention a struct/enum type (i.e. can it grow)?"""
        k = d[0]
        if k in ("DBox", "DOption", "DVec", "DMap"):
            return self._recursive(d[1])
        if k == "DTuple":
            return any(self._recursive(x) for x in d[1])
        if k == "DRef":
            return self.defs[d[1]][0] != "DefNewtype"
        return False

    def _shape_recursive(self, sh):
        if sh[0] == "SUnit":
            return False
        if sh[0] == "SNewtype":
            return self._recursive(sh[1])
        if sh[0] == "STuple":
            return any(self._recursive(x) for x in sh[1])
        return any(self._recursive(f["desc"]) for f in sh[1])


STRINGS = ["", "a", "main", "x y", "éè", "q\"uote", "back\\slash", "nl\nline", "tab\t", " ", "emoji\U0001F600", "null", "0", "a.b", "{}", "\x00ctl"]
FLOATS = [0.5, 1.0, -2.25, 1e-07, 1e+16, 3.141592653589793, 1.7976931348623157e308, 5e-324, -0.0, 123456789.125]
IDENT_PARTS = ["a", "t", "std", "this", "my table", "x.y", "é", "", "select"]
# Display forms of semver requirements (pre-release / build metadata are outside Model/VersionReq.v)
VERSION_REQS = ["^0.13", ">=0.13.0, <0.14.0", "=1.2.3", "*", "~1.2", ">1.0.0", "1.*", "1.2.*", "<=2", "^0, <18446744073709551615.0.1", ">1.0.0-alpha.1", "=1.2.3-rc.1, <2.0.0-0"]


def random_version_text(rng):
    """a text in the neighbourhood of semver's requirement grammar"""
    r = rng.random()
    if r < 0.2:
        return rng.choice(VERSION_FIXED)
    if r < 0.65:
        # comparators as a person writes them: optional operator, spaces, partial versions, wildcards
        num = lambda: rng.choice(["0", "1", "2", "13", "10", "007", "18446744073709551615", "18446744073709551616"] + ["0", "1", "2", "13"] * 3)
        cs = []
        for _ in range(rng.choice([1, 1, 1, 2, 2, 3])):
            c = rng.choice(["", "", "=", ">", ">=", "<", "<=", "~", "^"]) + rng.choice(["", "", " ", "  "]) + num()
            k = rng.random()
            if k < 0.7:
                c += "." + rng.choice([num(), num(), "*", "x", "X"])
                if rng.random() < 0.6:
                    c += "." + rng.choice([num(), num(), "*", "x"])
                    if rng.random() < 0.35:
                        c += rng.choice(["-", "-", "+", "-a+"]) + ".".join(rng.choice(["a", "rc", "0", "1", "01", "x-y", "", "B2"]) for _ in range(rng.choice([1, 1, 2, 3])))
            cs.append(c + rng.choice(["", "", " "]))
        return rng.choice(["", "", " "]) + rng.choice([",", ", ", " ,", " , ", ","]).join(cs)
    alphabet = ["0", "1", "2", "9", "10", "13", ".", ".", ",", ", ", " ", "*", "x", ">", "<", "=", ">=", "<=", "~", "^", "00", "X"]
    return "".join(rng.choice(alphabet) for _ in range(rng.choice([1, 2, 3, 3, 4, 5, 6, 8])))


VERSION_FIXED = ["*", " * ", "x", "X", "*,1", "* 1", "", " ", "1", "1.2", "1.2.3", "01", "0", "00", "0.0.0", "1.02", ">=1.0, <2", ">= 1.0 ,<2", ">=1.0,<2 ",
                 "=1.2.3", "~1", "^0.13", "0.13", "1.*", "1.x", "1.X.3", "1.*.*", "1.2.*", ">=1.*", ">=1.2.*", "1.*.2", "~1.x", "1..2", "1.", ".1", "1.2.3.4",
                 "1,", ",1", "1,,2", "1 2", "> =1", ">==1", "=>1", "<1, >2, =3", "18446744073709551615", "18446744073709551616", "1.18446744073709551616",
                 "^1.2.3", "1.2.3 ", "1.2 .3", "1. 2", "^ 1", "^  1.2", "v1", "1.2.3-alpha", "1.2.3-alpha.1", ">1.0.0-alpha.1", "1.2.3-0", "1.2.3-01", "1.2.3-0a",
                 "1.2.3-a..b", "1.2.3-a.", "1.2.3-.a", "1.2.3-", "1.2.3+b1", "1.2.3+001", "1.2.3-rc.1+build.5", "1.2.3+", "1.2.3+a..b", "1.2-alpha", "1-a", "1.2.3-a-b--c",
                 "1.2.3-a_b", "1.2.3 -a", "1.2.3- a", "1.2.3-a +b", "1.2.3-a, 2.0.0-b.0", "1.2.x-a", "1.2.3-é", "=1.2.3-00x", "1.2.3-9.08", "1.2.3+9.08", "1.2.3,", "1.2.3 ,  4", ", ".join(["1"] * 32), ", ".join(["1"] * 33), "1.*, 2",
                 "x.1", "*.1", "1.2.x, <3", "<=2.0.0", "<= 2", "~", "^", ">", "1.2.3.", "1.a", "a"]


# ---------------------------------------------------------------- trees as Coq terms / comparison

def coq_codes(s):
    return "[" + ";".join(str(ord(c)) for c in s) + "]%N"


def float_repr(x):
    return repr(float(x))


def coq_json(j):
    if j is None:
        return "JNull"
    if isinstance(j, bool):
        return "(JBool %s)" % ("true" if j else "false")
    if isinstance(j, int):
        return "(JNum (NInt (%d)%%Z))" % j
    if isinstance(j, float):
        return "(JNum (NFloat %s))" % coq_codes(float_repr(j))
    if isinstance(j, str):
        return "(JStr %s)" % coq_codes(j)
    if isinstance(j, list):
        return "(JArr [" + "; ".join(coq_json(x) for x in j) + "])"
    if isinstance(j, tuple) and j[0] == "obj":
        return "(JObj [" + "; ".join("(%s, %s)" % (coq_codes(k), coq_json(v)) for k, v in j[1]) + "])"
    raise ValueError(j)


def coq_desc_ref(name):
    return "(DRef %s)" % coq_codes(name)


def s_of(codes):
    return "".join(chr(c) for c in codes)


def value_of_term(t):
    """parse_term output of a Coq `value` -> python tagged tuple"""
    if t == "VNone":
        return ("VNone",)
    if isinstance(t, tuple):
        h = t[0]
        if h == "VStr":
            return ("VStr", s_of(t[1]))
        if h == "VInt":
            return ("VInt", t[1])
        if h == "VFloat":
            f = t[1]
            return ("VFloat", None) if f == "FNonFinite" else ("VFloat", float(s_of(f[1])))
        if h == "VBool":
            return ("VBool", t[1])
        if h == "VChar":
            return ("VChar", chr(t[1]))
        if h == "VSome":
            return ("VSome", value_of_term(t[1]))
        if h in ("VList", "VTuple", "VStruct"):
            return (h, [value_of_term(x) for x in t[1]])
        if h == "VMap":
            return ("VMap", [(s_of(k), value_of_term(x)) for k, x in t[1]])
        if h == "VEnum":
            return ("VEnum", s_of(t[1]), [value_of_term(x) for x in t[2]])
        if h == "VSpan":
            return ("VSpan", t[1], t[2], t[3])
        if h == "VIdent":
            return ("VIdent", [s_of(x) for x in t[1]], s_of(t[2]))
    raise ValueError("cannot read value term %r" % (t,))


def norm_value(v):
    """floats compared through their repr (the model identifies a float with its text)"""
    k = v[0]
    if k == "VFloat":
        return ("VFloat", None if v[1] is None else float_repr(v[1]))
    if k == "VSome":
        return ("VSome", norm_value(v[1]))
    if k in ("VList", "VTuple", "VStruct"):
        return (k, [norm_value(x) for x in v[1]])
    if k == "VEnum":
        return (k, v[1], [norm_value(x) for x in v[2]])
    if k == "VMap":
        return (k, [(a, norm_value(b)) for a, b in v[1]])
    if k == "VIdent":
        return (k, list(v[1]), v[2])
    return tuple(v)


def json_eq(a, b):
    """tree equality; key order matters; ints and floats are distinct kinds (as in serde_json::Number)"""
    if isinstance(a, bool) or isinstance(b, bool) or a is None or b is None:
        return a is b
    if isinstance(a, float) or isinstance(b, float):
        return isinstance(a, float) and isinstance(b, float) and (a == b and math.copysign(1, a) == math.copysign(1, b))
    if isinstance(a, int) or isinstance(b, int):
        return isinstance(a, int) and isinstance(b, int) and a == b
    if isinstance(a, str) or isinstance(b, str):
        return isinstance(a, str) and isinstance(b, str) and a == b
    if isinstance(a, list) or isinstance(b, list):
        return isinstance(a, list) and isinstance(b, list) and len(a) == len(b) and all(json_eq(x, y) for x, y in zip(a, b))
    if isinstance(a, tuple) and isinstance(b, tuple) and a[0] == "obj" == b[0]:
        return len(a[1]) == len(b[1]) and all(k1 == k2 and json_eq(v1, v2) for (k1, v1), (k2, v2) in zip(a[1], b[1]))
    return False


def json_size(j):
    if isinstance(j, list):
        return 1 + sum(json_size(x) for x in j)
    if isinstance(j, tuple) and j[0] == "obj":
        return 1 + sum(json_size(v) for _, v in j[1])
    return 1

"""Seeded generator of well-scoped PRQL programs with a tracked frame.

Used by C16 (open mode: database tables with unknown columns, wildcard inference) and by C10 (closed
mode: every source declares its columns, so every frame is fully known and a scope-breaking edit is
certainly ill-scoped).  A program is built step by step; `Pipe.frames[k]` is the frame *before* step k
(frames[len(steps)] = final frame), which is what C10 needs to place one edit at every applicable site.

Frame model (mirror of Lineage as far as names go): ordered columns (name, input|None) + the inputs
that still contribute a wildcard.  A bare name is usable iff it is known exactly once and -- when it
is not known -- exactly one input has a wildcard.
"""

TABLES = {
    "t": ["a", "b", "c", "g", "id", "s"],
    "u": ["id", "b", "d", "e", "k"],
    "v": ["id", "x", "y", "g"],
    "w": ["p", "q", "a"],
}
NUMERIC = {"a", "b", "c", "d", "e", "x", "y", "p", "q", "id", "g", "k"}


class Col:
    __slots__ = ("name", "inp")

    def __init__(self, name, inp=None):
        self.name, self.inp = name, inp

    def __repr__(self):
        return "%s.%s" % (self.inp, self.name) if self.inp else self.name


class Frame:
    def __init__(self, cols, wild=(), pools=None):
        self.cols = list(cols)          # known columns, in order
        self.wild = list(wild)          # inputs that still have a wildcard
        self.pools = dict(pools or {})  # input name -> pool of plausible column names (for wildcard refs)

    def copy(self):
        return Frame(self.cols, self.wild, self.pools)

    @property
    def closed(self):
        return not self.wild

    def names(self):
        return [c.name for c in self.cols]

    def count(self, name):
        return sum(1 for c in self.cols if c.name == name)

    def describe(self):
        return {"cols": [repr(c) for c in self.cols], "wild": list(self.wild)}


class Step:
    def __init__(self, text, kind):
        self.text, self.kind = text, kind


class Pipe:
    def __init__(self, source_text, frame, source_kind):
        self.source_text = source_text
        self.source_kind = source_kind
        self.steps = []
        self.frames = [frame]

    @property
    def frame(self):
        return self.frames[-1]

    def push(self, text, kind, frame):
        self.steps.append(Step(text, kind))
        self.frames.append(frame)

    def text(self, upto=None, extra=None, sep=" | "):
        parts = [self.source_text] + [s.text for s in (self.steps if upto is None else self.steps[:upto])]
        if extra:
            parts += extra
        return sep.join(parts)


class Program:
    def __init__(self):
        self.decls = []     # text of let / func declarations, in order
        self.lets = {}      # let-table name -> Frame (as seen through an instance named like the let)
        self.funcs = {}     # user function name -> dict(kind=..., params=n, named=[...])
        self.consts = []    # top-level scalar declarations (`let k = (1 + 2)`)
        self.main = None
        self.features = set()

    def text(self, main_text=None):
        return "\n".join(self.decls + [main_text if main_text is not None else "from_placeholder" if self.main is None else self.main.text()])


class Gen:
    def __init__(self, rng, closed=False):
        self.r = rng
        self.closed = closed
        self.fresh = 0

    # ------------------------------------------------------------------ helpers
    def newname(self, prefix="x"):
        self.fresh += 1
        return "%s%d" % (prefix, self.fresh)

    def pick(self, xs):
        return xs[self.r.randrange(len(xs))]

    def chance(self, p):
        return self.r.random() < p

    def ref(self, fr, col):
        """text that refers to known column `col` in frame fr, or None when it cannot be named"""
        if col.name is None:
            return None     # an un-aliased computed column: part of the frame, reaches the output, cannot be referenced
        if fr.count(col.name) == 1:
            if col.inp and self.chance(0.25) and col.inp in fr.pools:
                return "%s.%s" % (col.inp, col.name)
            return col.name
        if col.inp and sum(1 for c in fr.cols if c.name == col.name and c.inp == col.inp) == 1:
            return "%s.%s" % (col.inp, col.name)
        return None

    def refs_available(self, fr):
        """list of (text, Col) for everything that can be referenced now (known + one step of wildcard inference)"""
        out = []
        for c in fr.cols:
            t = self.ref(fr, c)
            if t:
                out.append((t, c))
        for inp in fr.wild:
            for n in fr.pools.get(inp, []):
                if any(c.name == n and c.inp == inp for c in fr.cols):
                    continue
                if len(fr.wild) == 1 and fr.count(n) == 0 and self.chance(0.6):
                    out.append((n, Col(n, inp)))
                else:
                    out.append(("%s.%s" % (inp, n), Col(n, inp)))
        return out

    def colref(self, fr, numeric=False):
        av = self.refs_available(fr)
        if numeric:
            av2 = [x for x in av if x[1].name in NUMERIC or x[1].name.startswith(("x", "n", "r", "m"))]
            av = av2 or av
        if not av:
            return None
        return self.pick(av)

    # ------------------------------------------------------------------ expressions
    def expr(self, fr, depth=2, prog=None):
        r = self.r.random()
        c = self.colref(fr, numeric=True)
        if c is None or depth == 0:
            return self.pick(["1", "2", "10"]) if c is None else c[0]
        a = c[0]
        if r < 0.25:
            return a
        if r < 0.50:
            return "%s %s %s" % (a, self.pick(["+", "-", "*"]), self.expr(fr, depth - 1, prog))
        if r < 0.58:
            return "(%s ?? 0)" % a
        if r < 0.66:
            return "case [%s > 1 => %s, true => 0]" % (a, self.expr(fr, depth - 1, prog))
        if r < 0.72:
            return 'f"{%s}-{%s}"' % (a, self.expr(fr, 0, prog))
        if r < 0.78:
            return 's"ABS({%s})"' % a
        if r < 0.84:
            return "(math.round 1 %s)" % a
        if r < 0.90 and prog is not None and prog.funcs:
            fs = [n for n, f in prog.funcs.items() if f["kind"] == "scalar"]
            if fs:
                f = self.pick(fs)
                args = " ".join("(%s)" % self.expr(fr, 0, prog) for _ in range(prog.funcs[f]["params"]))
                prog.features.add("user-func-call")
                return "(%s %s)" % (f, args)
        if r < 0.93 and prog is not None and prog.consts:
            prog.features.add("let-value-use")
            return "%s + %s" % (a, self.pick(prog.consts))
        if r < 0.95:
            return "(%s | in 1..5)" % a
        return "-%s" % a

    def cond(self, fr, prog=None):
        c = self.colref(fr, numeric=True)
        if c is None:
            return "true"
        r = self.r.random()
        if r < 0.6:
            return "%s %s %d" % (c[0], self.pick([">", "<", "==", "!=", ">="]), self.r.randrange(10))
        if r < 0.8:
            c2 = self.colref(fr, numeric=True)
            return "(%s > 1 && %s < 9)" % (c[0], c2[0])
        return "(%s) > 0" % self.expr(fr, 1, prog)

    # ------------------------------------------------------------------ sources
    def source(self, prog, alias_ok=True, depth=1):
        """returns (text, Frame seen through this input, kind).  Input name = alias or the table name."""
        r = self.r.random()
        kinds = []
        if not self.closed:
            kinds += ["table"] * 5 + ["sstring", "builtin"]
        kinds += ["sub"] * 3 + ["literal"] * 2
        if prog.lets:
            kinds += ["let"] * 4
        k = self.pick(kinds)
        if k == "table":
            t = self.pick(list(TABLES))
            alias = self.newname("al") if alias_ok and self.chance(0.2) else None
            name = alias or t
            fr = Frame([], [name], {name: TABLES[t]})
            return ("%s = %s" % (alias, t) if alias else t), fr, "table"
        if k == "let":
            n = self.pick(list(prog.lets))
            base = prog.lets[n]
            alias = self.newname("al") if alias_ok and self.chance(0.3) else None
            name = alias or n
            fr = Frame([Col(c.name, name) for c in base.cols], [name] if base.wild else [], {name: base.pools.get("*", [])})
            prog.features.add("let-ref")
            return ("%s = %s" % (alias, n) if alias else n), fr, "let"
        if k == "literal":
            names = self.r.sample(["a", "b", "c", "id", "g", "x"], self.r.randrange(2, 5))
            rows = ", ".join("{" + ", ".join("%s = %d" % (n, self.r.randrange(9)) for n in names) + "}" for _ in range(self.r.randrange(1, 4)))
            alias = self.newname("lit") if alias_ok and self.chance(0.5) else None
            fr = Frame([Col(n, alias) for n in names], [], {})
            prog.features.add("literal")
            txt = "[%s]" % rows
            return ("%s = %s" % (alias, txt) if alias else txt), fr, "literal"
        if k == "sstring":
            t = self.pick(list(TABLES))
            cols = self.r.sample(TABLES[t], 2)
            alias = self.newname("ss")
            fr = Frame([Col(c, alias) for c in cols], [], {})
            prog.features.add("sstring-rel")
            return '%s = s"SELECT %s FROM %s"' % (alias, ", ".join(cols), t), fr, "sstring"
        if k == "builtin":
            alias = self.newname("f")
            fr = Frame([], [alias], {alias: ["a", "b", "id"]})
            prog.features.add("builtin-rel")
            return '%s = (read_csv "data.csv")' % alias, fr, "builtin"
        # sub-pipeline with declared columns
        p = self.sub_pipeline(prog, depth)
        alias = self.newname("sub") if alias_ok and self.chance(0.6) else None
        fin = p.frame
        fr = Frame([Col(c.name, alias) for c in fin.cols], [], {})
        if fin.wild:
            # should not happen: sub_pipeline always ends closed
            fr.wild = [alias] if alias else []
        prog.features.add("sub-pipeline")
        txt = "(%s)" % p.text()
        return ("%s = %s" % (alias, txt) if alias else txt), fr, "sub"

    def sub_pipeline(self, prog, depth):
        """a pipeline whose final frame is closed (ends in select / aggregate)"""
        if self.closed or depth <= 0 or self.chance(0.6):
            t = self.pick(list(TABLES))
            cols = self.r.sample(TABLES[t], self.r.randrange(2, min(5, len(TABLES[t]) + 1)))
            if "id" in TABLES[t] and "id" not in cols and self.chance(0.7):
                cols.append("id")
            p = Pipe("from %s" % t, Frame([], [t], {t: TABLES[t]}), "table")
            p.push("select {%s}" % ", ".join(cols), "select", Frame([Col(c, t) for c in cols], [], {t: TABLES[t]}))
        else:
            p = self.pipeline(prog, depth - 1, nsteps=self.r.randrange(1, 3))
            if not p.frame.closed or not p.frame.cols:
                self.step_select(prog, p, force=True)
        # a few more closed steps
        for _ in range(self.r.randrange(0, 2)):
            self.step(prog, p, depth - 1, allow=("filter", "derive", "sort", "take"))
        return p

    # ------------------------------------------------------------------ steps
    def step_select(self, prog, p, force=False):
        fr = p.frame
        av = self.refs_available(fr)
        if not av:
            return False
        k = min(len(av), self.r.randrange(1, 5))
        chosen = self.r.sample(av, k)
        items, cols, seen = [], [], set()
        for txt, c in chosen:
            if self.chance(0.12):
                # un-aliased computed column (RelationColumn::Single(None))
                items.append(self.expr(fr, 1, prog) + " + 1")
                cols.append(Col(None))
                prog.features.add("unnamed-column")
            elif self.chance(0.3):
                n = self.newname("x")
                items.append("%s = %s" % (n, self.expr(fr, 1, prog)))
                cols.append(Col(n))
                seen.add(n)
            elif c.name not in seen:
                items.append(txt)
                cols.append(Col(c.name, c.inp))
                seen.add(c.name)
        nf = Frame(cols, [], fr.pools)
        p.push("select {%s}" % ", ".join(items), "select", nf)
        return True

    def step(self, prog, p, depth, allow=None):
        fr = p.frame
        kinds = ["derive"] * 4 + ["filter"] * 3 + ["select"] * 3 + ["sort"] * 2 + ["take"] * 2 + ["aggregate", "group-agg", "group-take", "group-derive", "window"] \
            + ["join"] * 3 + ["append", "append", "loop", "pipefunc", "sort-select", "derive-window", "group-append", "group-sort-agg-take", "join-exclude"]
        if allow:
            kinds = [k for k in kinds if k in allow]
        k = self.pick(kinds)
        if k == "derive":
            n = self.r.randrange(1, 3)
            items, nf = [], fr.copy()
            for _ in range(n):
                shadow = self.chance(0.12) and fr.cols
                name = self.pick(fr.cols).name if shadow else self.newname("x")
                items.append("%s = %s" % (name, self.expr(nf if not shadow else fr, 2, prog)))
                if shadow:
                    prog.features.add("shadow")
                    nf.cols = [c for c in nf.cols if c.name != name]
                nf.cols.append(Col(name))
            p.push("derive {%s}" % ", ".join(items), "derive", nf)
        elif k == "derive-window":
            c = self.colref(fr, numeric=True)
            if c is None:
                return
            name = self.newname("r")
            f = self.pick(["lag 1 %s" % c[0], "row_number this", "sum %s" % c[0], "rank %s" % c[0], "lead 1 %s" % c[0]])
            nf = fr.copy(); nf.cols.append(Col(name))
            prog.features.add("window-fn")
            p.push("derive {%s = %s}" % (name, f), "derive", nf)
        elif k == "filter":
            p.push("filter %s" % self.cond(fr, prog), "filter", fr.copy())
        elif k == "select":
            self.step_select(prog, p)
        elif k == "sort":
            cs = [self.colref(fr) for _ in range(self.r.randrange(1, 3))]
            cs = [c for c in cs if c]
            if not cs:
                return
            p.push("sort {%s}" % ", ".join(self.pick(["", "-", "+"]) + c[0] for c in cs), "sort", fr.copy())
        elif k == "sort-select":
            # a sort whose column is then dropped by a select (the sort column must stay addressable for the back end)
            c = self.colref(fr)
            if c is None:
                return
            p.push("sort %s" % c[0], "sort", fr.copy())
            self.step_select(prog, p)
            p.push("take %d" % self.r.randrange(1, 9), "take", p.frame.copy())
        elif k == "take":
            a = self.r.randrange(1, 9)
            p.push(self.pick(["take %d" % a, "take %d..%d" % (a, a + self.r.randrange(5)), "take %d.." % a]), "take", fr.copy())
        elif k == "aggregate":
            c = self.colref(fr, numeric=True)
            if c is None:
                return
            n1, n2 = self.newname("n"), self.newname("m")
            if self.chance(0.15):
                prog.features.add("unnamed-column")
                p.push("aggregate {%s = count this, %s %s}" % (n1, self.pick(["sum", "min", "max"]), c[0]), "aggregate", Frame([Col(n1), Col(None)], [], fr.pools))
            else:
                p.push("aggregate {%s = count this, %s = %s %s}" % (n1, n2, self.pick(["sum", "min", "max", "average"]), c[0]), "aggregate", Frame([Col(n1), Col(n2)], [], fr.pools))
        elif k.startswith("group"):
            keys = []
            for _ in range(self.r.randrange(1, 3)):
                c = self.colref(fr)
                if c and c[1].name not in [x[1].name for x in keys]:
                    keys.append(c)
            if not keys:
                return
            ktxt = "{%s}" % ", ".join(c[0] for c in keys)
            kcols = [Col(c[1].name, c[1].inp) for c in keys]
            knames = set(c[1].name for c in keys)
            inner = fr.copy()
            inner.cols = [c for c in fr.cols if c.name not in knames]
            inner.pools = dict((i, [n for n in ns if n not in knames]) for i, ns in fr.pools.items())
            v = self.colref(inner, numeric=True)
            if v is None:
                return
            if k == "group-agg":
                n1, n2 = self.newname("n"), self.newname("m")
                if self.chance(0.15):
                    prog.features.add("unnamed-column")
                    p.push("group %s (aggregate {%s = count this, max %s})" % (ktxt, n1, v[0]), "group-agg", Frame(kcols + [Col(n1), Col(None)], [], fr.pools))
                else:
                    p.push("group %s (aggregate {%s = count this, %s = sum %s})" % (ktxt, n1, n2, v[0]), "group-agg", Frame(kcols + [Col(n1), Col(n2)], [], fr.pools))
            elif k == "group-take":
                p.push("group %s (sort %s | take %d)" % (ktxt, v[0], self.r.randrange(1, 4)), "group-take", fr.copy())
            elif k == "group-sort-agg-take":
                # a sort inside a group body whose column the body's aggregate drops, then a take (F1's other dropper)
                n1 = self.newname("n")
                prog.features.add("group-sort-agg-take")
                p.push("group %s (sort %s | aggregate {%s = %s} | take %d)" % (ktxt, v[0], n1, self.pick(["count this", "max %s" % v[0]]), self.r.randrange(1, 3)),
                       "group-agg", Frame(kcols + [Col(n1)], [], fr.pools))
            else:
                name = self.newname("r")
                body = self.pick(["derive {%s = rank %s}" % (name, v[0]), "sort %s | derive {%s = row_number this}" % (v[0], name),
                                  "window rolling:2 (derive {%s = sum %s})" % (name, v[0]), "derive {%s = %s - (average %s)}" % (name, v[0], v[0])])
                nf = fr.copy(); nf.cols.append(Col(name))
                prog.features.add("group-window")
                p.push("group %s (%s)" % (ktxt, body), "group-derive", nf)
        elif k == "window":
            v = self.colref(fr, numeric=True)
            if v is None:
                return
            name = self.newname("m")
            spec = self.pick(["rolling:3", "rows:-1..1", "expanding:true", "rows:..0"])
            nf = fr.copy(); nf.cols.append(Col(name))
            s = self.colref(fr)
            pre = "sort %s | " % s[0] if self.chance(0.5) else ""
            if pre:
                p.push(pre[:-3], "sort", fr.copy())
            prog.features.add("window")
            p.push("window %s (derive {%s = %s %s})" % (spec, name, self.pick(["sum", "average", "min"]), v[0]), "window", nf)
        elif k == "join":
            if depth < 0:
                return
            stxt, sfr, skind = self.source(prog, depth=depth)
            # name of the joined input: explicit alias, table name, or none (bare sub-pipeline / literal)
            jname = None
            for c in sfr.cols:
                jname = c.inp
            if sfr.wild:
                jname = sfr.wild[0]
            if jname is not None and (jname in fr.pools or any(c.inp == jname for c in fr.cols) or jname in fr.wild):
                return  # same input name twice: avoid (self-join needs an alias)
            # join condition
            left = self.refs_available(fr)
            if not left:
                return
            right_names = [c.name for c in sfr.cols if c.name] or sfr.pools.get(jname, [])
            shared = [(t, c) for t, c in left if c.name in right_names]
            side = self.pick(["", "", "side:left ", "side:full "])
            if shared and (jname or self.chance(0.9)) and self.chance(0.6):
                t, c = self.pick(shared)
                condt = "(==%s)" % c.name
                if fr.count(c.name) > 1:
                    return
            elif jname:
                lt, lc = self.pick(left)
                rn = self.pick(right_names)
                lq = lt if "." in lt or not (rn == lc.name) else lt
                if "." not in lt and (lc.name in right_names or (sfr.wild and fr.wild)):
                    # bare left name would be ambiguous / un-inferable once the right side is in scope
                    if lc.inp:
                        lq = "%s.%s" % (lc.inp, lc.name)
                    else:
                        if lc.name in right_names:
                            return
                        lq = lt
                condt = "(%s == %s.%s)" % (lq, jname, rn)
            else:
                condt = "true"
            nf = Frame(fr.cols + sfr.cols, fr.wild + sfr.wild, dict(fr.pools, **sfr.pools))
            prog.features.add("join-" + skind)
            p.push("join %s%s %s" % (side, stxt, condt), "join", nf)
        elif k == "join-exclude":
            # a joined sub-pipeline that excludes a column with `select !{..}`, and a use of that column from outside through
            # the table's name (F7's family)
            if fr.cols or len(fr.wild) != 1 or self.closed or depth < 0:
                return
            tn = fr.wild[0]
            if "id" not in fr.pools.get(tn, []):
                return
            others = [t for t in TABLES if t != tn and "id" in TABLES[t] and t not in fr.pools]
            if not others:
                return
            u = self.pick(others)
            d = self.pick([c for c in TABLES[u] if c != "id"])
            side = self.pick(["", "", "side:left "])
            prog.features.add("join-exclude")
            jtxt = "join %s(from %s | select !{%s}) (==id)" % (side, u, d)
            if self.chance(0.6):
                p.push("%s | select {%s.%s}" % (jtxt, u, d), "join-exclude", Frame([Col(d)], [], {}))
            else:
                use = self.pick(["filter %s.%s > %d" % (u, d, self.r.randrange(9)), "derive {%s = %s.%s + 1}" % (self.newname("x"), u, d), "sort %s.%s" % (u, d)])
                # the joined columns are not tracked: later steps address the first input only through its name
                p.push("%s | %s" % (jtxt, use), "join-exclude", Frame([Col(c, tn) for c in fr.pools[tn][:2]], [], {tn: fr.pools[tn]}))
        elif k == "append":
            if depth < 0:
                return
            if fr.closed and fr.cols:
                # bottom with the same number of columns
                n = len(fr.cols)
                t = self.pick([t for t in TABLES if len(TABLES[t]) >= n] or ["t"])
                if n > len(TABLES[t]):
                    return
                cols = self.r.sample(TABLES[t], n)
                if self.chance(0.25):
                    cols[self.r.randrange(n)] += " * 2"       # an un-aliased computed column in the bottom
                    prog.features.add("unnamed-column")
                prog.features.add("append-sub")
                p.push("append (from %s | select {%s})" % (t, ", ".join(cols)), "append", fr.copy())
            elif not fr.cols and not self.closed:
                t = self.pick(list(TABLES) + list(n for n in prog.lets if prog.lets[n].wild and not prog.lets[n].cols))
                prog.features.add("append-table")
                p.push("append %s" % t, "append", fr.copy())
        elif k == "group-append":
            # a relational argument inside a group body (the group's partition must stay outside of it)
            if fr.cols or len(fr.wild) != 1 or self.closed:
                return
            key = self.colref(fr)
            t = self.pick(list(TABLES))
            prog.features.add("group-append")
            p.push("group {%s} (take %d | append (from %s | take %d))" % (key[0], self.r.randrange(1, 4), t, self.r.randrange(1, 4)), "group-append", fr.copy())
        elif k == "loop":
            if not (fr.closed and 1 <= len(fr.cols) <= 4):
                return
            if any(c.name is None or fr.count(c.name) != 1 for c in fr.cols):
                return
            c0 = fr.cols[0].name
            items = ["%s = %s + 1" % (c0, c0)] + [c.name for c in fr.cols[1:]]
            nf = Frame([Col(c.name) for c in fr.cols], [], fr.pools)
            prog.features.add("loop")
            p.push("loop (filter %s < %d | select {%s})" % (c0, self.r.randrange(3, 9), ", ".join(items)), "loop", nf)
        elif k == "pipefunc":
            fs = [n for n, f in prog.funcs.items() if f["kind"] == "pipe"]
            if not fs:
                return
            f = self.pick(fs)
            prog.features.add("pipe-func-call")
            p.push("%s %d" % (f, self.r.randrange(1, 9)), "pipefunc", fr.copy())

    def pipeline(self, prog, depth, nsteps=None):
        stxt, fr, skind = self.source(prog, alias_ok=True, depth=depth)
        p = Pipe("from %s" % stxt, fr, skind)
        n = nsteps if nsteps is not None else self.r.randrange(1, 7)
        for _ in range(n):
            try:
                self.step(prog, p, depth)
            except (TypeError, IndexError, ValueError):
                pass
        return p

    # ------------------------------------------------------------------ programs
    def program(self):
        prog = Program()
        # user functions
        if self.chance(0.45):
            n = self.newname("fn")
            prog.decls.append("let %s = v -> v * 2 + 1" % n)
            prog.funcs[n] = {"kind": "scalar", "params": 1, "named": []}
        if self.chance(0.25):
            n = self.newname("fn")
            prog.decls.append("let %s = lo:0 v w -> (v - lo) * w" % n)
            prog.funcs[n] = {"kind": "scalar", "params": 2, "named": ["lo"]}
        if self.chance(0.3):
            n = self.newname("top")
            prog.decls.append("let %s = n rel -> (rel | take n)" % n)
            prog.funcs[n] = {"kind": "pipe", "params": 1, "named": []}
        if self.chance(0.06):
            # a function that mentions its relation parameter twice: the argument pipeline is lowered twice
            n = self.newname("dbl")
            prog.decls.append("let %s = n rel -> (rel | append (rel | take n))" % n)
            prog.funcs[n] = {"kind": "pipe", "params": 1, "named": []}
        if self.chance(0.10):
            # a top-level scalar value: every mention is inlined with the declaration's one PL node id (F8's family)
            n = self.newname("k")
            prog.decls.append("let %s = %s" % (n, self.pick(["(1 + 2)", "3", "(2 * 5 - 1)"])))
            prog.consts.append(n)
        # let tables
        for _ in range(self.pick([0, 0, 1, 1, 2])):
            n = self.newname("tab")
            p = self.pipeline(prog, 1, nsteps=self.r.randrange(1, 4))
            fin = p.frame
            if any(c.name is None or fin.count(c.name) != 1 for c in fin.cols) or len(fin.wild) > 1:
                self.step_select(prog, p, force=True)
                fin = p.frame
            prog.decls.append("let %s = (\n  %s\n)" % (n, p.text(sep="\n  ")) if self.chance(0.3) else "let %s = (%s)" % (n, p.text()))
            pool = []
            for w in fin.wild:
                pool += fin.pools.get(w, [])
            prog.lets[n] = Frame([Col(c.name) for c in fin.cols], ["*"] if fin.wild else [], {"*": pool})
        prog.main = self.pipeline(prog, 2)
        return prog


FIXED = [
    # shapes named by the property text, spelled out once (the generator produces their variations)
    "let x = (from t | filter a > 1)\nfrom x | join y=(from x | take 3) (==a)",
    "let x = (from t | select {a, b})\nfrom x | append x | append x",
    "let x = (from t | select {a, b})\nlet y = (from x | derive {c = a + b})\nfrom y | join x (==a) | select {y.c, x.b}",
    "from t | loop (filter a < 5 | select {a = a + 1})",
    "from [{n = 1}] | loop (filter n < 4 | select {n = n + 1}) | derive {m = n * 2}",
    "from t | group {g} (sort a | window rolling:2 (derive {m = sum b}))",
    "from t | group {g} (sort a | take 2) | group {g} (aggregate {n = count this})",
    "from t | group {g, a} (aggregate {s = sum b}) | group {g} (derive {r = rank s})",
    "from t | join (from u | group {id} (aggregate {n = count this})) (==id) | derive {z = n + a}",
    "from t | join a1=(from u | select {id, b}) (t.id == a1.id) | join a2=(from u | select {id, d}) (t.id == a2.id) | select {t.a, a1.b, a2.d}",
    "from t | derive {x = a + 1} | select {x} | derive {y = x + 1} | filter y > x",
    "from t | sort a | select {b} | take 3",
    "from t | select {a, b} | sort b | derive {r = row_number this} | filter r < 3 | select {a}",
    "from s\"SELECT a, b FROM t\" | filter a > 1 | select {b}",
    "from t | derive {q = s\"{a} + {b}\"} | filter s\"{q} > 1\"",
    "from (read_csv \"x.csv\") | select {a, b}",
    "let f = x -> x + 1\nlet g = y -> (f y) * 2\nfrom t | derive {z = g a} | select {z}",
    "let top = n rel -> (rel | sort a | take n)\nfrom t | top 3 | select {a}",
    "from t | select {a, b} | remove (from u | select {a = id, b})",
    "from t | select {a} | intersect (from u | select {a = id})",
    "from t | select !{a, b}",
    "from t | select {a, b, c} | select !{a}",
    "from t | join u (==id) | select {t.*, u.b}",
    "from t | join u (==id) | select {t.a, u.*} | filter a > 1",
    "from t | derive {a = a + 1} | derive {a = a * 2} | select {a}",
    "from t | window rows:-2..0 (sort a | derive {m = average b})",
    "from t | aggregate {n = count this} | derive {k = n + 1}",
    "from t | group {g} (aggregate {n = count this, s = sum a}) | filter n > 1 | sort {-s} | take 5",
    "from t | take 5 | append (from t | take 3) | sort a",
    "from t | filter (a | in 1..5) | derive {c = case [a > 1 => b, true => c]}",
    "from_text format:json '[{\"a\": 1, \"b\": 2}]' | derive {c = a + b}",
    "from t | derive {x = [a, b, 3]}",
    # un-aliased computed / aggregated columns (RelationColumn::Single(None)) reaching the output
    "from t | select {a, b + 1} | append (from u | select {id, d})",
    "from t | select {a, b + 1} | append (from u | select {id, d * 2}) | filter a > 1 | sort a",
    "from t | join (from u | filter d >= 10 | select {id, d * 2}) (==id)",
    "from t | join side:left (from u | group id (aggregate {max d})) (==id)",
    "from t | aggregate {count this, sum a}",
    "from t | select {a, b} | join (from u | select {id, d * 2}) (a == id) | take 3",
    # relational arguments inside group / after sort (the Flattener's partition / sort must not cross into them)
    "from t | sort a | join (from u | take 2) (==id)",
    "from t | sort a | append (from u | derive {r = row_number this} | take 2)",
    "from t | group {g} (take 2 | append (from u | take 3))",
    "let a1 = (from t | select {id, a})\nlet a2 = (from a1 | join u (==id) | select {a1.id, u.d})\nlet a3 = (from a2 | join a1 (==id))\nfrom a3 | take 2",
    # F1's two droppers that are still there (Select; Aggregate of a group body) and the one that was repaired (8d54bf7)
    "from t | group {g} (sort a | aggregate {n = count this} | take 1)",
    "from t | sort {a, -b} | select {c} | derive {r = row_number this}",
    "from t | sort a | aggregate {n = count this} | take 3",
    "from t | sort a | aggregate {n = count this} | derive {r = row_number this}",
    # F7's family: a column excluded inside a joined sub-pipeline, named from outside
    "from t | join (from u | select !{d}) (==id) | select {u.d}",
    "from t | join (from u | select !{d}) (==id) | filter u.d > 1",
    "from t | join side:left (from v | select !{x, y}) (==id) | derive {z = v.x + 1} | select {z}",
    "from t | join (from u | select !{d}) (==id) | sort u.d",
    # a relation whose last transform is a `select` inside a group body (closing Select != the user's select: group keys), as the
    # main relation, as a let-table and as the `with` of a join; nested anonymous sub-pipelines (table list order != id order)
    "from t | group g (sort {-a} | take 1 | select {b, c})",
    "let newest = (from t | group g (sort {-a} | take 1 | select {b, c}))\nfrom u | join newest (u.id == newest.b) | select {u.d, newest.c, newest.g}",
    "from u | join n = (from t | group g (take 1 | select {b, id})) (==id) | select {u.d, n.b, n.g}",
    "from t | group {g, s} (select {a} | take 2) | sort g | select {a} | take 1",
    "from t | join c = (from u | join r = (from v | filter x > 1 | select {id, y}) (==id) | select {u.id, u.d, r.y}) (==id) | select {t.a, c.d, c.y}",
    "from t | append (from u | select {id} | append (from v | select {id} | append (from w | select {id = a})))",
    # F8's family: a top-level scalar value mentioned twice
    "let k = (1 + 2)\nfrom t | derive {a1 = k} | append (from u | derive {b1 = k})",
    "let k = (1 + 2)\nlet x = (from t | derive {a1 = k})\nfrom x | join (from u | derive {b1 = k}) (==id)",
    "let k = 3\nfrom t | derive {a1 = k, a2 = k}",
    "let k = (1 + 2)\nfrom t | filter a > k | append (from u | filter d > k)",
    # F6's family: a relation parameter mentioned twice
    "let dup = rel -> (rel | append rel)\nfrom t | select {a, b} | dup",
    "let dbl = n rel -> (rel | append (rel | take n))\nfrom t | derive {x = a + 1} | filter x > 1 | dbl 2",
    # repaired: F4 (duplicate / unnamed columns of an instantiated sub-pipeline), F3 (multi-input relation instantiated), F5 (partition)
    "from t | join (from u | select {c, d} | join (from v | select {c}) true) true",
    "from t | join (from u | select {c, d} | join (from v | select {c}) true) true | select {t.a}",
    "from t | select {a, b} | append (from u | select {d + 1, e + 1})",
    "from t | join (from u | select {id, d * 2, e * 2}) (==id) | select {t.a, u.id}",
    "let tab = (from t | select {a} | join u (==a))\nfrom tab | filter id > 1",
    "from x = (from t | select {a} | join u (==a)) | filter x.id > 1",
    "from t | group {g} (derive {r = rank a} | append (from u | derive {q = row_number this}))",
    "from t | group {g} (take 2 | append (from u | group {k} (take 1)))",
    "from t | window rolling:3 (derive {m = sum a} | append (from u | derive {q = sum d}))",
    # lowering.rs since a131b2a / 287b286, transforms.rs since 8204886: compile errors (or a zero-row literal) where the Lowerer
    # used to pass a name through or panic
    "let tab = (from t | take 3)\nfrom u | derive {x = tab}",
    "let tab = (from t | take 3)\nfrom u | derive {x = s\"(SELECT max(a) FROM {tab})\"}",
    "from u | derive {x = std}",
    "from [{a = 1, 2}]",
    "from [{a = 1, b = x}]",
    "from_text format:csv \"a,b\\n\" | derive {c = a + 1}",
    "from_text format:json '{\"columns\": [\"a\", \"b\"], \"data\": []}' | window rolling:2 (derive {m = sum a}) | join t (==a)",
]

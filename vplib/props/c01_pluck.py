"""C01, tie for Model/SelectPluck.v: every real call of translate_select_pipeline (hooks verif:select_pipeline_in / _mid / _out and
verif:filter_of_conditions, /repo commit 7400a50) vs `pluck` evaluated in Coq on the logged atomic pipeline -- which conditions
go to WHERE and which to HAVING (as lists of the logged condition trees), which Aggregate gives the GROUP BY, which Sort becomes
the ORDER BY, DISTINCT / DISTINCT ON, and -- through C07's Model/SelectClauses.select_limit applied to the plucked takes -- the
LIMIT / OFFSET / FETCH tail.  Field by field; plus the hypotheses of c01_pluck_sound judged on the same pipeline."""
import json

from ..common import coq_eval, harness

HEADER = ("From Coq Require Import List NArith ZArith Bool.\n"
          "From PV Require Import Lib.ListX Model.Checked Model.RangeArith Model.SelectClauses Model.SelectPluck Model.SplitBase Model.Sorts.\n"
          "Import ListNotations.\n")
KINDS = {"From": "QFrom", "Join": "QJoin", "Select": "QSelect", "Distinct": "QDistinct", "Union": "QUnion"}
KIND_SPLIT = {"From": "KFrom", "Join": "KJoin", "Filter": "KFilter", "Aggregate": "KAggregate", "Sort": "KSort", "Take": "KTake", "Distinct": "KDistinct",
              "DistinctOn": "KDistinctOn", "Union": "KUnion", "Except": "KExcept", "Intersect": "KIntersect", "Loop": "KLoop"}


def calls_of(entries):
    """[(in, [filter_of_conditions...], mid, out)] of one compile, in call order (calls nest for sub-queries)"""
    stack, done = [], []
    for e in entries:
        m = e.get("Message") or ""
        if m.startswith("verif:select_pipeline_in "):
            stack.append({"in": json.loads(m[25:]), "foc": []})
        elif m.startswith("verif:filter_of_conditions ") and stack:
            stack[-1]["foc"].append(json.loads(m[27:]))
        elif m.startswith("verif:select_pipeline_mid ") and stack:
            stack[-1]["mid"] = json.loads(m[26:])
        elif m.startswith("verif:select_pipeline_out ") and stack:
            c = stack.pop()
            c["out"] = json.loads(m[26:])
            done.append(c)
    return done, stack


KEYS = {}


def coq_pipeline(pl):
    def bz(b):
        return "None" if b is None else ("(Some (BInt (%d)%%Z))" % b if isinstance(b, int) else "(Some BOther)")
    items = []
    for i, t in enumerate(pl):
        k = t["kind"]
        if k == "Filter":
            items.append("QFilter %d%%nat" % i)
        elif k == "Sort":
            items.append("QSort (%d%%nat, %d%%nat, [%s])" % (i, len(t["keys"]), "; ".join("(%d%%nat, %s)" % (c, "true" if dr == "Desc" else "false") for c, dr in t["keys"])))
        elif k == "Aggregate":
            items.append("QAggregate %d%%nat" % i)
        elif k == "Take":
            items.append("QTake (ERange %s %s)" % (bz(t["start"]), bz(t["end"])))
        elif k == "DistinctOn":
            items.append("QDistinctOn %d%%nat" % i)
        else:
            items.append(KINDS.get(k, "QOther"))
    return "[" + "; ".join(items) + "]"


def pluck_stream(ck, srcs, targets=("sql.sqlite", "sql.generic", "sql.mssql")):
    srcs = list(dict.fromkeys(srcs))
    reqs = [{"src": s, "target": t, "want": [], "msg_prefix": "verif:"} for s in srcs for t in targets]
    ans = harness("log", reqs)
    I = {}

    def tid(t):
        return I.setdefault(t, len(I) + 1)
    exprs, meta = [], []
    seen_hook, ok_compiles = False, 0
    T = "nat (nat * nat * list (nat * bool)) nat erange nat"      # a sort = (position, number of keys, keys as (column id, desc))
    for rq, a in zip(reqs, ans):
        done, open_ = calls_of(a.get("entries", []))
        # the context sort inference left behind (hook verif:infer_sorts, exit): which column is a copy of which -- a redirect
        # (the same column behind a sub-query boundary) or a Compute that is a bare column reference.  `same` of drop_resorts
        # compares sort keys up to that (Model/Sorts.v canon_key)
        decls, rdsx = "[]", "[]"
        for e in a.get("entries", []):
            m = e.get("Message") or ""
            if m.startswith("verif:infer_sorts "):
                dd_ = json.loads(m[18:])
                if dd_.get("phase") == "exit":
                    decls = "[%s]" % "; ".join(
                        "(%d%%nat, %s)" % (dc["cid"], ("DRel %d%%nat %d%%nat" % (dc["riid"], dc["col"])) if "riid" in dc else
                                           ("DCompute %s" % ("None" if dc.get("column_ref") is None else "(Some %d%%nat)" % dc["column_ref"])))
                        for dc in sorted(dd_["ctx"]["column_decls"], key=lambda x: x["cid"]))
                    rdsx = "[%s]" % "; ".join("(%d%%nat, [%s])" % (i_["riid"], "; ".join("(%d%%nat, %d%%nat)" % (s_, t_) for s_, t_ in i_["redirects"]))
                                              for i_ in dd_["ctx"]["relation_instances"])
        SAME = ("(fun a b : nat * nat * list (nat * bool) => skey_eqb (canon_key 40 %s %s (snd a)) (canon_key 40 %s %s (snd b)))" % (decls, rdsx, decls, rdsx))
        if "ok" in a:
            ok_compiles += 1
            if open_:
                ck.violation("hook lines of translate_select_pipeline do not pair up in a successful compile", {"src": rq["src"], "target": rq["target"]})
        for c in done:
            seen_hook = True
            if "mid" not in c or len(c["foc"]) != 2 or not isinstance(c["out"]["query"], dict):
                ck.violation("translate_select_pipeline call with an unexpected hook trace (mid / two filter_of_conditions / query)",
                             {"src": rq["src"], "target": rq["target"], "foc": len(c["foc"]), "query": str(c["out"].get("query"))[:80]})
                continue
            pl = c["in"]["pipeline"]
            proj = []
            for it in c["mid"]["projection"]:
                proj.append("PWild" if isinstance(it, str) else ("PUnnamed %d%%N" % tid(it["unnamed"]) if "unnamed" in it else "PAliased %d%%N" % tid(it["alias"])))
            bare = c["in"]["limit_for_bare_offset"]
            barec = "None" if bare is None else "(Some [%s]%%N)" % ";".join(str(ord(ch)) for ch in bare)
            kinds = "[" + "; ".join(KIND_SPLIT[t["kind"]] if t["kind"] != "Take" or not t.get("sort") else "KTakeSorted"
                                    for t in pl if t["kind"] in KIND_SPLIT and t["kind"] not in ("From", "Join")) + "]"
            p = coq_pipeline(pl)
            exprs.append(
                "(let c := pluck %s %s in "
                "((q_where %s c, q_group %s c, q_having %s c), (map (fun s => fst (fst s)) (match q_order %s c with Some s => [s] | None => [] end), q_distinct %s c, q_distinct_on %s c), "
                " clauses_code (select_limit %s %s (match q_order %s c with Some s => snd (fst s) | None => O end) (q_distinct %s c) [%s] (q_takes %s c)), "
                " (theorem_applies %s %s %s, (clause_ordered (kinds_theta %s %s), clause_ordered %s))))"
                % (T, p, T, T, T, T, T, T, "true" if c["in"]["use_fetch"] else "false", barec, T, T, "; ".join(proj), T, T, SAME, p, T, p, kinds))
            meta.append((rq, c))
    if ok_compiles and not seen_hook:
        ck.violation("no verif:select_pipeline_* line in any of %d successful compiles: the hook of translate_select_pipeline is missing" % ok_compiles,
                     {"kind": "pluck-hook-missing"}, no_input=True)
        return
    vals = coq_eval(HEADER, exprs) if exprs else []
    names_of = {v: t for t, v in I.items()}
    agree = 0
    for (rq, c), v in zip(meta, vals):
        w, g, h, (order, distinct, dons), tail, co = v
        pl, q = c["in"]["pipeline"], c["out"]["query"]
        key = json.dumps([rq["target"], pl], sort_keys=True, default=str)
        ck.count("pluck", key)
        ck.stat("pluck", "target:" + rq["target"])
        problems = []
        # WHERE / HAVING: the condition trees handed to filter_of_conditions, in order
        if [pl[i]["expr"] for i in w] != c["foc"][0]["exprs"]:
            problems.append("WHERE conditions")
        if [pl[i]["expr"] for i in h] != c["foc"][1]["exprs"]:
            problems.append("HAVING conditions")
        if (q["where"] is None) != (not w) or (q["having"] is None) != (not h):
            problems.append("WHERE/HAVING presence")
        gi = g[1] if isinstance(g, tuple) else None          # Some i | None
        if len(q["group_by"]["exprs"]) != (len(pl[gi]["partition"]) if gi is not None else 0):
            problems.append("GROUP BY")
        # ORDER BY: the keys the chosen Sort translates to (mid.sorts lists every Sort of the pipeline in order)
        sort_idx = [i for i, t in enumerate(pl) if t["kind"] == "Sort"]
        forced = tail[0] == 1 and tail[1][5][0] != 0        # the FETCH fallback of the tail model decides the key
        if not forced:
            want = c["mid"]["sorts"][sort_idx.index(order[0])] if order else []
            if (q["order_by"] or []) != (want or []):
                problems.append("ORDER BY")
        want_d = "Distinct" if distinct else ({"On": None} if dons else None)
        got_d = q["distinct"] if not isinstance(q["distinct"], dict) else {"On": None}
        if want_d != got_d:
            problems.append("DISTINCT")
        # the tail (C07's model applied to the plucked takes)
        if tail[0] == 1:
            lk, lz, ls, off, fe, od = tail[1]
            lim = None if lk == 0 else (str(lz) if lk == 1 else str(lz) + "L" if lk == 3 else "".join(chr(x) for x in ls))
            offv = None if off[0] == 0 else {"value": str(off[1]), "rows": "Rows" if off[2] else "None"}
            fet = None if fe[0] == 0 else str(fe[1])
            if lim != q["limit"] or offv != q["offset"] or fet != ((q["fetch"] or {}).get("quantity") if q["fetch"] else None):
                problems.append("LIMIT/OFFSET/FETCH")
            if od[0] != 0:
                want_expr = "(SELECT NULL)" if od[0] == 1 else names_of.get(od[2])
                if q["order_by"] != [{"expr": want_expr, "asc": None, "nulls_first": None}]:
                    problems.append("forced ORDER BY")
        else:
            problems.append("tail model fails where the compiler succeeded")
        for fld, on in (("where", bool(w)), ("having", bool(h)), ("group", gi is not None), ("order", bool(order)), ("distinct", bool(distinct)),
                        ("takes", any(t["kind"] == "Take" for t in pl))):
            if on:
                ck.stat("pluck", "has:" + fld)
        co, sup, one, sba, (co_raw, co_split) = co
        # the hypotheses of c01_pluck_sound_resorted on this very pipeline
        ck.stat("pluck", "theorem-applies" if (co and sup and one and sba) else
                "outside:" + ",".join(n for n, ok in (("clause-order", co), ("supported", sup), ("one-aggregate", one), ("sorts-behind-aggregate", sba)) if not ok))
        if sup and not (co and one and sba):
            # a real atomic pipeline of the Theta-2 fragment that does not meet the hypotheses under which its SELECT is proved to
            # mean what it means: a defect, unless it is one of the known shapes
            ks = [t["kind"] for t in pl]
            tk = [i for i, k in enumerate(ks) if k == "Take"]
            fid = None
            if len(tk) >= 2 and any(ks[i] == "Sort" and json.dumps(pl[i]["keys"]) != json.dumps(next((pl[j]["keys"] for j in range(tk[0] - 1, -1, -1) if ks[j] == "Sort"), None))
                                    for i in range(tk[0] + 1, tk[-1])):
                fid = "F37-takes-merged-across-sort-before-group"
            elif tk and "Distinct" in ks and tk[0] < ks.index("Distinct"):
                fid = "F19-take-then-distinct"
            ck.disagreement("an atomic pipeline handed to translate_select_pipeline is outside the hypotheses of c01_pluck_sound_resorted (%s): %s [%s]" % (
                ",".join(n for n, ok in (("clause-order", co), ("one-aggregate", one), ("sorts-behind-aggregate", sba)) if not ok),
                rq["src"].replace("\n", " | ")[:200], rq["target"]), {"src": rq["src"], "target": rq["target"], "kinds": ks}, lambda _c, f=fid: f)
        if not (co and sup and one and sba):
            ck.coverage.setdefault("pluck_outside_theorem", [])
            if len(ck.coverage["pluck_outside_theorem"]) < 12:
                ck.coverage["pluck_outside_theorem"].append({"src": rq["src"].replace("\n", " | ")[:160], "kinds": [t["kind"] for t in pl]})
        ck.stat("pluck", "clause-ordered-as-logged" if co_raw else "clause-ordered-only-without-re-emitted-sorts" if co else "not-clause-ordered")
        if problems:
            ck.disagreement("clause assembly of translate_select_pipeline differs from Model/SelectPluck.v (%s) on %s [%s]" % (
                ", ".join(problems), rq["src"].replace("\n", " | ")[:200], rq["target"]),
                {"src": rq["src"], "target": rq["target"], "pipeline": pl, "model": str(v)[:600], "query": q}, lambda _c: None)
        else:
            agree += 1
    ck.coverage["pluck_calls"] = len(meta)
    ck.coverage["pluck_agree"] = agree

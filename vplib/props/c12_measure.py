"""C12 development tool: measure, by bisection, the smallest nesting depth / repetition count at which
each input family of c12_streams.NEST exhausts the probe stack, per entry point and stack size.
    python3 -m vplib.props.c12_measure [max_depth]
Prints a JSON table {stack_mb: {entry: {family: first_overflowing_depth | null}}}; the minima per
(stack, entry) are what known_findings.d/C12.json records for F8."""
import json
import sys

from .c12_run import probe
from .c12_streams import NEST


def overflows(entry, fam, d, stack):
    a = probe([{"entry": entry, "src": NEST[fam](d), "stack_mb": stack}], cap_ms=60000, shards=1)[0]
    return "abort" in a and "overflowed its stack" in a.get("stderr", "")


def first_overflow(entry, fam, stack, hi):
    if not overflows(entry, fam, hi, stack):
        return None
    lo = 1
    while lo + 1 < hi and hi - lo > max(1, hi // 50):
        mid = (lo + hi) // 2
        if overflows(entry, fam, mid, stack):
            hi = mid
        else:
            lo = mid
    return hi


def main():
    hi = int(sys.argv[1]) if len(sys.argv) > 1 else 6000
    out = {}
    for stack in (8, 64):
        out[stack] = {}
        for entry in ("tokens", "pl", "fmt", "rq", "compile"):   # fmt is measurable since c8b3817 removed the exponential layout retries (finding H2)
            out[stack][entry] = {}
            for fam in NEST:
                if fam.startswith("open-") or fam in ("quotes-open", "at", "dots", "close-paren"):
                    continue
                cap = hi if fam not in ("group", "loop", "joins", "lets", "appends", "transforms", "filters") else min(hi, 3000)
                r = first_overflow(entry, fam, stack, cap)
                if r is not None:
                    out[stack][entry][fam] = r
            print(stack, entry, json.dumps(out[stack][entry]), file=sys.stderr, flush=True)
    print(json.dumps(out, indent=1))


if __name__ == "__main__":
    main()

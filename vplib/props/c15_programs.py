"""Source programs for C15: one program (at least) per PR node kind / literal kind / statement kind, error
programs for every stage, and a seeded generator of pipelines with random expressions; two structural families:
relation literals over every literal kind, and computes that later transforms refer to."""
import re

COVER = [
    'prql version:"0.13" target:sql.sqlite\nfrom t | take 1',
    'prql target:sql.postgres\nfrom t | take 1',
    'let x = 1\nlet y = 2.5\nlet z = true\nlet n = null\nlet s = "str"\nlet r = r"raw\\n"\nfrom t | derive {a = x, b = y, c = z, d = n, e = s, f = r}',
    'from t | derive {d = @2020-01-01, tm = @10:30:00, ts = @2020-01-01T10:30:00Z, i = 2days, j = 3hours}',
    'from t | filter (a | in 1..5) | filter (b | in ..3) | filter (c | in 2..)',
    'from t | derive {m = a * b, di = a // b, df = a / b, mo = a % b, po = a ** b, ad = a + b, su = a - b}',
    'from t | derive {eq = a == b, ne = a != b, gt = a > b, lt = a < b, ge = a >= b, le = a <= b, re = s ~= "x", an = p && q, o = p || q, co = a ?? b}',
    'from t | derive {neg = -a, pos = +a, no = !p} | join u (==id)',
    'from t | sort {-a, +b} | take 3',
    'let f = func x y:2 -> x + y\nfrom t | derive {z = f a y:3}',
    'let f = func x <int> -> <int> x + 1\nfrom t | derive {z = f a}',
    'let add = a b -> a + b\nfrom t | derive {z = add 1 2}',
    'from t | derive {s = s"UPPER({a})", fs = f"{a} and {b}"}',
    'from t | derive {c = case [a > 1 => "x", true => "y"]}',
    'from t | filter a == $1',
    'from t | derive {arr = [1, 2, 3]}',
    'from t | select {t.a, `my col`, x = t.b}',
    'type mytype = int\nfrom t',
    'type rel = [{a = int, b = text, ..}]\nfrom t',
    'type fn = func int text -> bool\nfrom t',
    'module m {\n  let x = 1\n  let f = a -> a + 1\n}\nfrom t | derive {y = m.x}',
    'import m.x as y\nfrom t',
    'import m.x\nfrom t',
    'from t | take 3 | into res',
    '@{binding_strength=11}\nlet plus = a b -> a + b\nfrom t',
    '#! doc comment of f\nlet f = a -> a\nfrom t',
    'let t2 <[{a = int}]> = (from t | select {a})\nfrom t2',
    'from t | derive x = (a | math.abs | math.round 2)',
    'from t | window rows:-2..2 (derive {m = average a})',
    'from t | window range:-2..2 (sort a | derive {m = sum a})',
    'from t | group {g} (aggregate {n = count this})',
    'from [{a = 1, b = 2.5, c = "x", d = null, e = true}]',
    'from t | derive {x = 1.5e300 * 1e300, y = 0.1, z = 1e-7, w = 123456789.125, big = 9223372036854775807}',
    'from t | derive {s = "quote\\" back\\\\ nl\\n tab\\t é \U0001F600"}',
    'from t | join side:full u (t.a == u.b && t.c > 1) | select {t.a, u.b}',
    'from t | join side:right u (==id)',
    'from t | loop (filter a < 5 | select {a = a + 1})',
    'from t | append u | remove v | intersect w',
    'from t | derive {r = rank a, l = lag 1 a} | sort a',
    'from s"SELECT * FROM x" | select {a}',
    'from (read_csv "f.csv") | take 1',
    'from t | select {a, b} | group {a} (take 2..3)',
    'let p = (from t | filter a > 1)\nlet q = (from p | select {a})\nfrom q | join p (==a)',
    'from t | derive {x = a | as int, y = (b | as text)}',
    'from t | filter (text.contains "x" s) | derive {u = text.upper s, d = date.to_text "%Y" dt}',
    'import y = m.x\nfrom t',
    'type a = float\ntype b = date\ntype c = time\ntype d = timestamp\ntype e = bool\ntype f = text\nfrom t',
    'type x = mytype\nfrom t',
    'let f = func -> 1\nfrom t',
    'let x <int>\nfrom t',
    'let f = internal foo.bar\nfrom t',
    'from t | derive {x = f"{a:>10}"}',
    'type fn = func -> int\ntype fn2 = func int\nfrom t',
    'let f = func x <float> y <date> -> x\nfrom t',
    'from $1 | take 1',
    'type r = {int, a = text, ..text}\ntype ar = []\ntype ar2 = [int]\nfrom t',
]

# programs that fail in each stage (lexer / parser / resolver / SQL back end) and known oddities
ERRORS = [
    'from t | filter',
    'from t | select {nope.x} | take "a"',
    'from t | join u (==id) | select {id}',
    'from t | derive x = y = 2',
    'let a = 5\nfrom a',
    'from t | derive {x = }',
    'from t | select {a +}',
    'from t | take 1.. | sort',
    'from t | filter (a ~= "x")',
    'from t | derive {d = (date.to_text "%Y" d0)}',
    'from t | select {a} | group {b} (take 1)',
    'from t | derive x = "unterminated',
    'from t | aggregate {x = min a} | window (derive y = sum x) | foo',
    'prql target:sql.nope\nfrom t',
    'prql version:"99"\nfrom t',
    'from t | loop (take 5)',
    'from t | sort {a} | take 9223372036854775807.. | take 2..',
    'from t | derive {x = 1 +}',
    '',
    '# only a comment',
]

# F14: literals that overflow binary64
NONFINITE = [
    'from t | derive {x = 1e400}',
    'from t | derive {x = -1e400}',
    'from t | filter a > 1e999 | select {a}',
    'let big = 2e308\nfrom t | derive {y = big}',
    'from t | filter a > 1e400',
    'from [{a = 1, b = 1e400}] | select {b}',
]


# literal-edge family: values at the boundaries of what a JSON number / string carries
INT_EDGES = [2**53 - 1, 2**53, 2**53 + 1, 2**53 + 3, 9007199254740993, 2**62 + 1, 2**63 - 2, 2**63 - 1025,
             1234567890123456789, 999999999999999999, 4611686018427387905, 72057594037927937, 2**31, 2**32 + 1, 10**15 + 1, 10**16 + 1, 10**17 + 3]
FLOAT_EDGES = ["0.1", "0.30000000000000004", "1.7976931348623157e308", "5e-324", "123456789.12345678", "9007199254740993.0",
               "1e22", "1e23", "2.2250738585072014e-308", "0.000001", "1e-7", "3.0", "100.0"]
STRING_EDGES = ['""', '"\\u{1F600}"', '"a\\"b"', '"tab\\tnl\\n"', "'single \" quote'", '"' + "x" * 300 + '"', '"null"', '"é ü ß 漢字"', 'r"raw \\ slash"']


def literal_edge_programs(rng, n):
    out = []
    for v in INT_EDGES:
        out.append("from accounts | filter id == %d | select {id, owner}" % v)
        out.append("from t | derive {x = %d, y = -%d} | take %d" % (v, v, min(v, 2**62)))
    for f in FLOAT_EDGES:
        out.append("from t | derive {x = %s, y = a * %s}" % (f, f))
    for s in STRING_EDGES:
        out.append("from t | derive {s = %s} | filter name == %s" % (s, s))
    for _ in range(n):
        digits = rng.choice([16, 17, 18, 19])
        v = rng.randrange(10 ** (digits - 1), min(10 ** digits, 2**63))
        out.append("from t | filter k == %d | derive {z = %d + a}" % (v, v - rng.randrange(1, 1000)))
        out.append("from [{a = %d, b = %d}] | select {b, a}" % (v, rng.randrange(2**53, 2**63)))
    return out

# ---------------------------------------------------------------------------------------------------------------
# float literals at full precision: 15-17 significant digits over the whole exponent range.  A float travels through JSON
# as its shortest round-trip text; whether it comes back as the same float depends on how exactly the JSON reader parses
# decimal text (serde_json's default parser is not correctly rounded: finding F14c).
def float_precision_literals(rng, n):
    import struct
    out = ["3.898088070211341e46", "9.690406502940995e-28", "4.221069999614152e54", "2.9138649815953417e-124", "1.7976931348623157e308", "2.2250738585072014e-308",
           "5e-324", "0.1", "0.30000000000000004", "123456789.12345678", "8.780790360890658e58"]
    while len(out) < n + 11:
        if rng.random() < 0.5:
            x = struct.unpack("<d", struct.pack("<Q", rng.getrandbits(64) & 0x7FFFFFFFFFFFFFFF))[0]
            if x != x or x == float("inf") or x == 0:
                continue
        else:
            x = rng.uniform(0, 1) * 10 ** rng.randint(-30, 60)
        t = repr(x)
        if "e" in t:
            m, e = t.split("e"); t = (m if "." in m else m + ".0") + "e" + str(int(e))
        out.append(t)
    return out


def float_precision_programs(rng, n):
    out = []
    for i, t in enumerate(float_precision_literals(rng, n)):
        k = i % 4
        out.append(["from t | derive {x = %s}", "from t | filter a > %s | select {a}", "from [{a = 1, b = %s}] | select {b}", "from t | derive {x = a * %s, y = -%s}"][k] % ((t, t) if k == 3 else t))
    return out


# ---------------------------------------------------------------------------------------------------------------
# literal kinds: every lr::Literal variant in every surface spelling the lexer accepts.  Used for relation-literal
# cells (`from [{..}]`: the only place where RQ holds `lr::Literal`s outside an Expr) and for expression positions.
LITERAL_KINDS = {
    "null": ["null"],
    "bool": ["true", "false"],
    "int": ["0", "1", "-7", "42", "1_000", "0x1F", "0b101", "0o17", "9007199254740993", "9223372036854775807", "-9223372036854775807"],
    "float": ["2.5", "-0.5", "1e3", "1.5e-7", "0.30000000000000004", "1e22", "5e-324", "1.7976931348623157e308", "100.0"],
    "string": ['"x"', '""', "'sq \" dq'", '"a\\"b\\\\c\\n"', '"""tri " ple"""', '"2024-02-29"', '"2days"', '"null"', '"é 漢 \\u{1F600}"', '"@2020-01-01"'],
    "raw": ['r"raw\\n"', "r'a\\b'", 'r"2024-02-29"', 'r""'],
    "date": ["@2024-02-29", "@1970-01-01", "@2020-12-31"],
    "time": ["@08:30:00", "@08:30", "@23:59:59.999", "@08:30:00.123456", "@10:00:00+02:00", "@10:00:00Z"],
    "timestamp": ["@2024-02-29T12:30:00", "@2020-01-01T10:30:00Z", "@2020-01-01T10:30:00+01:00", "@2020-01-01T10:30:00.5", "@2020-01-01T10:30"],
    "interval": ["2days", "1microseconds", "2milliseconds", "30seconds", "4minutes", "5hours", "6weeks", "7months", "8years", "0days"],
}
ALL_LITERALS = [l for k in sorted(LITERAL_KINDS) for l in LITERAL_KINDS[k]]


def _cell(rng, kind=None):
    kind = kind or rng.choice(sorted(LITERAL_KINDS))
    return rng.choice(LITERAL_KINDS[kind])


def relation_literal(rng, cols, nrows, kinds=None):
    """`[{c = lit, ..}, ..]`: every row has the columns `cols`; `kinds` fixes the literal kind per column (a typed
    table) or is None (any kind in any cell: nothing type-checks a relation literal)"""
    rows = []
    for _ in range(nrows):
        rows.append("{" + ", ".join("%s = %s" % (c, _cell(rng, kinds[i] if kinds else None)) for i, c in enumerate(cols)) + "}")
    return "[" + ", ".join(rows) + "]"


_REL_TAILS = ["", " | select {b, a}", " | filter a != null", " | sort {-b} | take 2", " | derive {z = c} | select {z, a}",
              " | group {a} (aggregate {n = count this})", " | join u (==a)", " | take 1 | select {c}"]


def relation_literal_programs(rng, n):
    """relation literals holding every literal kind, in every position a relation literal can take
    (`from`, `let`, `join`, `append`, nested pipeline), with typed and untyped columns, one and several rows."""
    out = []
    kinds = sorted(LITERAL_KINDS)
    # directed: each spelling of each kind in a cell once (one program per kind, one column per spelling)
    for k in kinds:
        out.append("from [{id = 1, %s}] | select {id, c0}" % ", ".join("c%d = %s" % (i, l) for i, l in enumerate(LITERAL_KINDS[k])))
    # one row with one cell of every kind; two rows (UNION ALL) with the kinds rotated
    out.append("from [{%s}]" % ", ".join("%s_ = %s" % (k, LITERAL_KINDS[k][0]) for k in kinds))
    out.append("from [{%s}, {%s}]" % (", ".join("c%d = %s" % (i, LITERAL_KINDS[k][-1]) for i, k in enumerate(kinds)),
                                      ", ".join("c%d = %s" % (i, LITERAL_KINDS[k][0]) for i, k in enumerate(kinds[1:] + kinds[:1]))))
    for k in kinds:
        lit = LITERAL_KINDS[k][0]
        pos = rng.randrange(4)
        if pos == 0:
            out.append("let r = [{a = 1, b = %s}]\nfrom t | join r (==a) | select {t.a, r.b}" % lit)
        elif pos == 1:
            out.append("from t | select {a, b} | append [{a = 1, b = %s}]" % lit)
        elif pos == 2:
            out.append("let r = [{a = 1, b = %s}, {a = 2, b = null}]\nfrom r | filter b != null | derive {c = b}" % lit)
        else:
            out.append("from t | join side:left [{a = 1, b = %s}] (==a)" % lit)
    for _ in range(n):
        cols = ["a", "b", "c", "d"][:rng.choice([1, 2, 3, 3, 4])]
        typed = [rng.choice(kinds) for _ in cols] if rng.random() < 0.5 else None
        rel = relation_literal(rng, cols, rng.choice([1, 1, 2, 3]), typed)
        tail = rng.choice(_REL_TAILS)
        if "c" not in cols:
            tail = tail.replace("z = c", "z = a").replace("select {c}", "select {a}")
        if "b" not in cols:
            tail = tail.replace("{b, a}", "{a}").replace("{-b}", "{-a}")
        out.append("from %s%s" % (rel, tail))
    return out


# ---------------------------------------------------------------------------------------------------------------
# computes referenced by later transforms: chains of `derive`s whose columns are named again -- bare, aliased, or
# inside an expression -- by aggregate tuples, group keys, sorts, filters, window bodies and joins.  The lowerer
# re-uses the column id of an already lowered compute for a bare reference, so RQ transforms list ids of computes
# that were declared for another purpose (Compute.is_aggregation / window / sort flags then belong to two users).
_SRC_COLS = ["a", "b", "c"]
_AGG_FNS = ["sum", "min", "max", "average", "count", "stddev", "any", "every", "concat_array"]
_DERIVE_EXPRS = ["%s + 1", "%s * 2", "-%s", "%s ?? 0", "2", '"k"', "@2020-01-01", "null", "%s > 1", "(%s | math.abs)",
                 "case [%s > 0 => 1, true => 0]", 's"f({%s})"', 'f"{%s}!"', "%s == null"]


def compute_ref_program(rng):
    derived = []
    steps = []
    for i in range(rng.choice([1, 2, 2, 3])):
        name = "d%d" % i
        e = rng.choice(_DERIVE_EXPRS)
        if "%s" in e:
            e = e % rng.choice(_SRC_COLS + derived + derived)
        steps.append("derive %s = %s" % (name, e) if rng.random() < 0.6 else "derive {%s = %s}" % (name, e))
        derived.append(name)
    # something else that depends on a derived column before the aggregate
    for _ in range(rng.choice([0, 0, 1, 2])):
        d = rng.choice(derived)
        steps.append(rng.choice(["filter %s != null" % d, "sort {%s}" % d, "sort {-%s, a}" % d, "filter %s > 2" % d,
                                 "derive e%d = %s + a" % (len(steps), d), "take 10"]))
    items = []
    for d in rng.sample(derived, rng.randrange(0, len(derived) + 1)):
        items.append(rng.choice([d, d, d, "this.%s" % d, "z%s = %s" % (d, d), "(%s)" % d]))
    if rng.random() < 0.3:
        items.append(rng.choice(_SRC_COLS))
    for i in range(rng.choice([0, 1, 1, 2])):
        arg = rng.choice(_SRC_COLS + derived + derived + [x.split(" ")[1] for x in steps if x.startswith("derive e")])
        items.append("s%d = %s %s" % (i, rng.choice(_AGG_FNS), arg))
    if not items or rng.random() < 0.2:
        items.append("n = count this")
    rng.shuffle(items)
    agg = "aggregate {%s}" % ", ".join(items)
    keys = rng.sample(_SRC_COLS + derived + derived, rng.choice([0, 0, 1, 1, 2]))
    keys = list(dict.fromkeys(keys))
    shape = rng.randrange(6)
    if shape == 0 and keys:
        steps.append("group {%s} (take 1)" % ", ".join(keys))
    elif shape == 1:
        steps.append("window rolling:2 (derive {w = sum %s})" % rng.choice(derived))
        steps.append("group {%s} (%s)" % (", ".join(keys), agg) if keys else agg)
    elif shape == 2 and keys:
        steps.append("group {%s} (sort %s | derive {rk = row_number this})" % (", ".join(keys), rng.choice(derived)))
    elif keys:
        steps.append("group {%s} (%s)" % (", ".join(keys), agg))
    else:
        steps.append(agg)
    # users of the aggregate's output
    outs = [re.split(r"[ =]", it.replace("this.", "").strip("()"))[0] for it in items] + keys
    for _ in range(rng.choice([0, 0, 1, 2])):
        o = rng.choice(outs) if outs and shape not in (0, 2) else rng.choice(derived)
        steps.append(rng.choice(["derive r = %s" % o, "filter %s != null" % o, "sort {%s}" % o, "select {%s}" % o, "take 5"]))
    head = rng.choice(["from t", "from t", "from t", "from [{a = 1, b = 2, c = 3}]", "from t | select {a, b, c}"])
    return head + " | " + " | ".join(steps)


def compute_ref_programs(rng, n):
    out = [
        # an aggregate tuple names earlier computes bare / aliased / under `this.`, with and without other users
        "from t | derive d0 = 2 | aggregate {d0}",
        "from t | derive d0 = a + 1 | aggregate {d0, n = count this}",
        "from t | derive d0 = 2 | derive d1 = a * d0 | aggregate {d0, s = sum d1}",
        "from t | derive d0 = a + 1 | filter d0 > 2 | aggregate {d0, n = count this}",
        "from t | derive d0 = a + 1 | sort d0 | aggregate {this.d0, m = max d0}",
        "from t | derive {d0 = a + 1, d1 = d0 * 2} | group {b} (aggregate {d0, z = d1, s = sum d1})",
        # group keys that are earlier computes, also named again inside the group's pipeline
        "from t | derive d0 = a + 1 | group {d0} (aggregate {n = count this})",
        "from t | derive d0 = a + 1 | derive d1 = d0 * 2 | group {d0, b} (aggregate {d0, s = sum d1}) | sort d0",
        "from t | derive d0 = a > 1 | group {d0} (sort b | take 1)",
        "from t | derive d0 = a + 1 | group {d0} (derive {rk = rank d0}) | filter rk == 1",
        # the compute is itself an aggregation / window and is named again by a later aggregate
        "from t | group {b} (aggregate {s = sum a}) | derive d0 = s * 2 | aggregate {d0, m = max s}",
        "from t | derive d0 = sum a | aggregate {d0, n = count this}",
        "from t | window rolling:2 (derive {w = sum a}) | derive d0 = w + 1 | group {b} (aggregate {d0, w, t = sum w})",
        "from t | derive d0 = a + 1 | aggregate {d0} | derive d1 = d0 + 1 | aggregate {d1, d0}",
    ]
    return out + [compute_ref_program(rng) for _ in range(n)]


_OPS = ["*", "//", "/", "%", "**", "+", "-", "==", "!=", ">", "<", ">=", "<=", "&&", "||", "??"]
_LITS = ["1", "0", "42", "9007199254740993", "1234567890123456789", "2.5", "0.001", "1e10", "true", "false", "null", '"s"', '"a b"', "@2021-03-04", "@12:00", "3days", "1weeks", 'r"x\\y"',
         "@2021-03-04T05:06:07", "@2021-03-04T05:06:07Z", "@12:00:01.5", "2months", "10microseconds", "r'q'", "0x10", "1_000"]
_COLS = ["a", "b", "c", "t.a", "`my col`", "this.b"]


def _expr(rng, depth):
    if depth <= 0 or rng.random() < 0.3:
        return rng.choice(_LITS + _COLS + _COLS)
    k = rng.random()
    if k < 0.5:
        return "(%s %s %s)" % (_expr(rng, depth - 1), rng.choice(_OPS), _expr(rng, depth - 1))
    if k < 0.6:
        return "(%s%s)" % (rng.choice(["-", "!", "+"]), _expr(rng, depth - 1))
    if k < 0.7:
        return "(%s | in %s..%s)" % (rng.choice(_COLS), rng.choice(["1", "", "-3"]), rng.choice(["5", "", "10"]))
    if k < 0.8:
        return 'f"{%s} x {%s}"' % (rng.choice(_COLS), rng.choice(_COLS))
    if k < 0.88:
        return 'case [%s => %s, true => %s]' % (_expr(rng, depth - 1), _expr(rng, depth - 1), _expr(rng, 0))
    if k < 0.94:
        return "(%s %s)" % (rng.choice(["math.abs", "math.round 1", "text.lower", "math.sqrt"]), _expr(rng, depth - 1))
    return 's"f({%s}, %s)"' % (rng.choice(_COLS), rng.choice(["1", "'x'"]))


def _transform(rng):
    k = rng.randrange(12)
    if k == 0:
        return "filter %s" % _expr(rng, 2)
    if k == 1:
        return "derive {x%d = %s, y = %s}" % (rng.randrange(3), _expr(rng, 2), _expr(rng, 1))
    if k == 2:
        return "select {%s}" % ", ".join(rng.sample(["a", "b", "c", "z = a + 1"], rng.choice([1, 2, 3])))
    if k == 3:
        return "sort {%s%s}" % (rng.choice(["", "-", "+"]), rng.choice(["a", "b"]))
    if k == 4:
        return "take %s" % rng.choice(["5", "2..4", "3..", "..7"])
    if k == 5:
        return "group {%s} (aggregate {n = count this, s = sum %s})" % (rng.choice(["a", "b"]), rng.choice(["a", "c"]))
    if k == 6:
        return "join side:%s u (==%s)" % (rng.choice(["inner", "left", "right", "full"]), rng.choice(["a", "id"]))
    if k == 7:
        return "aggregate {m = %s %s}" % (rng.choice(["min", "max", "average", "count"]), rng.choice(["a", "b"]))
    if k == 8:
        return "window rolling:%d (derive {w = sum a})" % rng.choice([2, 3])
    if k == 9:
        return "group {a} (sort b | take %s)" % rng.choice(["1", "2"])
    if k == 10:
        return "append (from v | select {a, b})"
    return "derive {r = row_number this}"


def random_program(rng):
    n = rng.choice([1, 2, 2, 3, 4])
    head = rng.choice(["from t", "from t", "from `my t`", "from db.t", "prql target:sql.%s\nfrom t" % rng.choice(["duckdb", "mssql", "generic"])])
    k = rng.random()
    if k < 0.15:
        head = "let h = (from t | filter a > %s)\nfrom h" % rng.choice(_LITS[:6])
    elif k < 0.3:
        # a relation literal with the column names the transforms use: every transform below applies to it
        head = "from " + relation_literal(rng, ["a", "b", "c"], rng.choice([1, 2]), None)
    elif k < 0.45:
        # a chain of computes referenced by an aggregate / group, followed by ordinary transforms
        head = compute_ref_program(rng)
        n = rng.choice([0, 1, 2])
    return head + "".join(" | " + _transform(rng) for _ in range(n))

"""Op trace of semantic/lowering.rs (hook `lowerer-op-trace`, /repo 120eb8c) -> operations of the Lowerer machine.

`to_ops(events, rq_json)` groups the events of one compilation (harness `c16_trace`) into a Coq term of type
`list (op * list obs)` (coq/Model/Lowerer.v, coq/Model/LowererTrace.v).  The grouping is syntactic -- which event kinds
make up which constructor -- and does no bookkeeping of identifiers: every id in the term is copied from an event, the
machine computes its own and `run_obs` compares.

  extern                                              ODeclExtern           obs: BTable
  [reserve] relation_begin [leaf] instance push(From) OBegin                obs: [BReserved] BDepth [BTable] BInput BTop
  loop_begin relation_begin                           OBeginLoop            obs: BDepth
  [leaf] instance push(Join|Append)                   OInstance             obs: [BTable] BInput BTop
  declare how=cached|alias|new                        ODeclare              obs: BCid | BTop
  push(Select|Filter|Aggregate|Sort|Take)             OPush                 obs: BTop
  relation_end table                                  OEndTable             obs: BTable BDepth
  relation_end inline_table instance redirect push(Join|Append)
                                                      OEndInline            obs: BTable BInput BRedirect BTop
  relation_end loop_end                               OEndLoop              obs: BTop (the Loop transform is not in the trace:
                                                                                 taken from the final RQ? no -- see below)

Not in the trace, taken from the RQ the implementation returned: the ident of an extern table (the `extern` event carries the
declaration's name, which is null, not the LocalTable path).  The Loop transform pushed by `loop_end` is not logged either:
the machine builds it from the loop body's pushes and it is compared as part of the final RQ.
Anything that does not fit this grammar raises TraceError: the check reports it (fail closed).
"""
from .. import rqcoq
from ..rqcoq import _s, _os, _l, c_relcol, c_expr, c_transform, c_window


class TraceError(Exception):
    pass


def c_icols(cols):
    return _l(["(%s, %d)" % (c_relcol(rc), c) for rc, c in cols])


def c_frame(columns, select):
    if len(columns) != len(select):
        raise TraceError("relation_end: %d columns for %d selected ids" % (len(columns), len(select)))
    return _l(["(%s, %d)" % (c_relcol(rqcoq.relcol(c)), cid) for c, cid in zip(columns, select)])


def c_leaf(rel):
    """leaf event's relation -> (leaf term, cols term)"""
    r = rqcoq.relation(rel)
    k = r[1]
    cols = _l([c_relcol(c) for c in r[2]])
    if k[0] == "KLiteral":
        return "(LLiteral %s %d)" % (_l([_s(x) for x in k[1]]), k[2]), cols
    if k[0] == "KSString":
        return "(LSString %s)" % _l([c_expr(e) for e in k[1]]), cols
    if k[0] == "KBuiltIn":
        return "(LBuiltIn %s %s)" % (_s(k[1]), _l([c_expr(e) for e in k[2]])), cols
    raise TraceError("leaf of kind %s" % k[0])


def c_use(tr):
    if tr[0] == "TJoin":
        return "(UJoin J%s %s)" % (tr[1], c_expr(tr[3]))
    if tr[0] == "TAppend":
        return "UAppend"
    raise TraceError("instance used by %s" % tr[0])


class HookMissing(TraceError):
    pass


def to_ops(events, rq_json=None):
    """-> (coq term of type list (lop * list obs), number of operations, histogram of op kinds)"""
    out, kinds, hist, pending = _build(events, False)
    return _l(out), len(out), hist


def op_kinds(events, rq_json=None):
    """the kind of every operation of the trace, in order (to name the operation a replay stops at)"""
    return _build(events, False)[1]


def to_prefix(events):
    """trace of a compilation that ended in an error -> (term of the complete operations, their number, pending term or None):
    the events that do not complete an operation are dropped, except a final `push_select` (push_select itself failed)"""
    out, kinds, hist, pending = _build(events, True)
    return _l(out), len(out), pending


def c_lineage(lin):
    """-> (inputs term, lcols term)"""
    inputs = _l([str(i["id"]) for i in lin["inputs"]])
    cols = []
    for c in lin["columns"]:
        if isinstance(c, dict) and "Single" in c:
            v = c["Single"]
            name = v["name"][-1] if v.get("name") else None
            cols.append("(LSingle %s %d %s)" % (_os(name), v["target_id"], _os(v.get("target_name"))))
        elif isinstance(c, dict) and "All" in c:
            v = c["All"]
            cols.append("(LAll %d %s)" % (v["input_id"], _l([_s(x) for x in sorted(v["except"])])))
        else:
            raise TraceError("lineage column %r" % (c,))
    return inputs, _l(cols)


class _Truncated(Exception):
    pass


def _build(events, partial):
    # the reads of node_mapping (hooks/lookup-cid.diff) are taken out of the stream first: they do not change the state, each is
    # attached to the operation during (or right before) which it happened
    ev, pos, reads = [], [], []
    raw = [(e.get("op"), e.get("d") or {}) for e in events]
    j0 = 0
    while j0 < len(raw):
        k0, d0 = raw[j0]
        if k0 == "lookup_in":
            if j0 + 1 < len(raw) and raw[j0 + 1][0] == "lookup_out":
                reads.append((j0, "(BLookup %%s %d %s (Some %d))" % (d0["node"], _os(d0.get("name")), raw[j0 + 1][1]["cid"])))
                j0 += 2
            else:
                reads.append((j0, "(BLookup %%s %d %s None)" % (d0["node"], _os(d0.get("name")))))
                j0 += 1
        elif k0 == "lookup_out":
            raise TraceError("event %d: lookup_out without lookup_in" % j0)
        elif k0 in ("window_set", "window_take", "window_reset"):
            # hook lowerer-window (C04's): the Lowerer's `self.window` bookkeeping; carries no identifier state
            j0 += 1
        elif k0 == "selected_all":
            reads.append((j0, "(BSelectedAll %s %s %s)" % (_l([str(c) for c in d0["within"]]), _l([str(c) for c in d0["except"]]), _l([str(c) for c in d0["out"]]))))
            j0 += 1
        elif k0 == "lookup_all":
            reads.append((j0, "(BLookupAll %%s %d %s)" % (d0["node"], _l([str(c) for c in d0["cids"]]))))
            j0 += 1
        else:
            ev.append((k0, d0))
            pos.append(j0)
            j0 += 1
    n = len(ev)
    groups = []     # (kind, op term, obs list, first event, one past the last event) in positions of `ev`
    kinds = []
    hist = {}
    depth = 0       # open frames
    i = 0
    pending = None
    cur = [0]

    def emit(kind, op, obs):
        groups.append([kind, op, list(obs), cur[0], None])
        kinds.append(kind)
        hist[kind] = hist.get(kind, 0) + 1

    def lop(o):
        return "LOp (%s)" % o

    def need(j, *kinds_):
        if j >= n:
            if partial:
                raise _Truncated()
            raise TraceError("event %d: expected %s, found end of trace" % (j, "/".join(kinds_)))
        if ev[j][0] not in kinds_:
            raise TraceError("event %d: expected %s, found %s" % (j, "/".join(kinds_), ev[j][0]))
        return ev[j][1]

    def instance_at(j):
        """[leaf] instance at position j -> (src term, node, name term, icols, obs list, next j)"""
        obs = []
        if j < n and ev[j][0] == "leaf":
            d = ev[j][1]
            leaf, cols = c_leaf(d["relation"])
            src = "(SNewLeaf %s %s)" % (leaf, cols)
            obs.append("(BTable %d)" % d["tid"])
            ltid = d["tid"]
            j += 1
        else:
            src = None
            ltid = None
        d = need(j, "instance")
        if src is None:
            src = "(SExisting %d)" % d["tid"]
        elif d["tid"] != ltid:
            raise TraceError("instance of table %s right after leaf %s" % (d["tid"], ltid))
        icols = [(rqcoq.relcol(c[0]), c[1]) for c in d["columns"]]
        obs.append("(BInput %d %s)" % (d["node"], c_icols(icols)))
        return src, d["node"], _os(d["name"]), icols, obs, j + 1

    def push_at(j, *kinds_):
        d = need(j, "push")
        tr = rqcoq.transform(d["transform"])
        if kinds_ and tr[0] not in kinds_:
            raise TraceError("event %d: push of %s, expected %s" % (j, tr[0], "/".join(kinds_)))
        return tr

    try:
        while i < n:
            if groups and groups[-1][4] is None:
                groups[-1][4] = i
            cur[0] = i
            k, d = ev[i]
            if k == "extern":
                if "kind" not in d:
                    raise HookMissing("the `extern` event has no `kind` (hooks/extern-kind.diff is not in this tree)")
                rel = rqcoq.relation({"kind": d["kind"], "columns": d["columns"]})
                if rel[1][0] != "KExternRef":
                    raise TraceError("extern event of kind %s" % rel[1][0])
                emit("ODeclExtern", lop("ODeclExtern %s %s" % (_l([_s(x) for x in rel[1][1]]), _l([c_relcol(c) for c in rel[2]]))),
                     ["(BTable %d)" % d["tid"]])
                i += 1
            elif k in ("reserve", "relation_begin"):
                obs = []
                inline = k == "reserve"
                if inline:
                    obs.append("(BReserved %d)" % d["tid"])
                    need(i + 1, "relation_begin")
                    i += 1
                src, node, name, icols, o2, j = instance_at(i + 1)
                tr = push_at(j, "TFrom")
                depth += 1
                emit("OBegin", lop("OBegin %s %d %s %s" % ("true" if inline else "false", node, name, src)),
                     obs + ["(BDepth %d)" % depth] + o2 + ["(BTop %s)" % c_transform(tr)])
                i = j + 1
            elif k == "loop_begin":
                need(i + 1, "relation_begin")
                depth += 1
                emit("OBeginLoop", lop("OBeginLoop"), ["(BDepth %d)" % depth])
                i += 2
            elif k in ("leaf", "instance"):
                src, node, name, icols, obs, j = instance_at(i)
                tr = push_at(j, "TJoin", "TAppend")
                emit("OInstance", lop("OInstance %d %s %s %s" % (node, name, src, c_use(tr))), obs + ["(BTop %s)" % c_transform(tr)])
                i = j + 1
            elif k == "declare":
                how = d.get("how")
                if how == "cached":
                    emit("ODeclare-cached", lop("ODeclare %d ELit None false false" % d["node"]), ["(BCid %d %d)" % (d["node"], d["cid"])])
                elif how == "alias":
                    emit("ODeclare-alias", lop("ODeclare %d (ERef %d) None false true" % (d["node"], d["cid"])), ["(BCid %d %d)" % (d["node"], d["cid"])])
                elif how == "new":
                    tr = rqcoq.transform({"Compute": d["compute"]})
                    emit("ODeclare-new", lop("ODeclare %d %s %s %s false" % (d["node"], c_expr(tr[2]), c_window(tr[3]), "true" if tr[4] else "false")),
                         # (the Compute the code pushed is the operation's own parameters plus the id: BCid says it all)
                         ["(BCid %d %d)" % (d["node"], tr[1])])
                else:
                    raise TraceError("declare how=%r" % (how,))
                i += 1
            elif k == "push":
                tr = push_at(i, "TSelect", "TFilter", "TAggregate", "TSort", "TTake")
                # (the transform is the operation's parameter: an observation of it would only repeat the term)
                emit("OPush", lop("OPush %s" % c_transform(tr)), [])
                i += 1
            elif k == "push_select":
                # the input of push_select; its output is the relation_end event that follows (none when push_select failed)
                inputs, lcols = c_lineage(d["lineage"])
                if i + 1 >= n:
                    if not partial:
                        raise TraceError("trace ends with the input of push_select")
                    pending = (inputs, lcols)
                    i += 1
                    continue
                e = need(i + 1, "relation_end")
                sel = rqcoq.transform(e["select"]) if e.get("select") is not None else None
                if sel is None or sel[0] != "TSelect":
                    raise TraceError("relation_end without a closing Select")
                nxt = ev[i + 2][0] if i + 2 < n else None
                if nxt is None and partial:
                    raise _Truncated()
                if nxt == "loop_end":
                    if d["lineage"]["columns"]:
                        raise TraceError("the closure of a loop has a lineage")
                    depth -= 1
                    emit("OEndLoop", lop("OEndLoop"), ["(BDepth %d)" % depth])
                    i += 3
                elif nxt == "table":
                    t = ev[i + 2][1]
                    frame = c_frame(e["columns"], sel[1])
                    depth -= 1
                    emit("OEndTable", "LEndTable %s %s %s" % (_os(t["name"]), inputs, lcols), ["(BFrame %s)" % frame, "(BTable %d)" % t["tid"], "(BDepth %d)" % depth])
                    i += 3
                elif nxt == "inline_table":
                    t = ev[i + 2][1]
                    frame = c_frame(e["columns"], sel[1])
                    src, node, name, icols, obs, j = instance_at(i + 3)
                    if src != "(SExisting %d)" % t["tid"] or name != "None":
                        raise TraceError("inline table %s instantiated as %s %s" % (t["tid"], src, name))
                    r = need(j, "redirect")
                    pairs = _l(["(%d, %d)" % (a_, b_) for a_, b_ in r["pairs"]])
                    tr = push_at(j + 1, "TJoin", "TAppend")
                    depth -= 1
                    emit("OEndInline", "LEndInline %d %s %s %s" % (node, inputs, lcols, c_use(tr)),
                         ["(BFrame %s)" % frame, "(BTable %d)" % t["tid"], "(BDepth %d)" % depth] + obs + ["(BRedirect %s)" % pairs, "(BTop %s)" % c_transform(tr)])
                    i = j + 2
                else:
                    raise TraceError("event %d: relation_end followed by %s" % (i + 1, nxt))
            elif k == "relation_end":
                raise HookMissing("`relation_end` without the input of push_select in front of it (hooks/push-select.diff is not in this tree)")
            else:
                raise TraceError("event %d: unexpected %s" % (i, k))
    except _Truncated:
        pass
    if depth != 0 and not partial:
        raise TraceError("trace ends with %d open relation(s)" % depth)
    if groups and groups[-1][4] is None:
        groups[-1][4] = i if pending is None else i - 1
    # attach the reads: a read in front of a group's `instance` event (or in a group without one) saw the state in front of the
    # operation; a read behind it (a join filter, lowered after the instance was created and the redirect applied) the state after
    out = []
    ri = 0
    lo = 0
    for kind, op, obs, a_, b_ in groups:
        hi = pos[b_ - 1] + 1     # up to the group's last event: what follows belongs to the next operation
        inst = None
        for x in range(a_, b_):
            if ev[x][0] == "instance":
                inst = pos[x]
        extra = []
        while ri < len(reads) and reads[ri][0] < hi:
            p_, t_ = reads[ri]
            extra.append(t_ % ("true" if inst is not None and p_ > inst else "false") if "%s" in t_ else t_)
            ri += 1
        out.append("(%s, %s)" % (op, _l(extra + obs)))
    if ri < len(reads) and not partial:
        raise TraceError("%d read(s) of node_mapping after the last operation" % (len(reads) - ri))
    pterm = None
    if pending is not None:
        # which operation it would have been does not matter for `elaborate`: LEndTable
        pterm = "(LEndTable None %s %s)" % pending
    return out, kinds, hist, pterm


def has_lookup_hook(events):
    return any(e.get("op") in ("lookup_in", "lookup_all") for e in events)


def lowered_names(events):
    """the tables lower_table_decl declared, in order: last path component of an extern table, name of a relation variable"""
    out = []
    for e in events:
        if e.get("op") == "extern":
            k = (e["d"].get("kind") or {}).get("ExternRef", {}).get("LocalTable")
            out.append(k[-1] if k else None)
        elif e.get("op") == "table":
            out.append(e["d"].get("name"))
    return out


def deps_vs_refs(events, t):
    """TableDepsCollector against what lowering does: for every relation variable (and main) the set of declared tables its lowering
    instantiates (`instance` events of a table id that an `extern` / `table` event declared, between the previous declaration and
    its own `table` event) must be the set of dependencies toposort_tables was given for it.  -> list of (ident, deps, refs) that differ"""
    order = [tuple(x) for x in t["order"]]
    deps = dict((tuple(k), set(tuple(x) for x in ds)) for k, ds in t["dependencies"])
    declared = {}       # tid -> ident
    k = 0
    refs = set()
    bad = []
    for e in events:
        op, d = e.get("op"), e.get("d") or {}
        if op == "instance" and d["tid"] in declared:
            refs.add(declared[d["tid"]])
        elif op in ("extern", "table"):
            if k >= len(order):
                return [("more tables lowered than toposort_tables returned", [], [])]
            ident = order[k]
            k += 1
            declared[d["tid"]] = ident
            if op == "table":
                want = set(x for x in deps.get(ident, set()) if x in deps)      # unknown names are dropped by toposort.rs
                if want != refs:
                    bad.append((list(ident), sorted(map(list, want)), sorted(map(list, refs))))
            refs = set()
    return bad


def toposort_case(t):
    """hook `toposort_tables` (hooks/toposort-tables.diff) {dependencies: [(ident, [ident])], main, order} ->
    (coq expression `toposort dag fuel start`, expected order as indices, names in order).
    Mirrors the first lines of utils/toposort.rs: keys -> positions in `dependencies`, unknown dependencies dropped."""
    deps = t["dependencies"]
    keys = [tuple(k) for k, _ in deps]
    index = {}
    for i_, k in enumerate(keys):
        index[k] = i_        # HashMap collect: a later equal key would win; keys are distinct idents
    dag = [[index[tuple(x)] for x in ds if tuple(x) in index] for _, ds in deps]
    start = index[tuple(t["main"])]
    order = [index[tuple(x)] for x in t["order"]]
    nat = lambda xs: "[" + "; ".join("%d%%nat" % x for x in xs) + "]"
    expr = "(toposort (fun n => nth n [%s] []) %d %d)" % ("; ".join(nat(x) for x in dag), len(keys) + 2, start)
    return expr, order, [list(x) for x in t["order"]]


def perturbations(events, rng):
    """corrupted copies of a trace: each must be rejected by the grammar or by the replay"""
    import copy
    out = []
    idx = lambda pred: [i for i, e in enumerate(events) if pred(e)]
    # (the id of an `alias` is an input of the operation -- what the expression lowered to -- and cannot be cross-checked;
    #  the id of a `cached` declare is the machine's own node_mapping entry)
    decl = idx(lambda e: e.get("op") == "declare" and e["d"].get("how") == "cached")
    if decl:
        ev = copy.deepcopy(events)
        ev[rng.choice(decl)]["d"]["cid"] += 1
        out.append(("declare-cid+1", ev))
    inst = idx(lambda e: e.get("op") == "instance" and e["d"].get("columns"))
    if inst:
        ev = copy.deepcopy(events)
        ev[rng.choice(inst)]["d"]["columns"][-1][1] += 1
        out.append(("instance-cid+1", ev))
    red = idx(lambda e: e.get("op") == "redirect" and e["d"].get("pairs"))
    if red:
        ev = copy.deepcopy(events)
        ev[rng.choice(red)]["d"]["pairs"].pop()
        out.append(("redirect-pair-dropped", ev))
    tab = idx(lambda e: e.get("op") in ("table", "inline_table", "reserve"))
    if tab:
        ev = copy.deepcopy(events)
        ev[rng.choice(tab)]["d"]["tid"] += 1
        out.append(("tid+1", ev))
    push = idx(lambda e: e.get("op") == "push" and "Select" in e["d"].get("transform", {}) and e["d"]["transform"]["Select"])
    if push:
        ev = copy.deepcopy(events)
        ev[rng.choice(push)]["d"]["transform"]["Select"].pop()
        out.append(("select-id-dropped", ev))
    rel = idx(lambda e: e.get("op") == "relation_end" and (e["d"].get("select") or {}).get("Select"))
    if rel:
        ev = copy.deepcopy(events)
        ev[rng.choice(rel)]["d"]["select"]["Select"][-1] += 1
        out.append(("frame-cid+1", ev))
    anyi = idx(lambda e: e.get("op") == "push" or (e.get("op") == "declare" and e["d"].get("how") == "new"))
    if anyi:
        ev = copy.deepcopy(events)
        del ev[rng.choice(anyi)]
        out.append(("event-dropped", ev))
    return out


COQ_HEADER = ("From Coq Require Import List NArith Bool.\nFrom PV Require Import Lib.ListX Model.Rq Model.RqWf Model.RqAgg Model.Lowerer Model.RqEq Model.LowererTrace Model.LowererVis Model.LowererSelect Model.LowererEntries.\n"
              "Import ListNotations.\nLocal Open Scope N_scope.\n")

"""C07 helpers: known-finding classifiers (input predicate + symptom, both narrow), the operator -> program table
of the `ops` stream, small text utilities."""
import re

FALLBACK_NAMES = ["ansi", "bigquery", "clickhouse", "duckdb", "generic", "glaredb", "mssql", "mysql", "postgres", "redshift", "sqlite", "snowflake"]

SQLITE_VIOLATION = re.compile(r"no such column|no such table|syntax error|ambiguous column|same number of result columns|circular reference|incomplete input|requires one ORDER BY expression|unrecognized token|frame starting offset|frame ending offset|unsupported frame specification")


def code_of(sql):
    """SQL text with string literals and quoted identifiers blanked"""
    out = []
    i, n = 0, len(sql)
    while i < n:
        c = sql[i]
        if c in "'\"`":
            j = i + 1
            while j < n:
                if sql[j] == c:
                    if j + 1 < n and sql[j + 1] == c:
                        j += 2
                        continue
                    break
                j += 1
            out.append(c + c)
            i = j + 1
        else:
            out.append(c)
            i += 1
    return "".join(out)


def quote_underscore_idents(sql):
    """the same SQL with every unquoted identifier that starts with `_` double-quoted (outside literals)"""
    out = []
    i, n = 0, len(sql)
    while i < n:
        c = sql[i]
        if c in "'\"`":
            j = i + 1
            while j < n:
                if sql[j] == c:
                    if j + 1 < n and sql[j + 1] == c:
                        j += 2
                        continue
                    break
                j += 1
            out.append(sql[i:j + 1])
            i = j + 1
        else:
            m = re.match(r"_[A-Za-z0-9_]*", sql[i:]) if (c == "_" and (i == 0 or not (sql[i - 1].isalnum() or sql[i - 1] == "_"))) else None
            if m:
                out.append('"%s"' % m.group(0))
                i += len(m.group(0))
            else:
                out.append(c)
                i += 1
    return "".join(out)


def panic_site(a):
    p = a.get("panic") or {}
    loc = p.get("loc", "")
    return re.sub(r"^.*/src/", "", loc) or "abort"


def replays_of(f):
    rp = f.get("replay")
    out = []
    if isinstance(rp, dict) and "src" in rp:
        out.append(rp)
    for r in f.get("replays", []):
        if "src" in r:
            out.append(r)
    res = []
    for r in out:
        t = r.get("target")
        res.append({"src": r["src"].replace(" | ", "\n") if "\n" not in r["src"] else r["src"], "target": t[4:] if t and t.startswith("sql.") else t, "tags": r.get("tags", [])})
    return res


OPEN_TAKE = re.compile(r"take\s+\d+\.\.(?!\d)")
INTERVAL_LIT = re.compile(r"\b\d+(years|months|weeks|days|hours|minutes|seconds|milliseconds|microseconds)\b")
SORT_IN_SETOP_ARG = re.compile(r"\b(append|remove|intersect)\s*\((?:[^()]|\([^()]*\))*\bsort\b")
GENERIC_NOT_SQLITE = re.compile(r"EXCEPT ALL|INTERSECT ALL|(UNION|EXCEPT|INTERSECT) DISTINCT|\b(DATE|TIME|TIMESTAMP) ''|\bINTERVAL\b")


def bare_offset(code):
    return "OFFSET" in re.sub(r"LIMIT -?\d+ OFFSET \d+", "", code)


def classify(case):
    """-> id of a known finding (known_findings.d/C07.json) | 'oracle-…' (an artefact of the oracle, skipped and counted) | None"""
    t = case.get("target", "")
    d = t[4:] if t.startswith("sql.") else t
    src = case.get("src", "")
    sql = case.get("sql") or ""
    code = code_of(sql)
    kind = case.get("kind", "")
    msg = case.get("msg", "")
    diag = case.get("diag") or [0, 0, 0, 0]
    names = case.get("diag_names") or ["", "", ""]
    cons = case.get("construct") or [0, 0, 0]

    # F3 / N11: `--` in code position while the program has a minus sign.  Both classes are repaired (148aed7: neg of neg;
    # 2f7a440: negative literal / s-string operand): a fixed id is returned, which the framework reports as a VIOLATION.
    if "--" in code and "-" in src:
        return "F03-double-minus"
    if kind == "ops":
        return None
    # artefacts of running sql.generic on SQLite
    if d == "generic" and kind == "sqlite" and "syntax error" in msg:
        if GENERIC_NOT_SQLITE.search(code):
            return "oracle-generic-on-sqlite"
        if bare_offset(code) and OPEN_TAKE.search(src):
            return "oracle-generic-on-sqlite"
    # F27: OFFSET without LIMIT where the engine has none
    if d in ("sqlite", "mysql") and OPEN_TAKE.search(src) and bare_offset(code):
        if (kind == "dialect" and cons == [2, 0, 0]) or (kind == "sqlite" and "syntax error" in msg):
            return "F27-offset-without-limit"
    if d == "mssql" and kind == "dialect" and cons == [3, 0, 0] and OPEN_TAKE.search(src) and "OFFSET" in code:
        return "C07-N7-mssql-offset-without-order-by"
    ucode = code if d != "snowflake" else code_of(re.sub(r'"([^"\']*)"', r"\1", sql))       # snowflake: identifiers are always quoted
    # N19 (relational F38): ORDER BY of a CTE names a generated alias of its own select list qualified with a table: `ORDER BY t._expr_0`
    m19 = re.search(r"ORDER BY [^()]*?\b(\w+)\.(_expr_\d+)\b", ucode)
    if m19 and "sort" in src and re.search(r" AS %s\b" % re.escape(m19.group(2)), ucode):
        if (kind == "scope" and diag[0] == 4 and diag[1] == 5 and (names[2] or "") == m19.group(2)) or (kind == "sqlite" and ("no such column: %s.%s" % m19.groups()) in msg):
            return "C07-N19-order-by-qualified-generated-alias"
    # ---- second layer of the scope checker (kind scopex: ambiguity 21/22, window frame 23, grouping 24/25)
    # N15: two wildcard tables joined, a column of one of them used behind a split: the CTE projects `t.*, u.*` and the reader
    # names the column bare -- ambiguous whenever both tables have it
    if kind == "scopex" and diag[0] == 21 and "join" in src and re.search(r"\.\*, *[\w\"`]+\.\*", sql):
        return "C07-N15-ambiguous-column-behind-stars"
    # N9 seen by the grouping rule: TRUE / FALSE read as (ungrouped) column names on mssql
    if d == "mssql" and kind == "scopex" and diag[0] == 24 and (names[2] or "").lower() in ("true", "false"):
        return "C07-N9-mssql-boolean-literal"
    # N12 seen by the ambiguity rule: the widened operand has the sort column twice (`SELECT b.a, t.a ..`), its reader names it
    if kind == "scopex" and diag[0] == 21 and re.search(r"\bsort\b", src) and re.search(r"\b(append|remove|intersect|loop)\b", src) \
            and re.search(r"\b(UNION|EXCEPT|INTERSECT)\b", code) and re.search(r",\s*[\"`]?\w+[\"`]?\.[\"`]?%s[\"`]? FROM\b" % re.escape(names[1] or "?"), sql):
        return "C07-N12-sort-column-widens-operand"
    # N12: a sort in effect inside an operand of append / remove / intersect / loop whose key the operand's select does not keep:
    # the SELECT of that operand alone gets the sort column added.  Shapes: the FIRST operand (the loop's initial query) is
    # the WIDER one (F28 is the opposite: the first operand is pruned, it is the narrower one), or the argument pipeline of
    # the set operation itself contains a sort (then the second operand, read through `SELECT * FROM cte`, is the wider one)
    if re.search(r"\bsort\b", src) and re.search(r"\b(append|remove|intersect|loop)\b", src):
        ar = diag if kind == "scope" else (case.get("scope_diag") or [0, 0, 0, 0])
        arity_symptom = (kind == "scope" and diag[0] == 8) or (kind == "sqlite" and "same number of result columns" in msg and ar[0] == 8)
        if arity_symptom and re.search(r"\b(UNION|EXCEPT|INTERSECT)\b", code):
            if ar[1] > ar[2] or (ar[1] < ar[2] and SORT_IN_SETOP_ARG.search(src)):
                return "C07-N12-sort-column-widens-operand"
        # the same widening where the sort comes out of a relation variable: the added column is spelled with the table name
        # INSIDE that relation (the wrong name of C07-N1), `SELECT b.a, t.a FROM x AS b .. EXCEPT ALL ..`: the last item of
        # the operand's SELECT list has a qualifier that is no FROM item of it
        q_c = None
        if kind == "scope" and diag[0] == 4 and diag[1] == 1:
            q_c = (names[1] or "", names[2] or "")
        m = re.search(r"no such column: ([A-Za-z_0-9]+)\.([A-Za-z_0-9]+)", msg) if kind == "sqlite" else None
        if m:
            q_c = (m.group(1), m.group(2))
        if q_c and re.search(r"\b(UNION|EXCEPT|INTERSECT)\b", code) and re.search(r",\s*[\"`]?%s[\"`]?\.[\"`]?%s[\"`]? FROM\b" % (re.escape(q_c[0]), re.escape(q_c[1])), sql):
            return "C07-N12-sort-column-widens-operand"
    # N13: sql.bigquery reads backslash escapes but its string literals are emitted with single backslashes (fix d2c1667
    # repaired mysql, clickhouse, snowflake, redshift): a literal ending in a backslash swallows its closing quote
    if d == "bigquery" and "\\" in src and "\\'" in sql and kind in ("parse", "tokens", "scope"):
        return "C07-N13-bigquery-backslash-literal"
    # F28: one operand of a set operation pruned, the other not
    if (re.search(r"\b(append|remove|intersect)\b", src) or ("join" in src and re.search(r"\b(INTERSECT|EXCEPT)\b", code))) \
            and ((kind in ("sqlite",) and "same number of result columns" in msg) or (kind == "scope" and diag[0] == 8)):
        return "F28-setop-operand-pruned"
    # F24: renamed duplicate column behind a star
    if "join" in src and re.search(r"\.\*", code):
        if kind == "scope" and ((diag[0] == 3 and re.fullmatch(r"_expr_\d+", names[1] or "")) or (diag[0] == 4 and re.fullmatch(r"_expr_\d+", names[2] or ""))):
            return "F24-dangling-expr-behind-star"
        if kind == "sqlite" and re.search(r"no such column: (\w+\.)?_expr_\d+", msg):
            return "F24-dangling-expr-behind-star"
    # N1: ORDER BY names a relation that exists only inside a CTE / sub-query
    if "sort" in src and " ORDER BY " in code:
        if kind == "scope" and diag[0] == 4 and diag[1] == 5 and not re.fullmatch(r"_expr_\d+", names[2] or ""):
            return "C07-N1-order-by-inner-relation"
        m = re.search(r"no such column: ([A-Za-z_0-9]+\.[A-Za-z_0-9]+)", msg)
        if kind == "sqlite" and m and not re.search(r"\._expr_\d+$", m.group(1)) and re.search(r"ORDER BY [^()]*\b%s\b" % re.escape(m.group(1)), code):
            return "C07-N1-order-by-inner-relation"
    # N2: loop whose step is split: recursive reference inside a derived table
    if "loop" in src and ("WITH RECURSIVE" in code or (d == "mssql" and re.search(r"\bWITH\b", code))) and ((kind == "sqlite" and "circular reference" in msg) or (kind == "scope" and diag[0] == 2)):
        return "C07-N2-recursive-ref-in-subquery"
    # N4: generated names starting with `_` are not regular identifiers of standard SQL
    if d == "ansi" and kind == "parse" and re.search(r"(?<![A-Za-z0-9_])_[A-Za-z0-9_]+", code) and case.get("parses_when_underscore_idents_quoted"):
        return "C07-N4-ansi-underscore-identifier"
    # N10: join over "all columns" of wildcard relations: `a.* = b.*` (an intersect whose result columns are not used).
    # The other half of the old class -- a known operand with >= 2 columns zipped with a wildcard, `ON u.a = b.*` -- was
    # repaired by f0c772e (compile error): it is no longer classified, a recurrence is a VIOLATION.
    if re.search(r"\b(intersect|remove)\b", src):
        both_stars = bool(re.search(r"\.\* = \w+\.\*", code)) or '."*" = ' in sql and sql.count('"*"') >= 2 and bool(re.search(r'"\*" = "\w+"\."\*"', sql))
        one_star = bool(re.search(r"\w+\.\* = |= \w+\.\*", code)) or '"*"' in sql
        unused_result = bool(re.search(r"\bintersect\b[\s\S]*\baggregate\b", src))     # nothing of the intersect's columns is used afterwards
        if (both_stars or one_star) and unused_result:
            if kind in ("parse", "sqlite") or (kind == "scope" and diag[0] in (4, 5)):
                return "C07-N10-star-in-join-condition"
    # N9: T-SQL has no boolean literals: `true` / `false` are read as column names
    if d == "mssql" and kind == "scope" and diag[0] == 3 and (names[1] or "").lower() in ("true", "false") and re.search(r"(?i)\b(true|false)\b", code):
        return "C07-N9-mssql-boolean-literal"
    # N8: Redshift has no zero-column SELECT
    if d == "redshift" and re.search(r"\bSELECT( DISTINCT)? FROM\b", code):
        if (kind == "parse" and "found: FROM" in msg) or (kind == "scope" and diag[0] == 7) or (kind == "dialect" and cons == [11, 0, 0]):
            return "C07-N8-redshift-zero-columns"
    return None


_V = "from v\n"
OP_PROGRAMS = {
    "min": _V + "aggregate {r = min x}", "max": _V + "aggregate {r = max x}", "sum": _V + "aggregate {r = sum x}",
    "average": _V + "aggregate {r = average x}", "stddev": _V + "aggregate {r = stddev x}", "all": _V + "aggregate {r = all (x > 1)}",
    "any": _V + "aggregate {r = any (x > 1)}", "concat_array": _V + "aggregate {r = concat_array s}", "count": _V + "aggregate {r = count x}",
    "count_distinct": _V + "aggregate {r = count_distinct x}",
    "lag": _V + "sort id\nderive {r = lag 1 x}", "lead": _V + "sort id\nderive {r = lead 1 x}", "first": _V + "sort id\nderive {r = first x}",
    "last": _V + "sort id\nderive {r = last x}", "rank": _V + "sort id\nderive {r = rank x}", "rank_dense": _V + "sort id\nderive {r = rank_dense x}",
    "row_number": _V + "sort id\nderive {r = row_number this}",
    "as": _V + "derive {r = (x | as int)}",
    "read_parquet": 'from (read_parquet "f.parquet")', "read_csv": 'from (read_csv "f.csv")', "read_json": 'from (read_json "f.json")',
    "mul": _V + "derive {r = x * y}", "div_i": _V + "derive {r = x // y}", "div_f": _V + "derive {r = x / y}", "mod": _V + "derive {r = x % y}",
    "add": _V + "derive {r = x + y}", "sub": _V + "derive {r = x - y}", "eq": _V + "derive {r = x == y}", "ne": _V + "derive {r = x != y}",
    "gt": _V + "derive {r = x > y}", "lt": _V + "derive {r = x < y}", "gte": _V + "derive {r = x >= y}", "lte": _V + "derive {r = x <= y}",
    "and": _V + "derive {r = (x > 1) && (y > 1)}", "or": _V + "derive {r = (x > 1) || (y > 1)}", "coalesce": _V + "derive {r = x ?? y}",
    "regex_search": _V + 'derive {r = s ~= "a"}', "neg": _V + "derive {r = -x}", "not": _V + "derive {r = !(x > 1)}",
    "date.to_text": _V + 'derive {r = (dt | date.to_text "%Y-%m-%d")}',
}
for _f in ["abs", "floor", "ceil", "exp", "ln", "log10", "sqrt", "degrees", "radians", "cos", "acos", "sin", "asin", "tan", "atan"]:
    OP_PROGRAMS["math." + _f] = _V + "derive {r = math.%s x}" % _f
OP_PROGRAMS["math.pi"] = _V + "derive {r = math.pi}"
OP_PROGRAMS["math.log"] = _V + "derive {r = (x | math.log 2)}"
OP_PROGRAMS["math.pow"] = _V + "derive {r = (x | math.pow 2)}"
OP_PROGRAMS["math.round"] = _V + "derive {r = (x | math.round 2)}"
for _f in ["lower", "upper", "ltrim", "rtrim", "trim", "length"]:
    OP_PROGRAMS["text." + _f] = _V + "derive {r = text.%s s}" % _f
OP_PROGRAMS["text.extract"] = _V + "derive {r = (s | text.extract 1 2)}"
OP_PROGRAMS["text.replace"] = _V + 'derive {r = (s | text.replace "a" "b")}'
for _f in ["starts_with", "contains", "ends_with"]:
    OP_PROGRAMS["text." + _f] = _V + 'derive {r = (s | text.%s "a")}' % _f

"""C02: known-finding classes as predicates on the INPUT (operator triple / template / dialect)."""

F = {
    "F1": "F1-sqlite-div-i-integer-division",
    "F2": "F2-between-unparenthesised",
    "F3": "F3-double-minus-comment",
    "F4": "F4-comparison-chain",
    "F5": "F5-template-strength-dishonest",
    "F16": "F16-generic-div-f-integer",
    "F17": "F17-timestamp-literal-text-compare",
    "F30": "F30-mul-right-operand-same-level",
    "N1": "C02-N1-regex-op-undocumented",
    "N2": "C02-N2-equality-under-comparison",
    "N3": "C02-N3-regexp-strength",
    "N4": "C02-N4-bigquery-degrees-hole",
}

CMP4 = {"op:<", "op:>", "op:<=", "op:>="}
EQ2 = {"op:=", "op:<>"}
DISHONEST = {"tmpl:div_i", "tmpl:math.log"}


def triple_class(tr):
    """the known class of one structurally bad (parent, site, child) triple of Model/SqlCompat.v, or None.
    Mirrors Props/C02.v `known_triple`."""
    p, site, c = tr
    if p == "between" or c == "between":
        return F["F2"]
    if c in DISHONEST:
        return F["F5"]
    if c == "tmpl:regex_search":
        return F["N3"]
    if p in CMP4 and c in EQ2:
        return F["N2"]
    if site == 1 and ((p in CMP4 and c in CMP4) or (p in EQ2 and c in EQ2)):
        return F["F4"]
    if p == "op:*" and site == 1 and c in ("tmpl:mod", "tmpl:div_f"):
        return F["F30"]
    return None


def pair_class(pr):
    """an unlicensed rotated operator pair (spellings) deeper on a spine"""
    o, o2 = pr
    cmp4 = {"<", ">", "<=", ">="}
    eq2 = {"=", "<>"}
    if (o in cmp4 and o2 in cmp4) or (o in eq2 and o2 in eq2):
        return F["F4"]
    if o == "*" and o2 in ("%", "/"):
        return F["F30"]
    if o2 in ("BETWEEN",) or o in ("BETWEEN",):
        return F["F2"]
    if o in ("%", "/") and o2 in ("*", "/"):
        return F["F5"]
    return None


def classify_e2e(case):
    bt = case.get("bad_triples")
    sql = case.get("sql") or ""
    msql = case.get("model_sql") or ""
    if "--" in msql and ("--" in sql):
        return F["F3"]
    if bt:
        triples, pairs = bt
        unknown = [t for t in triples if triple_class(t) is None] + [p for p in pairs if pair_class(p) is None]
        if unknown:
            return None          # a bad triple outside every known class: a new defect
        for t in triples:
            return triple_class(t)
        for p in pairs:
            return pair_class(p)
    kinds = set(case.get("kinds") or [])
    if case.get("dialect") == "sqlite" and "DivInt" in kinds:
        return F["F1"]
    if case.get("dialect") == "generic" and "DivFloat" in kinds:
        return F["F16"]
    return None


def classify_text(case):
    return None

"""C02: known-finding classes as predicates on the INPUT (operator triple / template / dialect).
Only OPEN findings are classes here; a repaired defect that comes back matches nothing and is a VIOLATION
(and even a matching id would be refused by Check.disagreement unless its status is "open")."""

F = {
    "F1": "F1-sqlite-div-i-integer-division",
    "F3b": "F3b-neg-of-minus-leading-sstring",
    "F5": "F5-template-strength-dishonest",
    "F16": "F16-generic-div-f-integer",
    "N7": "C02-N7-concat-operands-unparenthesised",
    "N9": "C02-N9-tilde-pattern-hole",
    "N10": "C02-N10-date-format-quote-escaped-twice",
    # repaired in /repo (status "fixed"): only used by the directed replays, which must NOT reproduce them
    "F17": "F17-timestamp-literal-text-compare",
    "N1": "C02-N1-regex-op-undocumented",
    "N3": "C02-N3-regexp-strength",
    "N4": "C02-N4-bigquery-degrees-hole",
    "N5": "C02-N5-sqlite-like-pattern-hole",
    "N6": "C02-N6-like-templates-unparenthesised",
}

DISHONEST = {"tmpl:div_i", "tmpl:math.log"}   # F5, repaired by /repo af135b8: kept as a name only, no classifier consults it
# C02-N7: the parent is an f-string (process_concat) on a dialect that spells concatenation `||`
# (Model/SqlCompat.v known_concat_part; of the two executable dialects only sqlite: concat_fine_except_parts_next_to_bars)
NO_CONCAT_FUNCTION = {"sqlite"}


def triple_class(tr, dialect=None):
    """the known class of one structurally bad (parent, site, child) triple of Model/SqlCompat.v, or None.
    Mirrors Model/SqlCompat.v `known_triple`."""
    p, site, c = tr
    if p == "concat" and dialect in NO_CONCAT_FUNCTION:
        return F["N7"]
    return None


def pair_class(pr):
    """an unlicensed rotated operator pair (spellings) deeper on a spine: only a dishonest template (top-level
    `*` or `/` under a declared strength 100) still produces one"""
    o, o2 = pr
    return None


def classify_e2e(case):
    bt = case.get("bad_triples")
    sql = case.get("sql") or ""
    msql = case.get("model_sql") or ""
    if bt:
        triples, pairs = bt
        unknown = [t for t in triples if triple_class(t) is None] + [p for p in pairs if pair_class(p) is None]
        if unknown:
            return None          # a bad triple outside every known class: a new (or returned) defect
        for t in triples:
            return triple_class(t)
        for p in pairs:
            return pair_class(p)
    kinds = set(case.get("kinds") or [])
    if case.get("dialect") == "sqlite" and "DivInt" in kinds:
        return F["F1"]
    if case.get("dialect") == "generic" and "DivFloat" in kinds:
        return F["F16"]
    return None


def classify_fncall(case):
    """a std function call whose emitted text the engine regroups: known only when the model's table says so
    (every bad triple of the case is in a known class) -- and the class is decided by the triple, not by the text"""
    bt = case.get("bad_triples")
    if not bt:
        return None
    triples, pairs = bt
    if not triples or pairs:
        return None
    cls = [triple_class(t, case.get("dialect")) for t in triples]
    if any(c is None for c in cls):
        return None
    return cls[0]


def classify_text(case):
    return None

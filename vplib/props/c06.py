"""C06 -- refactorings PRQL defines as equivalent do not change results.

Proof layer: coq/Props/C06.v (filter split, identity transforms, beta-reduction of user functions with
positional / named-with-default / piped arguments, let-inlining with any number of references, module
paths).  Compiler layer (validated per pair, not proved): for every base program of the relational core
and every applicable rewrite site/kind (vplib/rel/rewrites.py), base and rewritten program are compiled
for sql.sqlite and sql.generic, executed on the same instances, and the two RESULTS are compared (as
sequences when the final order is specified, else as multisets; column names too).  The base program is
also evaluated under the reference semantics, so that a pair that is wrong in the same way on both sides
is visible (to C01) and a pair that differs can be attributed to the side that left the meaning."""
import json
import os
import re
import time

from ..common import Check, coq_eval, harness
from ..rel import prog as P, run as R, e2e as E, rewrites as W

TRUSTED = [
    "Coq 8.16.1 kernel (coqc, vm_compute); no axioms (every theorem: Closed under the global context)",
    "reference semantics coq/Model/Rel.v + Model/Value.v (hand-written specification of the documented meaning), shared with C01",
    "models coq/Model/Subst.v (user functions: parameters, named defaults, piped argument; mirrors resolver/functions.rs apply_args_to_closure and ast_expand.rs desugar_pipeline) and coq/Model/Rewrite.v (let-bound tables, module tree; mirrors semantic/module.rs insert/get): hand-written, tied to the implementation only through the differential oracle",
    "rewrite engine vplib/rel/rewrites.py (what counts as 'the same program, refactored'): its abstract rewrites are re-checked against the reference semantics on every run (engine stream), its function abstraction is inverted syntactically (beta-reduction gives the original expression back) on every site",
    "Model/ModuleWalk.v on C10's Model/Scope.v (resolve_ident's walk over the enclosing modules; where a let-table / a function body is resolved): tied on every module-siblings variant (found module, call-site error class) by stream walk",
    "differential oracle: harness (prqlc::compile, rusqlite bundled SQLite) and the comparison in this file",
    "modelled, not verified: the resolver, lowering and the SQL back end ('both sides compile correctly') are validated per pair by execution, not proved",
]

TARGETS = ("sql.sqlite", "sql.generic")
BASE_COLS = {c for cs in P.TABLES.values() for c in cs}


# ------------------------------------------------------------------------------ cases

class Case:
    """one base program with its instances, reference-semantics expressions and rewritten variants"""

    def __init__(self, base_text, program, insts, model_exprs, ordered, final_cols):
        self.base_text, self.program, self.insts, self.model_exprs = base_text, program, insts, model_exprs
        self.ordered, self.final_cols = ordered, final_cols
        self.variants = []      # (stream, label, text, coq list | None)
        self.betas = []         # (label, text, Coq `(beta F C, Some E)`) for function-call rewrites
        self.walks = []         # (label, rewritten RProg) of module-siblings variants, for the tie with Model/ModuleWalk.v
        self.seen = {base_text}

    def add(self, stream, label, text, coq=None, beta=None):
        if text in self.seen:
            return False
        self.seen.add(text)
        self.variants.append((stream, label, text, coq))
        if beta is not None:
            self.betas.append((label, text, beta))
        return True


class _Text:
    def __init__(self, text):
        self.text = text

    def coq(self):
        return "(*B*)" + self.text + "(*E*)"


def model_parts(coq_text, inst):
    """(base relation, text with prog.py's table placeholders filled in) exactly as vplib/rel/run.model_expr fills them"""
    e = R.model_expr(_Text(coq_text), inst)
    head = "(let r := run "
    i, j = e.index("(*B*)"), e.index("(*E*)")
    assert e.startswith(head)
    return e[len(head):i].strip(), e[i + 5:j]


def make_case(pg, insts):
    return Case(pg.prql(), pg, insts, [R.model_expr(pg, i) for i in insts], pg.ordered, pg.final_cols)


def two_ref_cases(pg, insts, rng, force_rest=None):
    out = []
    for label, base, q, coq, ordered, fcols in W.two_ref_pairs(pg, rng, force_rest=force_rest):
        exprs = []
        for inst in insts:
            tq, body = model_parts(coq, inst)
            exprs.append("(let r := %s in (show r, names r))" % body.replace("TQ_BASE", tq))
        extra = [P.Step("append" if "append" in label else "join", label, "")]
        pseudo = P.Program(list(pg.steps) + extra, ordered, fcols)
        c = Case(base, pseudo, insts, exprs, ordered, fcols)
        c.add("tworef", label, q.prql())
        for lab2, q2 in W.sites_module(q, rng, depth2=False):
            c.add("tworef", label + "+" + lab2, q2.prql())
        out.append(c)
    return out


# ------------------------------------------------------------------------------ running

def run_all(cases):
    """compile + execute every (text, target, instance); evaluate the reference semantics of the bases"""
    creqs, ckey = [], {}
    for ci, c in enumerate(cases):
        for text in [c.base_text] + [v[2] for v in c.variants]:
            for t in TARGETS:
                if (text, t) not in ckey:
                    ckey[(text, t)] = len(creqs)
                    creqs.append({"src": text, "target": t})
    cans = harness("compile", creqs)
    comp = {k: cans[i] for k, i in ckey.items()}
    xreqs, xkey = [], {}
    for ci, c in enumerate(cases):
        setups = [P.sql_setup(i) for i in c.insts]
        for text in [c.base_text] + [v[2] for v in c.variants]:
            for t in TARGETS:
                a = comp[(text, t)]
                if "ok" not in a:
                    continue
                for ii in range(len(c.insts)):
                    k = (ci, text, t, ii)
                    if k not in xkey:
                        xkey[k] = len(xreqs)
                        xreqs.append({"setup": setups[ii], "sql": a["ok"]})
    xans = harness("exec", xreqs)
    execd = {k: xans[i] for k, i in xkey.items()}
    exprs, ekey = [], {}
    for ci, c in enumerate(cases):
        for ii, e in enumerate(c.model_exprs):
            ekey[(ci, ii)] = len(exprs)
            exprs.append(e)
    mvals = coq_eval(R.HEADER, exprs)
    model = {}
    for k, i in ekey.items():
        model[k] = R.decode_model(mvals[i]) if mvals[i] is not None else None
    return comp, execd, model


def side_record(case, ci, text, target, ii, comp, execd, model, label=None):
    """a record in the shape vplib/rel/e2e.classify_common expects; verdict = this side vs the reference semantics"""
    a = comp[(text, target)]
    rec = {"program": case.program, "prql": text, "target": target, "instance": case.insts[ii], "ci": ci, "ii": ii, "label": label}
    if "ok" not in a:
        rec["verdict"] = "panic" if ("panic" in a or "abort" in a) else "compile-err"
        rec["compile"] = a
        rec["tag"] = rec["verdict"]
        return rec
    rec["sql"] = a["ok"]
    x = execd[(ci, text, target, ii)]
    m = model.get((ci, ii))
    if m is not None:
        mrows, mnames = m
        if not mrows and case.final_cols is not None:
            mnames = list(case.final_cols)
        rec["model_rows"], rec["model_names"] = mrows, mnames
    if "rows" not in x:
        rec["verdict"] = rec["tag"] = "sql-err"
        rec["sqlite"] = x
        return rec
    rows = [[R.decode_sqlite(v) for v in r] for r in x["rows"]]
    rec["sqlite_rows"], rec["sqlite_cols"] = rows, x["cols"]
    rec["tag"] = "rows"
    if m is None:
        rec["verdict"] = "model-missing"
    elif not R.rows_equal(rows, mrows, case.ordered):
        rec["verdict"] = "rows"
    elif len(x["cols"]) != len(mnames) or not all(w is None or w == g for w, g in zip(mnames, x["cols"])):
        rec["verdict"] = "names"
    else:
        rec["verdict"] = "ok"
    return rec


def pair_differs(case, rb, rr):
    """None when the two sides have the same result; else text"""
    if rb["tag"] == "rows" and rr["tag"] == "rows":
        if rb["sqlite_cols"] != rr["sqlite_cols"]:
            return "column names differ: %s vs %s" % (rb["sqlite_cols"], rr["sqlite_cols"])
        if not R.rows_equal(rb["sqlite_rows"], rr["sqlite_rows"], case.ordered):
            if R.rows_equal(rb["sqlite_rows"], rr["sqlite_rows"], False):
                return "row order differs (final order is specified)"
            return "rows differ"
        return None
    if rb["tag"] == "rows":
        return "base runs, rewritten program fails (%s)" % fail_text(rr)
    if rr["tag"] == "rows":
        return "base fails (%s), rewritten program runs" % fail_text(rb)
    return None     # both fail: no result on either side (the base's failure is C01/C07's subject)


def fail_text(rec):
    if "compile" in rec:
        a = rec["compile"]
        if "err" in a:
            return "compile error: " + "; ".join(str(e.get("reason")) for e in a["err"])[:200]
        return "panic: " + str(a.get("panic", a))[:200]
    return "SQLite: " + str((rec.get("sqlite") or {}).get("exec_err", rec.get("sqlite")))[:200]


# ------------------------------------------------------------------------------ known findings

# repaired in /repo: if one of them comes back it is a VIOLATION (no classifier below returns these ids any more; the guard also
# covers the shared classifier).  f705aba LIMIT with a bare OFFSET on sqlite; 148aed7 never emit `--`; d92afac table references
# resolve relative to the enclosing modules; 6d6f07a append does not count a wildcard as one column; 8d54bf7 an aggregate ends
# the sort in effect; 21fe768 the sort keys of a take are not selected into a SELECT DISTINCT (F72, itself a regression of 456bdcd); d060422 a sorted take in front of a distinct splits (F74, a regression of 21fe768)
REPAIRED = {"F27-offset-without-limit", "F03-double-minus", "F60-module-sibling-ref", "F63-append-arity-wildcard",
            "F65-sort-survives-aggregate", "F72-distinct-includes-carried-sort-key", "F74-take-distinct-then-more-panics"}


# C06 ids that record, for pairs produced by a rewrite, a defect that relational.json has under a shared id
SAME_DEFECT = {"F62-let-loses-window-order": "F35-let-boundary-hides-order-from-window",
               "F64-let-column-alias-lost": "F36-let-table-star-loses-derived-name",
               "F68-let-sort-key-recomputed": "F39-let-sort-key-expression-reinlined",
               "F69-sort-alias-not-carried": "F24-dangling-generated-alias"}


def classify_side(rec):
    """known defect that explains why THIS side is not what the reference semantics says.  The narrow C06 classes that are
    instances of a broader shared class (classify_first) are tried before the shared classifier, so that they are counted
    under their own id."""
    fid = classify_first(rec)
    if fid is None:
        fid = classify_c06(rec)
    if fid is None:
        fid = E.classify_common(let_view(rec))
    return None if fid in REPAIRED else fid


def let_view(rec):
    """the record as the shared classifier expects a let-bound program: a single `let@k` / `into@k` rewrite of a generated program IS
    that program with its first k steps named (prog.Program's meta let_at), so the shared let-specific classes apply to it"""
    m = re.fullmatch(r"(?:let|into)@(\d+)", rec.get("label") or "")
    pg = rec["program"]
    if not m or int(m.group(1)) < 1 or pg.__class__ is not P.Program or rec["prql"] == pg.prql() or pg.meta.get("let_at"):
        return rec
    return dict(rec, program=P.Program(pg.steps, pg.ordered, pg.final_cols, dict(pg.meta, let_at=int(m.group(1)))))


_AGG_SELECT_ORDERED = re.compile(r"\(SELECT ((?:[^()]|\((?:[^()]|\([^()]*\))*\))*?) FROM \w+ ORDER BY ([^()]*?)\) AS table_\d+")


def classify_first(rec):
    """narrow classes that the shared classifier would file under a broader id"""
    if rec["tag"] == "rows" and rec["verdict"] == "rows":
        # (F72, the 456bdcd regression, is repaired by 21fe768: a sort key in a SELECT DISTINCT list is unexplained again)
        if re.search(r"\btake\b", rec["prql"]) and re.search(r"\bsort\b", rec["prql"]) and distinct_widened(rec["prql"], rec.get("sql") or ""):
            return "F72-distinct-includes-carried-sort-key"      # in REPAIRED: classify_side turns it into None
        return None
    if rec["tag"] == "panic":
        # F74 (regression of 21fe768 = the F29 panic re-opened for `sort | take | distinct | more`) is repaired by d060422 (a sorted
        # take in front of a distinct gets a SELECT of its own): the id is in REPAIRED, the shape is recognised only to say so
        txt = fail_text(rec)
        if "name of this column has not been to be set before generating SQL" in txt and "sql/gen_expr.rs" in txt:
            m = re.search(r"\bsort\b.*?\btake\b.*?group \{[^{}]*\} \(take 1\)(.*)", rec["prql"], re.S)
            if m and re.search(r"\b(filter|derive|select|sort|take|group|aggregate|window|join|append)\b", m.group(1)):
                return "F74-take-distinct-then-more-panics"
        return None
    if rec["tag"] != "sql-err":
        return None
    prql, sql, txt = rec["prql"], rec.get("sql") or "", fail_text(rec)
    m = re.search(r"no such column: ([A-Za-z_0-9]+)", txt)
    if not m:
        return None
    col = m.group(1)
    # F71: a relational operand (bottom of append) that ends `sort .. | aggregate ..`: the operand's sub-query keeps
    # `ORDER BY <sort key>` behind the aggregate although the aggregate's output has no such column
    if re.search(r"\bappend \(", prql) and re.search(r"\bsort\b", prql) and re.search(r"\baggregate\b", prql) and "UNION ALL" in sql:
        for mm in _AGG_SELECT_ORDERED.finditer(sql):
            if re.search(r"\b(?:COUNT|SUM|MIN|MAX|AVG)\(", mm.group(1)) and re.search(r"\b%s\b" % re.escape(col), mm.group(2)):
                return "F71-operand-sort-survives-aggregate"
    # F69: the final ORDER BY names the generated alias of a re-selected sort key, which the CTEs in between do not project
    if re.fullmatch(r"_expr_\d+", col) and re.search(r"\bsort\b", prql) and re.search(r"ORDER BY [^()]*\b%s\b[^()]*$" % col, sql) \
            and re.search(r"\b\w+ AS %s\b" % col, sql) and re.search(r"\bselect \{[^\n|{}]*\b\w+ = \w+[,}]", prql):
        return "F69-sort-alias-not-carried"
    return None


_OVER_NO_ORDER = re.compile(r"OVER \((?:PARTITION BY (?:[^()]|\([^()]*\))*?)?(?:ROWS |RANGE |\))")


def unordered_limits(sql):
    """number of LIMIT / OFFSET clauses whose own SELECT has no ORDER BY (window OVER clauses do not count)"""
    n = 0
    for m in re.finditer(r" (?:LIMIT|OFFSET) -?\d+", sql):
        if re.search(r"LIMIT -?\d+$", sql[:m.start()]):
            continue                    # the OFFSET of a LIMIT .. OFFSET pair
        depth, i, seg = 0, m.start(), []
        while i > 0:
            i -= 1
            ch = sql[i]
            if ch == ")":
                depth += 1
            elif ch == "(":
                if depth == 0:
                    break
                depth -= 1
            elif depth == 0:
                seg.append(ch)
        flat = "".join(reversed(seg))
        flat = flat[flat.rfind("SELECT "):] if "SELECT " in flat else flat
        if "ORDER BY" not in flat:
            n += 1
    return n


def union_lists(sql):
    """[(select list of the top operand, select list of the bottom operand)] for every UNION ALL"""
    out = []
    for m in re.finditer(r"UNION ALL SELECT (.*?) FROM", sql):
        head = sql[:m.start()]
        k = head.rfind("SELECT ")
        while k > 0 and head.count("(", k) != head.count(")", k):      # skip SELECTs of nested sub-queries
            k = head.rfind("SELECT ", 0, k)
        mm = re.match(r"SELECT (.*?) FROM", head[k:]) if k >= 0 else None
        if mm:
            strip = lambda x: re.sub(r"^DISTINCT ", "", x.strip())
            out.append((W.split_top(strip(mm.group(1))), W.split_top(strip(m.group(1)))))
    return out


def union_pruned(sql, same_pipeline=False):
    """one operand of a UNION ALL is `SELECT *` / `SELECT NULL` while the other is an explicit column list (prune_inputs
    treated the two operands differently) -- F28's class, also when the operands are CTEs or sub-queries.  With
    same_pipeline (both operands are the SAME pipeline, two-reference stream): the two lists name different columns."""
    bare = lambda xs: len(xs) == 1 and (xs[0] in ("*", "NULL") or xs[0].endswith(".*"))
    name = lambda it: re.split(r"\bAS\b", it)[-1].strip().split(".")[-1]
    for top, bottom in union_lists(sql):
        if bare(top) != bare(bottom):
            return True
        if same_pipeline and not bare(top) and [name(x) for x in top] != [name(x) for x in bottom]:
            return True
    return False


def distinct_pruned(prql, sql):
    """a `group {k1..kn} (take 1)` of the source appears as SELECT DISTINCT over fewer than n columns"""
    ns = [len(W.split_top(m.group(1))) for m in re.finditer(r"group \{([^{}]*)\} \(take 1\)", prql)]
    if not ns:
        return False
    for m in re.finditer(r"SELECT DISTINCT (.*?) FROM", sql):
        if len(W.split_top(m.group(1))) < min(ns):
            return True
    return False


def distinct_widened(prql, sql):
    """a `group {k1..kn} (take 1)` of the source appears as SELECT DISTINCT over its keys PLUS a column that is a key of a `sort`
    of the source, or the `_expr_N` helper of one (the sort key a take carries has been put into the DISTINCT select list)"""
    groups = [set(x.strip() for x in W.split_top(m.group(1))) for m in re.finditer(r"group \{([^{}]*)\} \(take 1\)", prql)]
    keys = set()
    for m in re.finditer(r"\bsort \{([^{}]*)\}", prql):
        keys |= set(re.findall(r"[A-Za-z_][A-Za-z_0-9]*", m.group(1)))
    if not groups or not keys:
        return False
    for m in re.finditer(r"SELECT DISTINCT (.*?) FROM", sql):
        names = [re.split(r"\bAS\b", it)[-1].strip().split(".")[-1].strip('"`') for it in W.split_top(m.group(1))]
        for g in groups:
            surplus = [n for n in names if n not in g]
            if g <= set(names) and surplus and all(n in keys or re.fullmatch(r"_expr_\d+", n) for n in surplus):
                return True
    return False


def classify_c06(rec):
    """rewrite-specific known defects; predicates on the rewritten source, the emitted SQL and the failure"""
    lab = rec.get("label") or ""
    prql = rec["prql"]
    sql = rec.get("sql") or ""
    txt = fail_text(rec) if rec["tag"] != "rows" else ""
    has_let = bool(re.search(r"(?m)^\s*(?:let r_\d+ = \(|into r_\d+)", prql))
    if "module-siblings" in lab and rec["tag"] == "compile-err":
        # the inner function's name reaches the CALL SITE's scope: an inferred column of a wildcard table, an unknown name in a
        # closed frame, or ambiguous between two wildcard tables -- always the name of a function declared in the module
        errs = (rec.get("compile") or {}).get("err", [])
        names = set()
        for e in errs:
            r_ = str(e.get("reason"))
            mm = re.search(r"expected a function, but found `[\w.]*\b(fn_\d+)`", r_) or re.fullmatch(r"Unknown name `(fn_\d+)`", r_)
            if mm:
                names.add(mm.group(1))
            elif r_ == "Ambiguous name":
                names |= set(re.findall(r"\b\w+\.(fn_\d+)\b", " ".join(str(h) for h in e.get("hints") or [])))
        mods = re.findall(r"(?s)module m_\d+ \{\n(.*?)\n\}", prql)
        if names and any(len(re.findall(r"(?m)^\s*let fn_\d+ = ", body)) >= 2 and all(re.search(r"(?m)^\s*let %s = " % n, body) for n in names) for body in mods):
            return "F60b-module-sibling-function-ref"
    if "trfunc-pointfree" in lab and rec["tag"] == "sql-err" and re.search(r"no such column: pa_\d+", txt):
        return "F61-pointfree-transform-param"
    if "trfunc-pointfree" in lab and rec["tag"] == "panic" and "bad special function cast" in txt and "transforms.rs" in txt:
        return "F61-pointfree-transform-param"
    if rec["tag"] == "sql-err" and has_let and re.search(r"\bjoin\b", prql) and re.search(r"\bsort\b", prql):
        mo = re.search(r"(?:ambiguous column name|no such column): ([A-Za-z_0-9.]+)", txt)
        tail = sql[sql.rfind("ORDER BY"):] if "ORDER BY" in sql else ""
        if mo and ")" not in tail and re.search(r"(?<![A-Za-z_0-9.])%s\b" % re.escape(mo.group(1)), tail):
            return "C07-N1-order-by-inner-relation"
    if rec["tag"] == "sql-err":
        m = re.search(r"no such column: ([A-Za-z_0-9]+)", txt)
        if m:
            col = m.group(1)
            if has_let and re.search(r"\b%s = " % re.escape(col), prql) and "AS _expr_" in sql and not re.search(r"AS %s\b" % re.escape(col), sql):
                return "F64-let-column-alias-lost"
            if has_let and col in BASE_COLS and re.search(r"\bsort\b", prql) and \
                    any(re.search(r"\b%s\b" % col, seg) for seg in re.findall(r"SELECT ((?:(?!SELECT).)*?) FROM r_\d+", sql)):
                return "F68-let-sort-key-recomputed"
            mq = re.search(r"no such column: ([A-Za-z_0-9]+\.[A-Za-z_0-9]+)", txt)
            if mq and re.search(r"\bsort\b", prql) and re.search(r"\bjoin\b", prql) and re.search(r"ORDER BY [^()]*%s\b" % re.escape(mq.group(1)), sql):
                return "F38-order-by-qualified-generated-alias"
        if "UNION ALL" in sql and "same number of result columns" in txt and union_pruned(sql, lab.startswith("let2-append")):
            return "F28-append-prune"
    if rec["tag"] == "rows" and rec["verdict"] == "rows":
        if "RIGHT OUTER JOIN" in sql and "UNION ALL" in sql and re.search(r"\) SELECT [^()]* FROM table_\d+ WHERE ", sql):
            # SQLite (3.40 and 3.49 alike) pushes the outer WHERE into the operands of the compound sub-query and evaluates it
            # before the RIGHT JOIN's null-extension: rows with a NULL in the filtered column survive `WHERE x > 0`.
            # The emitted SQL is right; the engine is not.
            return "oracle-sqlite-right-join-pushdown"
        # take, sort, (select / derive lines), take, then a group / aggregate: ONE limit in the SQL where the two takes under different
        # sorts need two
        if re.search(r"(?m)^take [^\n]*\nsort [^\n]*\n(?:(?:select|derive) [^\n]*\n)*take [^\n]*\n(?:(?:select|derive) [^\n]*\n)*(?:group|aggregate)", prql) and len(re.findall(r"\bLIMIT\b", sql)) <= 1:
            return "F37-takes-merged-across-sort-before-group"
        # an OVER clause lost its ORDER BY relative to the base program's SQL (the same window has one there)
        # ... and no LIMIT lost its ORDER BY (that would be a different defect: a positional take over an unordered SELECT)
        if has_let and re.search(r"\bsort\b", prql) and len(_OVER_NO_ORDER.findall(sql)) > len(_OVER_NO_ORDER.findall(rec.get("base_sql") or "")) \
                and unordered_limits(sql) <= unordered_limits(rec.get("base_sql") or ""):
            return "F62-let-loses-window-order"
        if "UNION ALL" in sql and union_pruned(sql, lab.startswith("let2-append")):
            return "F28-append-prune"
        if "UNION ALL" in sql and distinct_pruned(prql, sql):
            return "F66-distinct-pruned-under-append"
        if has_let and re.search(r"\bsort\b", prql):
            # F73: a SELECT over a let-table re-declares (`expr AS n`) the NAME n of the column its own ORDER BY is about
            for mm in re.finditer(r"SELECT ((?:(?!SELECT|\bFROM\b).)*) FROM r_\d+ (?:WHERE (?:(?!ORDER BY|SELECT).)* )?ORDER BY ([^()]*?)(?: LIMIT| OFFSET|\)|$)", sql):
                for n_ in re.findall(r" AS ([A-Za-z_][A-Za-z_0-9]*)", mm.group(1)):
                    if re.search(r"\b%s\b" % n_, mm.group(2)) and len(re.findall(r"\b%s = " % n_, prql)) >= 2 \
                            and re.search(r"r_\d+ AS \(SELECT (?:(?!\bFROM\b).)* AS %s\b" % n_, sql):
                        return "F73-order-by-captured-by-redeclared-name"
    return None


def judge_pair(ck, stream, case, label, rb, rr):
    why = pair_differs(case, rb, rr)
    if why and os.environ.get("VERIF_DEBUG_F62") and classify_side(rr) == "F62-let-loses-window-order":
        print("F62?", label, "\n  BASE", rb["prql"].replace("\n", " | "), "\n   ", rb.get("sql"), "\n  RW  ", rr["prql"].replace("\n", " | "), "\n   ", rr.get("sql"))
    if stream == "pointfree" and rr["tag"] == "compile-err":
        ck.stat(stream, "rejected")     # leaving the relation parameter implicit is not a documented form: rejection is fine
        return
    ck.stat(stream, "pair:" + ("same" if why is None else "differ"))
    if why is None:
        if rb["tag"] != "rows":
            ck.stat(stream, "both-fail")
        return
    ids = []
    for rec in (rb, rr):
        if rec["verdict"] != "ok":
            ids.append(classify_side(rec))
    replay = {"label": label, "base": rb["prql"], "rewritten": rr["prql"], "target": rb["target"], "instance": rb["instance"],
              "ordered": case.ordered, "why": why,
              "base_side": R.replay_of(rb), "rewritten_side": R.replay_of(rr)}
    fids = [None]
    if ids and all(i is not None for i in ids):
        real = [i for k, i in enumerate(ids) if not i.startswith("oracle-") and i not in ids[:k]]
        if not real:
            ck.stat(stream, "skipped:" + ids[0])
            return
        fids = real         # each side that left the meaning is explained by its own finding: both are counted
        open_ids = {f["id"] for f in ck.findings if f.get("status", "open") == "open"}
        for i in list(real):
            fam = SAME_DEFECT.get(i)
            if fam in open_ids and fam not in fids:
                fids.append(fam)    # the C06 id is the rewrite-specific record of a shared relational finding: that one is reproduced too
    for fid in fids:
        ck.disagreement("%s [%s] %s: %s  ==>  %s" % (why, rb["target"], label, rb["prql"].replace("\n", " | ")[:160], rr["prql"].replace("\n", " | ")[:240]),
                        replay, lambda _c, f=fid: f)


def judge_cases(ck, cases, comp, execd, model):
    for ci, c in enumerate(cases):
        recs_b = {}
        for t in TARGETS:
            for ii in range(len(c.insts)):
                rb = side_record(c, ci, c.base_text, t, ii, comp, execd, model)
                recs_b[(t, ii)] = rb
                ck.stat("bases", "base-vs-reference:" + rb["verdict"])
        for stream, label, text, coq in c.variants:
            kind = label.split("@")[0]
            ck.stat(stream, "kind:" + kind)
            ck.stat(stream, "depth:%d" % (label.count("+") + 1))
            for t in TARGETS:
                for ii in range(len(c.insts)):
                    rb = dict(recs_b[(t, ii)], label=label)
                    rr = side_record(c, ci, text, t, ii, comp, execd, model, label=label)
                    rr["base_sql"] = rb.get("sql")
                    ck.count(stream, json.dumps([c.base_text, text, t, c.insts[ii]], sort_keys=True),
                             nontrivial=bool(rb.get("sqlite_rows")) or rb["tag"] != rr["tag"])
                    judge_pair(ck, stream, c, label, rb, rr)
                    if ck.evaluations % 2999 == 0:
                        ck.sample({"label": label, "base": c.base_text, "rewritten": text, "target": t, "rows": len(rr.get("sqlite_rows") or []),
                                   "sql_base": (rb.get("sql") or "")[:200], "sql_rewritten": (rr.get("sql") or "")[:300]})


def engine_stream(ck, cases):
    """the abstract rewrites (filter split/merge, identity transforms) re-judged by the reference semantics:
    `run base rewritten = run base original` evaluated inside Coq.  Validates the rewrite ENGINE against the
    same definitions the theorems are about (a wrong engine would otherwise look like a compiler defect)."""
    exprs, meta = [], []
    cap = 400      # per batch
    for c in cases:
        if not isinstance(c.program, P.Program) or not c.model_exprs:
            continue
        for stream, label, text, coq in c.variants:
            if coq is None or len(exprs) >= cap:
                continue
            inst = c.insts[0]
            base, p1 = model_parts(c.program.coq(), inst)
            base, p2 = model_parts(coq, inst)
            exprs.append("(let a := run %s %s in let b := run %s %s in (show a, names a, show b, names b))" % (base, p1, base, p2))
            meta.append((c, label, text))
    vals = coq_eval(R.HEADER, exprs)
    for (c, label, text), v in zip(meta, vals):
        ck.count("engine", c.base_text + "|" + text)
        ck.stat("engine", "kind:" + label.split("@")[0])
        ok = False
        if v is not None:
            sa, na, sb, nb = v
            ra, rb_ = R.decode_model((sa, na)), R.decode_model((sb, nb))
            ok = R.rows_equal(ra[0], rb_[0], c.ordered) and (ra[1] == rb_[1] or not ra[0])
        if not ok:
            ck.violation("rewrite engine: the reference semantics distinguishes base and rewritten program (%s): %s ==> %s" % (label, c.base_text.replace("\n", " | ")[:200], text.replace("\n", " | ")[:200]),
                         {"kind": "engine", "label": label, "base": c.base_text, "rewritten": text, "instance": c.insts[0]})


WALK_HEADER = ("From Coq Require Import List NArith.\nFrom PV Require Import Lib.ListX Model.Scope Model.ModuleWalk.\nImport ListNotations.\n")


def _cs(x):
    return "[" + ";".join(str(ord(ch)) for ch in x) + "]%N"


def walk_stream(ck, cases, comp):
    """tie between Model/ModuleWalk.v (on C10's Model/Scope.v) and the compiler, on every module-siblings variant: the model is
    given the module tree of the rewritten program and says (a) for a let-table referring to a let-table of its own / its parent
    module: in which module the reference is found (found_at) -- the program must then compile; (b) for a function whose body calls a
    function of its module, used from the main pipeline: what the name means where the function is CALLED (body_ref .. DFunction) --
    an inferred column / unknown / ambiguous, which must be the compile error observed."""
    exprs, meta = [], []
    for c in cases:
        for lab, q in c.walks:
            last = lab.split("+")[-1]
            kind, names = last.split("@")
            a_name, b_name = names.split(",")
            mod = next(d for d in q.decls if isinstance(d, W.Module))
            root = [("std", "NModule"), ("default_db", "NModule")]
            mods = []

            def walk_mod(m, path):
                for d in m.decls:
                    if isinstance(d, W.Module):
                        mods.append((path + [d.name], "NModule"))
                        walk_mod(d, path + [d.name])
                    else:
                        mods.append((path + [d.name], "NTable" if isinstance(d, W.LetTable) else "NFunc"))
            for d in q.decls:
                if isinstance(d, W.Module):
                    root.append((d.name, "NModule"))
                    walk_mod(d, [d.name])
                else:
                    root.append((d.name, "NTable" if isinstance(d, W.LetTable) else "NFunc"))
            b_path = next(pth for pth, _ in mods if pth[-1] == b_name)[:-1]
            a_path = next(pth for pth, _ in mods if pth[-1] == a_name)[:-1]
            is_func = any(k == "NFunc" and pth[-1] == b_name for pth, k in mods)
            coq_mods = "[" + "; ".join("([%s], %s)" % ("; ".join(_cs(x) for x in pth), k) for pth, k in mods) + "]"
            coq_root = "[" + "; ".join("(%s, %s)" % (_cs(n), k) for n, k in root) + "]"
            cfg = "(mkCfg true true true true)"
            if not is_func:
                sc = "(Scope.mkScope %s (Scope.mkFrame [] []) None [] [])" % coq_root
                exprs.append("(match found_at %s %s %s [%s] ([], %s) with Some p => (1%%N, p) | None => (0%%N, []) end)"
                             % (cfg, coq_mods, sc, "; ".join(_cs(x) for x in b_path), _cs(a_name)))
                meta.append((c, lab, q, "table", a_path, a_name))
            else:
                # the frame at the call site of the outer function: closed after a select / aggregate / group / distinct, two wildcard
                # inputs after a join of the bare tables, else the one wildcard table
                call = "%s.%s" % (".".join(b_path), b_name)
                k_call = next((i for i, st in enumerate(q.steps) if call in st.prql()), None)
                if k_call is None:
                    continue
                before = [st.kind for st in q.steps[:k_call]] + ([] if q.steps[k_call].kind != "select" else [])
                closed = any(k in ("select", "aggregate", "group_agg", "distinct") for k in before)
                joined = "join" in before
                if closed:
                    frame = "(Scope.mkFrame [] [%s])" % _cs("a")
                elif joined:
                    frame = "(Scope.mkFrame [Scope.mkInput %s [] true; Scope.mkInput %s [] true] [])" % (_cs("t"), _cs("u"))
                else:
                    frame = "(Scope.mkFrame [Scope.mkInput %s [] true] [])" % _cs("t")
                sc = "(Scope.mkScope %s %s None [] [])" % (coq_root, frame)
                exprs.append("(2%%N, [[N.of_nat (show_resolved (body_ref %s %s %s DFunction [%s] [] ([], %s))); N.of_nat (show_resolved (body_ref %s %s %s DLetTable [%s] [] ([], %s)))]])"
                             % (cfg, coq_mods, sc, "; ".join(_cs(x) for x in b_path), _cs(a_name), cfg, coq_mods, sc, "; ".join(_cs(x) for x in b_path), _cs(a_name)))
                meta.append((c, lab, q, "func", None, a_name))
    vals = coq_eval(WALK_HEADER, exprs) if exprs else []
    for (c, lab, q, what, a_path, a_name), v in zip(meta, vals):
        text = q.prql()
        a = comp.get((text, "sql.sqlite")) or {}
        ck.count("walk", text)
        ck.stat("walk", "kind:" + what + (":parent" if "siblings-parent" in lab else ""))
        if what == "table":
            got = ["".join(chr(x) for x in part) for part in v[1]] if v and v[0] == 1 else None
            # the compiler found the sibling iff the target let-table is compiled into the query (a CTE of its name); a reference that
            # fell through to a database table of that name compiles too, but defines no such CTE
            bound = "ok" in a and re.search(r"\b%s AS \(" % re.escape(a_name), a["ok"]) is not None
            if got != a_path or not bound:
                ck.violation("module walk: Model/ModuleWalk.found_at says the reference is found in module %s (expected %s) and the compiler %s: %s"
                             % (got, a_path, "binds it to the sibling" if bound else ("reads a database table of that name" if "ok" in a else "rejects the program"), text.replace("\n", " | ")[:300]),
                             {"kind": "walk", "label": lab, "rewritten": text, "model": repr(v), "target_table": a_name, "compile": a})
        else:
            at_call, at_decl = (v[1][0][0], v[1][0][1]) if v else (None, None)
            reasons = " ".join(str(e.get("reason")) for e in a.get("err", [])) if "ok" not in a else ""
            obs = 2 if "expected a function" in reasons else 3 if "Unknown name" in reasons else 4 if "Ambiguous name" in reasons else (0 if "ok" in a else 5)
            ck.stat("walk", "call-site:" + {0: "function", 2: "inferred-column", 3: "unknown", 4: "ambiguous", 5: "other"}.get(obs, "?"))
            if at_decl != 0 or at_call != obs:
                ck.violation("module walk: Model/ModuleWalk.body_ref says the sibling call means %s where the function is called (and %s where it is declared); the compiler's outcome is %s: %s"
                             % (at_call, at_decl, obs, text.replace("\n", " | ")[:300]),
                             {"kind": "walk", "label": lab, "rewritten": text, "model": repr(v), "compile": a if "ok" not in a else "ok"})


BETA_HEADER = R.HEADER + "From PV Require Import Model.Subst.\n"


def beta_stream(ck, cases):
    """tie between the function model (Model/Subst.v: bindings / beta / pipe) and the rewrite engine: for the generated
    function F and call C that replaced expression E, `beta F C` computed inside Coq must be exactly E"""
    items = [(c, b) for c in cases for b in c.betas]
    ck.rng.shuffle(items)
    items = items[:600]     # per batch
    vals = coq_eval(BETA_HEADER, [b[2] for _, b in items])
    for (c, (label, text, expr)), v in zip(items, vals):
        ck.count("beta", expr)
        ck.stat("beta", "kind:" + label.split("@")[0])
        if v is None or not isinstance(v, tuple) or len(v) != 2 or v[0] != v[1]:
            ck.violation("function model: beta-reduction of the generated call is not the replaced expression (%s): %s" % (label, text.replace("\n", " | ")[:300]),
                         {"kind": "beta", "label": label, "rewritten": text, "coq": expr, "value": repr(v)[:600]})


# ------------------------------------------------------------------------------ main

def gen_batch(ck, rng, n_base, n_two, n_dir, site_hist, n_sorted=60, n_known=3):
    """base programs with all their rewritten variants"""
    cases = []
    g = W.RGen(rng, max_steps=6)
    n_chain2 = n_chain3 = ck.n(2, 4)
    for bi in range(n_base):
        pg = g.program()
        insts = [P.gen_instance(rng, max_rows=6, min_rows=3), P.gen_instance(rng, max_rows=4, min_rows=1)]
        if bi % 3 == 0:
            insts.append(P.gen_instance(rng, max_rows=0))
        c = make_case(pg, insts)
        rp = W.from_program(pg)
        # depth 1: every applicable site of every kind
        for lab, q in W.all_sites(rp, rng, func_per_slot=ck.n(2, 4), trfunc_per_site=ck.n(1, 3), trfunc_maxlen=ck.n(2, 3)):
            k = W.kind_of(lab)
            if c.add(k, lab, q.prql(), q.coq() if k in ("filter", "identity") else None,
                     W.coq_func_call(*q.last_func) if (k == "func" and q.last_func) else None):
                site_hist[k] = site_hist.get(k, 0) + 1
        # module moves need a declaration: declarations produced by a let / function rewrite, moved (plain, nested, with decoy)
        l1 = W.sites_let(rp, rng, ("let",))
        f1 = W.sites_func(rp, rng, per_slot=1, variants=["pos", "named-pass", "piped"])
        t1_ = W.sites_trfunc(rp, rng, per_site=1, variants=["pos"], maxlen=2)
        firsts = [rng.choice(x) for x in (l1, f1, t1_) if x] + ([rng.choice(l1)] if l1 else [])
        if ck.thorough:
            rng.shuffle(l1); rng.shuffle(f1); rng.shuffle(t1_)
            firsts = l1[:4] + f1[:3] + t1_[:2]
        for lab, q in firsts:
            for lab2, q2 in W.sites_module(q, rng, depth2=ck.thorough or rng.random() < 0.5):
                if c.add("module", lab + "+" + lab2, q2.prql()):
                    site_hist["module"] = site_hist.get("module", 0) + 1
        # compositions of 2 and 3 rewrites at random sites
        for n_, ln in ((n_chain2, 2), (n_chain3, 3)):
            for _ in range(n_):
                q = W.random_chain(rp, rng, ln)
                if len(q.trace) == ln:
                    c.add("compose", "+".join(q.trace), q.prql())
        cases.append(c)

    # directed: a sort, then a positional transform (take / window / take per group), then a transform that forces the
    # positional one into a sub-query of its own -- the order has to cross whatever boundary a rewrite puts after the sort
    g4 = W.RGen(rng, max_steps=6)
    for _ in range(n_sorted):
        pre = [rng.choice(["derive", "filter", "select"]) for _ in range(rng.randint(0, 2))]
        pos = rng.choice(["take", "take", "win", "group_take"])
        post = rng.choice(["filter", "filter", "derive", "select", "sort", "aggregate", "group_agg", "take"])
        pg = g4.program(n_steps=len(pre) + 3 + rng.randint(0, 1), force=pre + ["sort", pos, post])
        insts = [P.gen_instance(rng, max_rows=6, min_rows=4), P.gen_instance(rng, max_rows=5, min_rows=3)]
        c = make_case(pg, insts)
        rp = W.from_program(pg)
        for lab, q in W.sites_let(rp, rng) + W.sites_identity(rp, rng) + W.sites_filter_split(rp, rng) + W.sites_filter_merge(rp, rng) \
                + W.sites_trfunc(rp, rng, per_site=1, maxlen=2) + W.sites_func(rp, rng, per_slot=1):
            k = W.kind_of(lab)
            c.add(k, lab, q.prql(), q.coq() if k in ("filter", "identity") else None)
        for _ in range(2):
            q = W.random_chain(rp, rng, 2)
            if len(q.trace) == 2:
                c.add("compose", "+".join(q.trace), q.prql())
        cases.append(c)

    # two references to one let-table (append, self-join)
    g2 = W.RGen(rng, max_steps=4)
    for _ in range(n_two):
        pg = g2.program()
        insts = [P.gen_instance(rng, max_rows=5, min_rows=2), P.gen_instance(rng, max_rows=3, min_rows=0)]
        cases += two_ref_cases(pg, insts, rng)

    # directed: declarations that refer to each other move into one module together (relative reference inside);
    # point-free transform functions (the relation parameter left implicit)
    g3 = W.RGen(rng, max_steps=5)
    for _ in range(n_dir):
        pg = g3.program(n_steps=rng.randint(2, 5))
        insts = [P.gen_instance(rng, max_rows=5, min_rows=2)]
        c = make_case(pg, insts)
        rp = W.from_program(pg)
        l1 = W.sites_let(rp, rng, ("let",))
        if l1:
            q1 = rng.choice(l1)[1]
            l2 = [x for x in W.sites_let(q1, rng, ("let",))]
            if l2:
                q2 = rng.choice(l2)[1]
                for lab, q in W.sites_module_siblings(q2, rng):
                    if c.add("module-siblings", "+".join(q.trace), q.prql()):
                        c.walks.append(("+".join(q.trace), q))
        for lab, q in W.sites_trfunc(rp, rng, variants=[], pointfree=True)[:2]:
            c.add("pointfree", lab, q.prql())
        # a generated function whose body calls a second generated function (both at top level), then both moved into
        # one module: the call inside the module stays relative
        f1 = W.sites_func(rp, rng, per_slot=1, variants=["pos", "named-pass", "piped"])
        rng.shuffle(f1)
        for lab, q1 in f1[:3]:
            for lab2, q2 in W.sites_func_nested(q1, rng):
                c.add("func", lab + "+" + lab2, q2.prql())
                for lab3, q3 in W.sites_module_siblings(q2, rng):
                    if c.add("module-siblings", "+".join(q3.trace), q3.prql()):
                        c.walks.append(("+".join(q3.trace), q3))
        if c.variants:
            cases.append(c)

    cases += directed_known(rng, n_known)
    cases += directed_shared(ck, rng)
    cases += directed_boundaries(ck, rng)
    return cases


def directed_boundaries(ck, rng):
    """two general families whose meaning depends on what a let / into / module boundary separates:
    (J) a join whose right columns nothing reads afterwards (the left columns are declared by an explicit select, so the
        continuation can name them bare): the join still multiplies / keeps rows, whether the prefix that ends in it is named
        or written inline; left, inner and right-column-reading controls;
    (S) a column NAME that is declared twice in one pipeline with a sort on it before and after the re-declaration
        (`derive {xs = ..} | sort {-xs} | take n | derive {xs = ..} | select {.., xs} | sort {-xs} | take m`): the second sort
        is about the second column, with or without a boundary between the two."""
    cases = []
    S = W.RStep
    tcols = P.TABLES["t"]

    def tq(q, c):
        return "ECol (Some %d%%N) %d%%N" % (P.nid(q), P.nid(c))
    for _ in range(ck.n(4, 10)):
        side, sd = rng.choice([("LeftJ", "side:left "), ("LeftJ", "side:left "), ("Inner", "")])
        key = rng.choice(["g", "a"])
        on_p, on_c = "(t.%s == u.%s)" % (key, key), "EBin Eq (%s) (%s)" % (tq("t", key), tq("u", key))
        pre = []
        if rng.random() < 0.4:
            f = S("filter", expr=("bin", "Or", ("bin", "Ne", _col("c"), ("lit", rng.choice([0, 1, 3]))), ("isnull", _col("c"), False)))
            pre.append(P.Step("filter", f.prql(), f.coq()))
        # the select of ALL of t's columns declares them; in the reference semantics it is the identity that keeps the qualifier `t`
        # (TExclude of a column t does not have), which the join condition refers to
        pre.append(P.Step("select", "select {%s}" % ", ".join(tcols), "TExclude [(None, %d%%N)]" % P.nid("zz"), known=True))
        join = P.Step("join", "join %su %s" % (sd, on_p), "TJoin %s %d%%N U_COLS U_TABLE (%s)" % (side, P.nid("u"), on_c), side=side)
        read_right = rng.random() < 0.25
        keep = ["b", "c"] + (["d"] if read_right else [])
        rest = []
        k = rng.random()
        if k < 0.4:
            f = S("filter", expr=("bin", "Or", ("bin", "Ge", _col("b"), ("lit", 0)), ("isnull", _col("b"), False)))
            rest.append(P.Step("filter", f.prql(), f.coq()))
        elif k < 0.7:
            d_ = S("derive", items=[("xj", ("bin", "Add", _col("b"), _col("c")))])
            rest.append(P.Step("derive", d_.prql(), d_.coq()))
            keep = keep + ["xj"]
        sel = S("select", items=[(None, _col(c)) for c in keep])
        rest.append(P.Step("select", sel.prql(), sel.coq(), final=True))
        pg = P.Program(pre + [join] + rest, False, keep, {"order": None, "key_pos": None, "outer_right": False})
        c = make_case(pg, [P.gen_instance(rng, max_rows=6, min_rows=4), P.gen_instance(rng, max_rows=5, min_rows=3)])
        rp = W.from_program(pg)
        # a column of the wildcard table u cannot be named through a relation variable (`cannot refer to column d of this table by
        # name`: an ordinary, documented limitation), so the control that reads u.d gets no let sites
        lets = [] if read_right else W.sites_let(rp, rng)
        for lab, q in lets + W.sites_identity(rp, rng, kinds=("filter-true", "derive-empty", "take-open")):
            kd = W.kind_of(lab)
            c.add(kd, lab, q.prql(), None)
            if kd == "let" and lab.startswith("let@"):
                for lab2, q2 in W.sites_module(q, rng, depth2=False):
                    c.add("module", lab + "+" + lab2, q2.prql())
        cases.append(c)
    for si in range(ck.n(6, 12)):
        n1, n2 = rng.choice([("a", "b"), ("b", "c"), ("c", "g"), ("g", "a")])
        d1 = rng.random() < 0.7
        d2 = d1 if rng.random() < 0.8 else not d1
        e1 = ("bin", "Add", _col(n1), _col(n2))
        e2 = ("bin", rng.choice(["Sub", "Mul"]), _col(n2), _col(n1))
        keep = ["id"] + ([n1] if rng.random() < 0.5 else [])
        steps = [S("derive", items=[("xs", e1)]),
                 S("sort", keys=[(d1, _col("xs")), (False, _col("id"))]),
                 S("take", raw="take %d" % rng.randint(3, 5), coq=None)]
        steps[-1].coq_text = "TTake None (Some (%s))" % steps[-1].raw.split()[1]
        steps[-1].info = {"rng": (None, int(steps[-1].raw.split()[1]))}
        if si % 2 == 0:
            steps += [S("derive", items=[("xs", e2)]), S("select", items=[(None, _col(c)) for c in keep + ["xs"]])]
        else:
            steps += [S("select", items=[(None, _col(c)) for c in keep] + [("xs", e2)])]
        steps += [S("sort", keys=[(d2, _col("xs")), (False, _col("id"))]), S("take", raw="take 2", coq="TTake None (Some (2))", info={"rng": (None, 2)})]
        pg = W.directed_program(steps, True, keep + ["xs"])
        c = make_case(pg, [P.gen_instance(rng, max_rows=6, min_rows=5), P.gen_instance(rng, max_rows=6, min_rows=4)])
        rp = W.from_program(pg)
        for lab, q in W.sites_let(rp, rng) + W.sites_identity(rp, rng, kinds=("filter-true", "derive-empty")):
            kd = W.kind_of(lab)
            c.add(kd, lab, q.prql(), None)
            if kd == "let" and lab.startswith("let@"):
                for lab2, q2 in W.sites_module(q, rng, depth2=False, decoy=False):
                    c.add("module", lab + "+" + lab2, q2.prql())
        cases.append(c)
    return cases


def directed_shared(ck, rng):
    """base programs that land in the shared relational findings (vplib/rel/e2e.directed_known, plus generator-made shapes of
    F19 / F37), rewritten at every site like any other base: a rewrite that moves the boundary the defect depends on
    changes the result, and the pair is attributed to the finding"""
    cases = []
    bases = []
    for fid, pg, inst in E.directed_known(rng):
        if isinstance(pg, P.RawProgram):
            continue
        if pg.meta.get("let_at"):
            # the let-bound form is what the let rewrite at that position produces: the base is the inline form
            pg = P.Program(pg.steps, pg.ordered, pg.final_cols, {k: v for k, v in pg.meta.items() if k != "let_at"})
        bases.append((pg, [inst] if inst else None))
    # F38: join of tables sharing a column name, sort by the left one, take, then select the RIGHT one
    def qcol(q, c):
        return "ECol (Some %d%%N) %d%%N" % (P.nid(q), P.nid(c))
    for side, sd in (("Inner", ""), ("LeftJ", "side:left ")):
        k_ = rng.choice(["id", "g"])
        picks = [("t", "a"), ("u", k_), ("u", "d")]
        bases.append((P.Program([
            P.Step("join", "join %su (t.id == u.id)" % sd, "TJoin %s %d%%N U_COLS U_TABLE (EBin Eq (%s) (%s))" % (side, P.nid("u"), qcol("t", "id"), qcol("u", "id")), side=side, one_to_one=True),
            P.Step("sort", "sort {t.%s, t.id}" % k_, "TSort [(false, %s); (false, %s)]" % (qcol("t", k_), qcol("t", "id")), keys=[(False, ("col", "t", k_)), (False, ("col", "t", "id"))]),
            P.Step("take", "take 3", "TTake None (Some (3))", rng=(None, 3)),
            P.Step("select", "select {%s}" % ", ".join("%s.%s" % p_ for p_ in picks), "TSelect [%s]" % "; ".join("(None, %s)" % qcol(*p_) for p_ in picks), final=True)],
            True, [c for _, c in picks], {"key_pos": None}), None))
    g = W.RGen(rng, max_steps=5)
    for force in (["sort", "take", "distinct"], ["take", "distinct"], ["sort", "take", "sort", "take", "group_agg"], ["sort", "take", "sort", "take", "aggregate"],
                  ["sort", "take", "sort", "take", "group_agg"]):
        for _ in range(ck.n(2, 4)):
            pg = g.program(n_steps=len(force), force=list(force))
            bases.append((pg, None))
    for pg, insts in bases:
        insts = insts or [P.gen_instance(rng, max_rows=6, min_rows=4), P.gen_instance(rng, max_rows=5, min_rows=3)]
        c = make_case(pg, insts)
        rp = W.from_program(pg)
        for lab, q in W.sites_let(rp, rng) + W.sites_identity(rp, rng) + W.sites_func(rp, rng, per_slot=1) + W.sites_trfunc(rp, rng, per_site=1, maxlen=2):
            k = W.kind_of(lab)
            c.add(k, lab, q.prql(), q.coq() if k == "identity" else None)
        if c.variants:
            cases.append(c)
    return cases


def _col(n):
    return ("col", None, n)


def directed_known(rng, n):
    """directed families for recorded open findings that the random streams hit too rarely (each is an ordinary base program
    with ordinary rewrites; nothing here is exempt from the judgement)"""
    cases = []
    S = W.RStep
    for _ in range(n):
        # (1) F69: a sort key re-selected under an alias, then two more SELECT boundaries: the identity / let rewrites add one
        k = rng.choice(["g", "b", "c"])
        o = rng.choice(["a", "id"])
        x1, x2, x3 = "xs1", "xs2", "xs3"
        keep = ["id", "a"] + ([k] if rng.random() < 0.6 else [])
        steps = [S("sort", keys=[(rng.random() < 0.3, _col(k)), (True, _col("id"))]),
                 S("select", items=[(None, _col(c)) for c in keep] + [(x1, _col(k))]),
                 S("filter", expr=("bin", "Or", ("bin", "Ge", _col(x1), ("lit", 0)), ("isnull", _col(x1), False))),
                 S("select", items=[(None, _col(c)) for c in keep] + [(x2, ("bin", "Sub", _col(x1), _col(o)))]),
                 S("derive", items=[(x3, _col(x2))]),
                 S("select", items=[(None, _col(c)) for c in keep + [x2, x3]])]
        pg = W.directed_program(steps, True, keep + [x2, x3])
        c = make_case(pg, [P.gen_instance(rng, max_rows=6, min_rows=4), P.gen_instance(rng, max_rows=4, min_rows=2)])
        rp = W.from_program(pg)
        for lab, q in W.sites_identity(rp, rng, kinds=("filter-true", "derive-empty", "take-open")) + W.sites_let(rp, rng):
            kd = W.kind_of(lab)
            c.add(kd, lab, q.prql(), q.coq() if kd == "identity" else None)
        cases.append(c)
        # (2) F66: `P | append P | aggregate/group` with P ending in a distinct over two columns of which the rest uses one
        g2 = W.RGen(rng, max_steps=3)
        pg = g2.program(n_steps=rng.randint(1, 2), force=["distinct", "filter"])
        if any(s.kind == "distinct" for s in pg.steps):
            cases += two_ref_cases(pg, [P.gen_instance(rng, max_rows=6, min_rows=4), P.gen_instance(rng, max_rows=4, min_rows=2)], rng, force_rest=rng.choice([2, 3]))
        # (2b) F72 (regression of 456bdcd): sort, then a distinct; the identity `take 1..` between them makes the take carry the sort key
        #      into the DISTINCT select list
        pg = g2.program(n_steps=2, force=["sort", "distinct"])
        if [s.kind for s in pg.steps[:3]] == ["sort", "select", "distinct"]:
            c = make_case(pg, [P.gen_instance(rng, max_rows=6, min_rows=5), P.gen_instance(rng, max_rows=6, min_rows=4)])
            rp = W.from_program(pg)
            for lab, q in W.sites_identity(rp, rng, kinds=("take-open", "filter-true")):
                c.add("identity", lab, q.prql(), q.coq())
            cases.append(c)
        # (3) F71: `P | append P` with P = sort by a computed key, then an aggregate
        pg = g2.program(n_steps=1, force=["aggregate"])
        if pg.steps and pg.steps[0].kind == "aggregate":
            srt = S("sort", keys=[(True, ("bin", "Sub", ("lit", 0), _col(rng.choice(["c", "b"])))), (False, _col("id"))])
            pg2 = P.Program([P.Step("sort", srt.prql(), srt.coq(), keys=list(srt.keys))] + list(pg.steps), pg.ordered, pg.final_cols, dict(pg.meta))
            cases += two_ref_cases(pg2, [P.gen_instance(rng, max_rows=5, min_rows=2)], rng, force_rest=rng.choice([0, 1]))
    return cases


def run():
    ck = Check("C06", level="proof")
    pr = ck.prove()
    broken = not pr["ok"]
    rng = ck.rng
    mult = 3 if broken else 1
    site_hist, secs = {}, {"generate": 0.0, "compile+exec+reference": 0.0, "judge": 0.0, "engine+beta": 0.0}
    n_bases = n_rewritten = 0
    for batch in range(ck.n(1, 5) * mult):          # batches bound the memory of the thorough tier
        t0 = time.time()
        # quick tier: a sample of the random bases (every site of each); the directed families are not sampled.  thorough: everything x 5
        cases = gen_batch(ck, rng, ck.n(190, 300), ck.n(55, 200), ck.n(20, 40), site_hist, n_sorted=ck.n(36, 60))
        t1 = time.time()
        comp, execd, model = run_all(cases)
        t2 = time.time()
        judge_cases(ck, cases, comp, execd, model)
        t3 = time.time()
        engine_stream(ck, cases)
        beta_stream(ck, cases)
        walk_stream(ck, cases, comp)
        for k, dt in zip(secs, (t1 - t0, t2 - t1, t3 - t2, time.time() - t3)):
            secs[k] = round(secs[k] + dt, 1)
        n_bases += sum(1 for c in cases if c.program.__class__ is P.Program and not c.base_text.count("append (") and "lk_1" not in c.base_text)
        n_rewritten += sum(len(c.variants) for c in cases)
    ck.coverage["seconds"] = secs
    ck.coverage["sites_by_kind"] = site_hist
    ck.coverage["base_programs"] = n_bases
    ck.coverage["rewritten_programs"] = n_rewritten

    if os.environ.get("VERIF_DEBUG"):
        import collections
        cnt, ex = collections.Counter(), {}
        for what, rep, _ in ck.violations:
            k = (rep.get("label", "?").split("@")[0], rep.get("why", what)[:90])
            cnt[k] += 1
            ex.setdefault(k, rep)
        for k, v in cnt.most_common():
            print(v, k)
            r = ex[k]
            print("   BASE:", r.get("base", "").replace("\n", " | ")[:500])
            print("   RW  :", r.get("rewritten", "").replace("\n", " | ")[:700])
            for side in ("base_side", "rewritten_side"):
                sd = r.get(side) or {}
                print("   %s verdict=%s sql=%s rows=%s model=%s err=%s" % (side, sd.get("verdict"), (sd.get("sql") or "")[:400], sd.get("sqlite_rows"), sd.get("model_rows"), str(sd.get("sqlite") or sd.get("compile") or "")[:300]))
    ck.proof_broken_violation(found_input=bool(ck.violations))
    ck.assumptions += [
        "base programs: vplib/rel/prog.py generator (1..6 transforms + final select) over tables t(id,a,b,c,g), u(id,a,d,g); instances: integers and NULL in {NULL,-1,0,1,2,3}, 0..6 rows, ids unique, insertion order shuffled",
        "generic-dialect SQL is executed on SQLite",
        "SQLite engine defect worked around (skipped and counted as oracle-sqlite-right-join-pushdown): an outer WHERE over a UNION ALL sub-query whose operands are RIGHT JOINs lets null-extended rows through (reproduced on SQLite 3.40.1 and the bundled 3.49)",
        "a pair where BOTH sides fail to compile/execute has no result to compare and is counted (both-fail), not judged: the base's failure is C01's / C07's subject",
        "let/into rewrites are applied only where the continuation has no qualified reference to the renamed relation (t.x / u.x) and the named frame has no duplicate column names; `select` of the full frame only on frames of distinct unqualified names",
        "function-call sites: expression slots of filter / derive / select / sort and the `name = fn expr` items of aggregate / group-aggregate / window / group-window steps in the main pipeline (the generated function's body may be the aggregate or window call itself: `x -> sum x`, `x n -> lag n x`); join conditions are not abstracted",
    ]
    ck.finish(TRUSTED, "streams by rewrite kind: let (let + into, every prefix length), func (every expression slot x call variants pos/named-omit/named-pass/piped/piped-named/module/module2), trfunc (every run of 1..3 transforms as a transform function), filter (split of every conjunctive filter, merge of every adjacent pair), identity (derive {} / filter true / take 1.. / select of the full frame at every position, sort directly before every sort), module (declarations produced by let / function rewrites moved into one module, two nested modules, or one module with a different same-named decoy left at top level), compose (random chains of 2 and 3 rewrites), tworef (append / self-join / aliased direct self-join of one let-table referenced twice, also behind a module path), module-siblings (two let-tables, or a generated function calling a second generated function `func-nested`, moved into one module together) and pointfree (directed), directed families for every recorded open finding (directed_known: F69 / F66 / F72 / F71 shapes; directed_shared: the hand-built programs of the shared relational findings and generator-made F19 / F37 shapes, each rewritten at every let / identity / function site), and a directed family `.. | sort | take/window/group-take | filter/derive/..` (the order must cross whatever boundary a rewrite puts after the sort). Each pair on 1..3 instances x {sqlite, generic}; engine = abstract rewrites re-judged by the reference semantics inside Coq; beta = `beta F C` of Model/Subst.v computed inside Coq equals the expression the generated call replaced. distinct = hash of (base, rewritten, target, instance); non-trivial = non-empty base result or differing outcome kinds")

"""C12: input streams for the panic / abort / hang probes.  Every generator returns a list of
(family, src) pairs; c12.py decides entries, dialects and stacks."""
import copy
import json
import re

from ..programs import POOL

EXTRA_PROGRAMS = [
    "from t | take 9223372036854775807.. | take 2..",
    "from t | select {a} | append (from u | select {a, b})",
    "from t | sort id | select {a, b} | take 2 | group {a} (aggregate {n = count b})",
    "from é\nselect {a +}",
    "from t | group {a} (sort b | take 2..3) | derive {r = rank b}",
    "from t | derive {x = 1 | as int} | window expanding:true (derive {s = sum x})",
    "let f = func x y:2 -> x + y\nfrom t | derive {z = f a y:3}",
    "from t | select {a, b} | union (from u | select {a, b}) | distinct",
    "prql target:sql.postgres\nfrom t | derive {d = (date.to_text \"%Y-%m-%d\" d0)}",
    "from t | filter (a | in [1, 2, 3]) | derive {x = [a, b]}",
    "from t | derive {r = 1..10} | filter (a | in r)",
    "module m { let x = (from t | take 3) }\nfrom m.x | select {a}",
    "from t | join side:full u (t.a == u.a && t.b == u.b) | select {t.a, ub = u.b}",
    "from t | derive {i = 3days, j = @2020-01-01 + 3days}",
    "from t | select {x = s\"{a} || {b}\", y = f\"{a}{b}\"}",
    "from t | select {t.*} | select !{a}",
    "let t2 = s\"SELECT 1 AS a\"\nfrom t2 | filter a > 0",
    "from t | aggregate {x = min a} | aggregate {n = count x}",
    "from t | window rows:-2..2 (sort a | derive {m = max b})",
    "from t | derive {x = a ** 2 // 3 % 4 ?? 5}",
    "from t | as {z = 1}",
    "from t | *",
    "from t | join side:{z = 1} u (==a)",
    # replays of panics fixed since b55902d (they stay in the pool: a recurrence is a VIOLATION with that input)
    # 7911778 lookup_cid `cannot find cid by id=.. and name=..` (C16-F3's program and variants)
    "let tab = (from t | select {a} | join u (==a))\nfrom tab | filter id > 1",
    "let tab = (from t | select {a} | append u)\nfrom tab | select {b}",
    "let dup = rel -> (rel | append rel)\nfrom t | derive {x = a + 1} | dup",
    # 287b286 relation literal: column without a name / cell that is not a literal
    "from [{1, 2}]",
    "from [{a = 1, 2}] | select {a}",
    "from [{a = 1}, {a = b}]",
    "from [{a = 1}, {a = 1 + 1}]",
    "from [{a = 1, b = {c = 2}}]",
    # e6f83f8 relation literal: a row that is not a tuple
    "from [{a = 1}, 2]",
    "from [{a = 1}, [2], \"x\"]",
    # 8204886 from_text with a header and zero rows, then a transform that needs the relation type
    "from_text format:csv \"a,b\" | derive {c = a + 1}",
    "from_text format:csv \"a,b\\n\" | join u (==a)",
    "from_text format:json '{\"columns\": [\"a\"], \"data\": []}' | window rows:-1..1 (derive {s = sum a})",
    "from_text format:csv \"\" | derive {c = 1}",
    "from_text format:json '[]' | derive {c = 1}",
    # 456bdcd F29 and neighbours: a sorted take in front of a split
    "from t | sort {id, -b} | select {a} | take 3 | group {a} (aggregate {n = count this})",
    "from t | sort id | select {a, b} | take 2..4 | aggregate {n = count b}",
    "from t | sort id | derive {c = a + b} | select {c} | take 2 | join u (==c)",
    # 7cb9d46 an error raised inside a std function body (span of std.prql)
    "from t | derive {x = (math.round \"a\" b)} | select {y = (text.length 1 2)}",
    "from t | window rolling:a (derive {s = sum b})",
    # d92afac / 7f02b48 names resolved relative to the enclosing modules (the slices path[..n] of resolve_ident)
    "module a { module b { let x = (from t | take 2)\n let y = (from x | derive {k = 1}) } }\nfrom a.b.y",
    "module a { let k = 5\n module b { module c { let f = z -> z + k\n let r = (from t | derive {w = f 1}) } } }\nfrom a.b.c.r",
    "module a { module b { let r = (from nope.t | select {q = missing}) } }\nfrom a.b.r | join that (==q)",
    # 006e33c a bare `that` where a value is required
    "from t | derive {x = that} | filter that.a > 1",
]

TOKEN_RE = re.compile(r"[A-Za-z_][A-Za-z_0-9]*|\d+(?:\.\d+)?|\s+|==|!=|>=|<=|~=|&&|\|\||\?\?|//|\*\*|->|=>|\.\.|.", re.S)
PUNCT = list("(){}[]|,.:;=+-*/%<>!&?@#$^~`'\"\\") + ["..", "==", "->", "=>", "&&", "||", "??", "//", "**", "\n", "\r\n", "\t", "\x00", "é", "\u2028", "f\"", "s\"", "\"\"\"", "r\"", "@2020", "0x", "1e", "$1"]


def tokens(src):
    return TOKEN_RE.findall(src)


def mutants(rng, src, k):
    out = []
    toks = tokens(src)
    nz = [i for i, t in enumerate(toks) if not t.isspace()]
    if not nz:
        return out
    for _ in range(k):
        t = list(toks)
        op = rng.choice(["del", "dup", "swap", "ins", "ins", "repl"])
        i = rng.choice(nz)
        if op == "del":
            del t[i]
        elif op == "dup":
            t.insert(i, t[i])
        elif op == "swap":
            j = rng.choice(nz)
            t[i], t[j] = t[j], t[i]
        elif op == "ins":
            t.insert(i, rng.choice(PUNCT))
        else:
            t[i] = rng.choice(PUNCT + VOCAB)
        out.append(("mutant:" + op, "".join(t)))
    return out


VOCAB = ["from", "select", "derive", "filter", "take", "sort", "group", "aggregate", "join", "window", "append", "union",
         "loop", "let", "func", "module", "prql", "case", "into", "type", "import", "internal", "enum", "this", "that",
         "null", "true", "false", "std", "db", "t", "u", "a", "b", "x", "sum", "count", "min", "average", "row_number",
         "lag", "rank", "in", "as", "int", "text", "side:left", "rolling:3", "rows:1..2", "range:-1..1", "expanding:true",
         "target:sql.mssql", "1", "0", "-1", "2.5", "1..3", "..", "3..", "..4", "1e10", "0x1F", "0b101", "0o17", "1_000",
         "\"s\"", "'s'", "f\"{a}\"", "s\"{a}\"", "r\"\\d\"", "\"\"\"x\"\"\"", "@2020-01-01", "@10:00", "@2020-01-01T10:00:00Z",
         "3days", "2years", "5microseconds", "$1", "$p", "`a b`", "`select`", "t.*", "t.a", "a.b.c", "==", "!=", "&&", "||", "??",
         "->", "=>", "~=", "//", "**", "+", "-", "*", "/", "%", "<", ">", "!", "=", "|", ",", ":", ".", "(", ")", "{", "}", "[", "]",
         "\n", "\n", " ", " ", "#c\n", "#! d\n", "\\ \n", "@{a=1}\n", "@a"]


def soups(rng, n, maxlen=25):
    out = []
    for _ in range(n):
        k = rng.randint(1, maxlen)
        sep = rng.choice([" ", " ", "", "\n"])
        s = sep.join(rng.choice(VOCAB) for _ in range(k))
        if rng.random() < 0.5:
            s = "from t | " + s
        out.append(("soup", s))
    return out


# families of structurally deep / long inputs; d = depth or repetition count
NEST = {
    "paren": lambda d: "from t | derive x = " + "(" * d + "1" + ")" * d,
    "negparen": lambda d: "from t | derive x = " + "-(" * d + "1" + ")" * d,
    "notparen": lambda d: "from t | filter " + "!(" * d + "a" + ")" * d,
    "binop-left": lambda d: "from t | derive x = " + "1 + " * d + "1",
    "binop-right": lambda d: "from t | derive x = " + "2 ** " * d + "1",
    "coalesce": lambda d: "from t | derive x = " + "a ?? " * d + "1",
    "and-chain": lambda d: "from t | filter " + "a > 1 && " * d + "true",
    "call": lambda d: "from t | derive x = " + "(f " * d + "1" + ")" * d,
    "pipe-in-paren": lambda d: "from t | derive x = " + "(a | " * d + "b" + ")" * d,
    "transforms": lambda d: "from t" + " | derive x = 1" * d,
    "filters": lambda d: "from t" + "\nfilter a > 1" * d,
    "lets": lambda d: "".join("let v%d = %s\n" % (i, "v%d + 1" % (i - 1) if i else "1") for i in range(d)) + "from t | derive x = v%d" % (d - 1),
    "func-curry": lambda d: "let f = " + "func x -> " * d + "x\nfrom t",
    "case": lambda d: "from t | derive x = " + "case [true => " * d + "1" + "]" * d,
    "fstring-holes": lambda d: "from t | derive x = f\"" + "{a}" * d + "\"",
    "tuple": lambda d: "from t | select " + "{" * d + "a" + "}" * d,
    "array": lambda d: "from t | derive x = " + "[" * d + "1" + "]" * d,
    "module": lambda d: "module m { " * d + "let x = 1" + " }" * d + "\nfrom t",
    "group": lambda d: "from t | " + "group {a} (" * d + "take 1" + ")" * d,
    "loop": lambda d: "from t | " + "loop (" * d + "filter a > 1" + ")" * d,
    "ident-path": lambda d: "from t | select " + "a." * d + "b",
    "annotations": lambda d: "@{a=1}\n" * d + "let x = 1\nfrom t",
    "joins": lambda d: "from t" + " | join t (==a)" * d,
    "appends": lambda d: "from t" + " | append t" * d,
    "tuple-wide": lambda d: "from t | select {" + ", ".join("c%d = a + %d" % (i, i) for i in range(d)) + "}",
    "sort-wide": lambda d: "from t | sort {" + ", ".join("-c%d" % i for i in range(d)) + "}",
    "array-wide": lambda d: "from t | filter (a | in [" + ", ".join(str(i) for i in range(d)) + "])",
    "table-literal": lambda d: "from [" + ", ".join("{a = %d}" % i for i in range(d)) + "]",
    "open-paren": lambda d: "from t | derive x = " + "(" * d,
    "open-brace": lambda d: "from t | select " + "{" * d,
    "open-bracket": lambda d: "from t | derive x = " + "[" * d,
    "close-paren": lambda d: "from t | derive x = 1" + ")" * d,
    "backslash-wrap": lambda d: "from t" + "\n\\ | derive x = 1" * d,
    "comments": lambda d: "# c\n" * d + "from t",
    "newlines": lambda d: "\n" * d + "from t" + "\n" * d,
    "quotes-open": lambda d: "from t | derive x = " + "\"" * (2 * d + 1) + "a",
    "dots": lambda d: "from t | derive x = 1" + "." * d,
    "at": lambda d: "@" * d + "2020-01-01",
}


def long_tokens(n):
    return [
        ("long:ident", "from t | select " + "a" * n),
        ("long:ident-unicode", "from t | select " + "é" * n),
        ("long:string", "from t | derive x = \"" + "a" * n + "\""),
        ("long:string-escapes", "from t | derive x = \"" + "\\n" * n + "\""),
        ("long:fstring", "from t | derive x = f\"" + "a" * n + "{b}\""),
        ("long:number", "from t | derive x = " + "9" * n),
        ("long:float", "from t | derive x = 1." + "9" * n),
        ("long:float-exp", "from t | derive x = 1e" + "9" * min(n, 400)),
        ("long:underscore-number", "from t | derive x = 1" + "_0" * n),
        ("long:hex", "from t | derive x = 0x" + "F" * n),
        ("long:comment", "# " + "c" * n + "\nfrom t"),
        ("long:backtick", "from `" + "a" * n + "`"),
        ("long:param", "from t | filter a == $" + "p" * n),
        ("long:whitespace", "from t |" + " " * n + "select a"),
        ("long:raw", "from t | derive x = r\"" + "\\" * n + "\""),
    ]


def byte_strings(rng, n):
    out = []
    alphabet = [bytes([i]) for i in range(256)]
    frags = [b"from t", b" | ", b"select {a}", b"\xc3\xa9", b"\xe2\x82\xac", b"\xf0\x9f\x98\x80", b"\xef\xbb\xbf", b"\x00", b"\xff\xfe", b"\xed\xa0\x80",
             b"\xc0\xaf", b"\"", b"'", b"f\"{", b"}\"", b"\r", b"\n", b"\xe2\x80\xa8", b"\xe2\x80\xae", b"\x1b[0m", b"\x7f", b"\xc2\x85", b"\\", b"`"]
    for _ in range(n):
        k = rng.randint(1, 40)
        if rng.random() < 0.5:
            b = b"".join(rng.choice(alphabet) for _ in range(k))
        else:
            b = b"".join(rng.choice(frags + alphabet[:4]) for _ in range(k))
        out.append(("bytes", b.decode("utf-8", "replace")))
    return out


I64MAX = 9223372036854775807
NUMS = ["0", "1", "2", "-1", str(I64MAX), str(I64MAX - 1), str(I64MAX + 1), str(-I64MAX), str(-I64MAX - 1), str(-I64MAX - 2),
        "4611686018427387904", "18446744073709551615", "18446744073709551616", "99999999999999999999999999",
        "1e308", "1e309", "1e400", "-1e400", "1e-400", "0.0", "-0.0", "1.7976931348623157e308", "4.9e-324", "0x7FFFFFFFFFFFFFFF",
        "0xFFFFFFFFFFFFFFFF", "0x10000000000000000", "0b" + "1" * 64, "0o7777777777777777777777", "1_000_000_000_000_000_000_000"]


def extreme_numbers(rng, n):
    out = []
    tmpl = [
        "from t | take {a}", "from t | take {a}..{b}", "from t | take {a}.. | take {b}..", "from t | take ..{a} | take {b}..",
        "from t | take {a}..{b} | take {c}..{a}", "from t | derive x = {a} + {b}", "from t | derive x = {a} * {b} - {c}",
        "from t | derive x = -{a}", "from t | derive x = -(-{a})", "from t | derive x = {a} // {b}", "from t | derive x = {a} % {b}", "from t | derive x = {a} ** {b}",
        "from t | filter (a | in {a}..{b})", "from t | window rolling:{a} (derive x = sum a)", "from t | window rows:{a}..{b} (derive x = sum a)",
        "from t | window range:{a}..{b} (sort a | derive x = sum a)", "from t | derive x = lag {a} a", "from t | derive x = lead {a} a",
        "from t | group g (take {a}..{b})", "from t | group g (sort a | take {a})", "from t | sort a | take {a}..{b} | take {b}..{c} | take {c}..",
        "from t | derive x = {a}days", "from t | derive x = {a}years + {b}microseconds", "from t | derive x = @{y}-{m}-{d}",
        "from t | derive x = @{y}-01-01T{h}:00:00", "from t | derive x = (math.round {a} b)", "from t | derive x = (math.pow {a} {b})",
        "from t | derive x = {a} | as int", "from [{{a = {a}}}] | select b = a + {b}", "from t | select x = {a}..{b}",
        "from t | derive x = ({a} == {b})", "from t | derive x = {a} > {b} && {b} < {c}", "from t | loop (filter a < {a} | select a = a + {b})",
        "from t | take 1..{a} | filter b > {b} | take {c}..", "from t | derive x = 1 / {a}", "from t | derive x = {a} / 0", "from t | derive x = {a} // 0",
    ]
    for _ in range(n):
        t = rng.choice(tmpl)
        vals = {k: rng.choice(NUMS) for k in "abc"}
        vals.update(y=rng.choice(["0000", "9999", "2020", "99999", "-001", "10000"]), m=rng.choice(["00", "01", "12", "13", "99"]),
                    d=rng.choice(["00", "01", "31", "32", "99"]), h=rng.choice(["00", "23", "24", "99"]))
        out.append(("numbers", t.format(**vals)))
    return out


def mismatched_sets(rng, n):
    cols = ["a", "b", "c", "d"]
    tys = ["1", "\"x\"", "1.5", "true", "null", "@2020-01-01", "[1]", "{k = 1}", "1..2", "3days"]
    ops = ["append", "union", "remove", "intersect"]
    out = []
    for _ in range(n):
        l = rng.sample(cols, rng.randint(1, 3))
        r = rng.sample(cols, rng.randint(1, 4))
        form = rng.random()
        if form < 0.4:
            s = "from t | select {%s} | %s (from u | select {%s})" % (", ".join(l), rng.choice(ops), ", ".join(r))
        elif form < 0.7:
            s = "from t | select {%s} | %s (from u | select {%s})" % (", ".join("%s = %s" % (c, rng.choice(tys)) for c in l), rng.choice(ops),
                                                                      ", ".join("%s = %s" % (c, rng.choice(tys)) for c in r))
        elif form < 0.85:
            s = "from [{%s}] | %s [{%s}]" % (", ".join("%s = %s" % (c, rng.choice(tys[:6])) for c in l), rng.choice(ops[:2]),
                                            ", ".join("%s = %s" % (c, rng.choice(tys[:6])) for c in r))
        else:
            s = "from t | select {%s} | %s u | select {%s}" % (", ".join(l), rng.choice(ops), ", ".join(r))
        out.append(("sets", s))
    return out


# ----------------------------------------------------------------------------- JSON mutants
HUGE = [18446744073709551615, 18446744073709551614, 9223372036854775807, -9223372036854775808, 4294967295, 65536, 0, -1, 1 << 70]


def _paths(v, p=()):
    yield p, v
    if isinstance(v, dict):
        for k in v:
            yield from _paths(v[k], p + (k,))
    elif isinstance(v, list):
        for i, x in enumerate(v):
            yield from _paths(x, p + (i,))


def _get(v, p):
    for k in p:
        v = v[k]
    return v


def _set(v, p, x):
    for k in p[:-1]:
        v = v[k]
    v[p[-1]] = x


def _del(v, p):
    for k in p[:-1]:
        v = v[k]
    del v[p[-1]]


def json_mutants(rng, doc, k):
    """single mutations of a JSON document: ids/ints to huge values, delete a field, swap an enum tag,
    replace a subtree by another subtree of the same document, change a type"""
    out = []
    paths = list(_paths(doc))
    ints = [p for p, v in paths if isinstance(v, int) and not isinstance(v, bool) and p]
    keys = [p for p, v in paths if p and isinstance(p[-1], str)]
    tags = [p for p, v in paths if isinstance(v, dict) and len(v) == 1]
    strs = [p for p, v in paths if isinstance(v, str) and p]
    subs = [p for p, v in paths if isinstance(v, (dict, list)) and p]
    for _ in range(k):
        d = copy.deepcopy(doc)
        op = rng.choice(["int", "int", "int", "del", "del", "tag", "graft", "type", "str", "dupkey"])
        try:
            if op == "int" and ints:
                p = rng.choice(ints)
                _set(d, p, rng.choice(HUGE + [_get(d, p) + 1, _get(d, p) - 1, _get(d, p) + 1000]))
            elif op == "del" and keys:
                _del(d, rng.choice(keys))
            elif op == "tag" and tags:
                p = rng.choice(tags)
                q = rng.choice(tags)
                v = _get(d, p)
                (old,) = v.keys()
                (new,) = _get(doc, q).keys()
                v[new] = v.pop(old)
            elif op == "graft" and len(subs) > 1:
                p, q = rng.choice(subs), rng.choice(subs)
                _set(d, p, copy.deepcopy(_get(doc, q)))
            elif op == "type" and paths:
                p = rng.choice([p for p, v in paths if p])
                _set(d, p, rng.choice([None, True, 0, -1, "", "x", [], {}, [[]], {"a": None}, 1.5, 1e308]))
            elif op == "str" and strs:
                p = rng.choice(strs)
                _set(d, p, rng.choice(["", "std.nope", "0:99999999-99999999999", "1:5-2", "65535:0-0", "a.b.c", "this", "\x00", "é" * 40, "sql.nope", "_literal"]))
            elif op == "dupkey" and ints:
                p, q = rng.choice(ints), rng.choice(ints)
                _set(d, p, _get(doc, q))
            else:
                continue
        except (KeyError, IndexError, TypeError):
            continue
        fam = "json:" + op
        if op in ("int", "dupkey"):
            fam = "json:int:" + ("lit" if "Literal" in p else "id")
        out.append((fam, json.dumps(d)))
    return out


def json_raw(rng):
    deep = 200
    return [
        ("json:raw", ""), ("json:raw", "null"), ("json:raw", "[]"), ("json:raw", "{}"), ("json:raw", "0"), ("json:raw", "\"x\""),
        ("json:raw", "[" * deep + "]" * deep), ("json:raw", "{\"a\":" * deep + "1" + "}" * deep), ("json:raw", "[" * 100000),
        ("json:raw", "{\"name\":\"Project\",\"stmts\":[]}"), ("json:raw", "{\"name\":\"Project\",\"stmts\":null}"),
        ("json:raw", "{\"def\":{\"version\":null,\"other\":{}},\"tables\":[],\"relation\":{\"kind\":{\"Pipeline\":[]},\"columns\":[]}}"),
        ("json:raw", "{\"def\":{\"version\":\"9.9.9\",\"other\":{\"target\":\"sql.nope\"}},\"tables\":[],\"relation\":{\"kind\":{\"Pipeline\":[]},\"columns\":[]}}"),
        ("json:raw", "\ufeff{}"), ("json:raw", "{\"a\":1e999}"), ("json:raw", "1" * 5000),
        # the replay of C12-N4: a PL with an empty pipeline (the next one, an empty Ident path, is a JSON error since 8eee066)
        ("json:raw", "{\"name\":\"Project\",\"stmts\":[{\"VarDef\":{\"kind\":\"Main\",\"name\":\"main\",\"value\":{\"Pipeline\":{\"exprs\":[]},\"span\":\"1:0-1\"}},\"span\":\"1:0-1\"}]}"),
        ("json:raw", "{\"name\":\"Project\",\"stmts\":[{\"VarDef\":{\"kind\":\"Main\",\"name\":\"main\",\"value\":{\"Ident\":[],\"span\":\"1:0-1\"}},\"span\":\"1:0-1\"}]}"),
    ]


def all_programs():
    return list(POOL) + EXTRA_PROGRAMS

"""C04 -- window functions see exactly the documented segment and keep row count."""
import json
import re

from ..common import Check, coq_eval, harness
from ..rel import prog as P, run as R, e2e as E, wingen as W
from . import c04_streams as S


def run():
    ck = Check("C04", level="proof")
    S.run_all(ck)

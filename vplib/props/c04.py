"""C04 -- window functions see exactly the documented segment and keep row count."""
from ..common import Check
from ..translate import gen_split, gen_window
from . import c04_corr as C
from . import c04_e2e as S
from . import c04_hooks as H

TRUSTED = [
    "Coq 8.16.1 kernel (coqc, vm_compute); no axioms (every theorem: Closed under the global context)",
    "translator vplib/translate/gen_window.py (std.sql.prql and std.prql through prqlc's own parser; scanners over the `window` arm of semantic/resolver/transforms.rs incl. its empty-range rejection loop, translate_windowed / try_into_window_frame of sql/gen_expr.rs, Complexity / infer_complexity / can_materialize / get_requirements of sql/pq/anchor.rs, reorder of sql/pq/preprocess.rs; the save / overwrite / write-back of the partition and window fields in flatten.rs (every use of the two fields is accounted for) and shape checks of lowering.rs; fail closed) and vplib/translate/gen_split.py (is_split_required)",
    "SPECIFICATION of SQL window frames in coq/Model/Frame.v (sql_frame_segment: ROWS by position, RANGE by peers / key distance, the implicit frame of an OVER without frame clause; sframe_ok) and of where SQL admits a window function (Model/WindowFns.v sql_admits_window) -- hand-written, validated against SQLite by the end-to-end streams",
    "reference semantics coq/Model/Rel.v + Model/Value.v (C01) and its extension Model/Window.v (rank_dense, window columns over all 12 functions) = formalisation of the documented meaning (book: reference/stdlib/transforms/window.md)",
    "hook `verif:lowerer_op` of /repo (120eb8c + hooks/lowerer-window.diff: window_set / window_take / window_reset, needs_window of every new Compute): the order of the log lines is the order of the operations",
    "hook `verif:split_off_back` of /repo (3aa4f6d): the pipeline and output columns it prints are what the call read, `remaining_len` where it stopped; translated to Model/WinAtomic.v items by c04_hooks.sob_item (kinds, column ids of expressions, infer_complexity re-derived from the printed expression)",
    "hook `verif:preprocess` of /repo (cfg prqlc_verif, commit 8fb8a9c): what it prints of reorder's input and output pipelines (kind of every transform, infer_complexity of every Compute) is taken for what the function read and returned",
    "end-to-end oracle: window program builder vplib/rel/wingen.py (+ vplib/rel/prog.py), harness (prqlc::compile, prqlc::pl_to_rq, rusqlite bundled SQLite), comparison in vplib/rel/run.py",
    "modelled, not verified: Model/Frame.v frame_of / emit_frame restate transforms.rs / gen_expr.rs (tied by the Gen obligations c04_gen_* and by the exhaustive correspondence stream); scope_run restates the partition / frame bookkeeping of flatten.rs (tied by c04_gen_scope_policy and by the scope-corr stream over nested group / window / join programs); the rest of the resolver, the sort propagation of flatten.rs, lowering.rs (Compute.window), the split/complexity search of anchor.rs and projection/expression generation are tied only by the RQ/OVER correspondence and the end-to-end oracle",
]


def supports_from(info):
    if "error" in info:
        return None
    tbl = {}
    for f in info["fns"]:
        if f["module"] == "":
            tbl.setdefault(f["name"], f["window_frame"])
    for f in info["fns"]:
        if f["module"] == "sqlite":
            tbl[f["name"]] = f["window_frame"]
    return tbl


def run():
    ck = Check("C04", level="proof")
    info = gen_window.generate()
    info_split = gen_split.generate()
    pr = ck.prove()
    for nm, i in (("gen_window", info), ("gen_split", info_split)):
        if "error" in i:
            ck.coverage["translator_error_" + nm] = i["error"]
    broken = not pr["ok"]
    mult = 3 if broken else 1
    targets = ("sql.sqlite", "sql.generic")

    # Tie B: frame_of vs RQ Compute.window; emit_frame vs the OVER (...) text -- exhaustive
    srcs = []                  # every program any stream compiles: replayed through the back-end hooks below
    corr_srcs = C.run(ck, supports_from(info), full=broken)
    # Tie B': scope_run (flatten.rs partition / frame bookkeeping) vs RQ Compute.window of nested programs
    srcs += C.run_scope(ck)

    # end-to-end: SQLite vs the reference semantics
    def stream(name, cases):
        srcs.extend(pg.prql() for pg, _ in cases)
        S.run_stream(ck, name, cases, targets)
    stream("frames", S.with_instances(ck, S.directed_cases(ck), n_inst=mult))
    stream("first-last", S.with_instances(ck, S.f22_cases(ck), n_inst=1))
    stream("placement", S.with_instances(ck, S.placement_cases(ck), n_inst=mult))
    stream("empty-range", S.with_instances(ck, S.empty_range_cases(ck), n_inst=1))
    stream("range-x", S.with_instances(ck, S.range_x_cases(ck), n_inst=mult))
    stream("sort-key", S.with_instances(ck, S.sortdirect_cases(ck), n_inst=1))
    stream("random", S.random_cases(ck, ck.n(800, 8000) * mult))

    # Tie C: the back end's own functions, observed through the verif hooks on every compile above
    # thorough (and search mode, when the proof step is broken): every compile of every stream; quick: the directed programs,
    # a third of the end-to-end programs (every sixth for the second target) and a tenth of the
    # correspondence programs, whose pipelines differ in frame arguments only -- drawn with the run's seed
    allsrc = list(dict.fromkeys(srcs))
    corr_only = [s for s in dict.fromkeys(corr_srcs) if s not in set(allsrc)]
    if ck.thorough or broken:
        pairs = [(s, t) for s in allsrc for t in targets] + [(s, targets[0]) for s in corr_only]
    else:
        ck.rng.shuffle(allsrc)
        ck.rng.shuffle(corr_only)
        pairs = [(s, targets[0]) for s in allsrc[:len(allsrc) // 3]] + [(s, targets[1]) for s in allsrc[:len(allsrc) // 6]] \
            + [(s, targets[0]) for s in corr_only[:len(corr_only) // 10]]
    pairs = [(s, t) for s in H.REORDER_DIRECTED for t in targets] + pairs
    ck.coverage["hook_streams_sampling"] = {"programs": len(allsrc), "correspondence_programs": len(corr_only), "logged_compiles": len(pairs), "all": bool(ck.thorough or broken)}
    ev, n_comp, n_ok = H.collect_all(pairs)
    H.run_reorder(ck, None, events=(ev["verif:preprocess "], n_comp, n_ok))
    H.run_split(ck, None, events=(ev["verif:split_off_back "], n_comp, n_ok))
    H.run_lowerer(ck, (ev["verif:lowerer_op "], n_comp, n_ok))

    ck.proof_broken_violation(found_input=bool(ck.violations))
    ck.assumptions += [
        "instances: 4..7 rows; id unique non-null with gaps, insertion order shuffled; a, b in {NULL,-1,0,1,2,3,5} with duplicates; c non-null with duplicates and gaps; g in {NULL,1,2}",
        "determinism domain: either the sort keys end in the unique key id, or (ties / no sort) the function arguments only mention partition and sort key columns and the result is projected to those columns + the window columns and compared as a multiset",
        "range frames only over one ascending non-null integer sort key (the domain of Rel.v's FRange and of range_key_ok); descending or multi-key range frames and range frames without sort are outside the model",
        "rows/range arguments with start > end are rejected by the compiler (7b31f75; modelled in Frame.v frame_of = WEmptyRange, tied by the correspondence stream and by the empty-range end-to-end stream, which expects exactly that error); the spelling 0..-1 of the std.prql default is still accepted as \"argument not given\" (whole partition) where the book's inclusive bounds give the empty segment: the book is the reference, recorded as F54",
        "the model's integers are unbounded (Z); c04_frame_arithmetic_in_range + c04_gen_bound_distance_total show that on i64 arguments neither `-rolling + 1` nor the PRECEDING distance leaves its machine type; i64::MIN cannot be written as a window bound in PRQL source (C12 covers hand-made RQ)",
        "nested group / window bodies: only the partition and frame handed to each column (RQ Compute.window, OVER text) are compared (scope-corr); their execution is covered through the non-nested frames / placement streams; a group at the head of a group body is rejected by the compiler (F55)",
        "results are compared as multisets (sequence order is C03's clause; order sensitivity enters through take after a sort by a windowed value); column names are C05's clause",
        "sql.generic output is executed on SQLite",
    ]
    ck.finish(TRUSTED, "frame-corr (thorough tier: exhaustive; quick tier: every argument set for SUM / LAST_VALUE / RANK, every fourth -- rotating with the seed -- for the other nine functions): 12 functions x sorted/unsorted x grouped/ungrouped x {rows,range} x bounds {open,-2..2}^2 (incl. empty ranges: model WEmptyRange vs the compile error of both entry points) + rolling -1..3 + expanding + argument combinations (which argument wins, rejection before expanding/rolling, the spelling 0..-1, i64 edges), model (kind,start,end) vs RQ Compute.window and model clause text vs OVER (...) text; the same over a relation literal without rows, executed. "
              "scope-corr = 13 directed + random nestings (depth <= 4) of group / window / join-argument bodies: model scope_run (partition, frame per column) vs RQ Compute.window and vs the OVER text. "
              "hook streams: thorough tier = every compile of every stream; quick tier = 25 directed programs + a seeded sample (a third of the end-to-end programs, a twentieth of the correspondence programs), one logged compile each feeding all three. reorder-corr = every call of preprocess.rs reorder during those compiles (hook verif:preprocess): Model/WinReorder.v reorder on the (kind, complexity) abstraction of the input vs the output the implementation returned, item by item. "
              "split-corr = every call of anchor.rs split_off_back during the same compiles (hook verif:split_off_back): the number of transforms Model/WinAtomic.v walk keeps in the SELECT vs where the implementation stopped; a difference is a violation when a windowed column definition lies at or between the two stopping points, counted otherwise. "
              "lower-corr = per compile, the trace of the Lowerer's window field and of every new Compute (hook verif:lowerer_op) replayed by Model/WinLower.v lreplay; a column that needs a window and is handed none is judged against the specification (F51 when it is a sort key / partition column of its transform call). "
              "End-to-end streams (each case = program x instance x target): frames = partition {none,g} x 9 sort modes x every frame x 3 of the 12 functions per program (quick: every frame under the modes id and c, a sample elsewhere; thorough: all, 4 function triples); first-last = first/last under every frame class; "
              "placement = derive/select/filter/sort-by-value x context before (filter/take/group-aggregate = an earlier SELECT) and after (filter/take/aggregate/group-aggregate/derive/second window); empty-range = rows/range arguments with start > end (expected: the modelled compile error; 0..-1: F54); sort-key = a window function written directly as sort key; random = prog.Gen pipelines with window steps over all functions/frames. "
              "distinct = hash of (program, target, instance); non-trivial = non-empty result or a failure")

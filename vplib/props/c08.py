"""C08 -- literal values reach the database unchanged and cannot alter the statement."""
import itertools
import json
from fractions import Fraction

from ..common import Check, Lock, coq_eval, coq_codes, coq_make, harness, harness1
from . import c08_gen, c08_spell as sp

TRUSTED = [
    "Coq 8.16.1 kernel (coqc, vm_compute); no axioms: every theorem is 'Closed under the global context'",
    "translator vplib/props/c08_gen.py (escape table, based-number rows, shapes of multi_quoted_string / number / translate_literal, per-dialect string_literal_backslash_escape, documented escape table from the book; fail closed)",
    "Model/Escape.v is a hand model of sqlparser 0.60 EscapeQuotedString (dependency code), validated exhaustively on short strings against the real Display (harness `escape`)",
    "Model/SqlLex.v models the reading side (standard '' doubling; backslash family per sqlparser's supports_string_literal_backslash_escape) from documentation; validated against SQLite itself (end-to-end) and sqlparser's per-dialect tokenizers; the ten non-executable engines' real lexers are NOT exercised",
    "which dialect READS backslash escapes (Gen table reader_backslash_escape) is what the pinned sqlparser's dialect objects say (harness c08_dialects), standing in for the engines' documentation; which dialect WRITES doubled backslashes is read from sql/dialect.rs",
    "Model/Literal.v is a hand model of the PRQL literal lexers, validated against prqlc::prql_to_tokens and an independent python decoder written from the language reference",
    "floats: Model/FloatRyu.v (decimal -> nearest binary64, proved a correct rounding; shortest digits, proved to lie in the rounding interval, minimality NOT proved) and Model/FloatFmt.v ({:?} layout) are hand models of Rust's str::parse::<f64> and core::fmt float printing (dependency code), validated on every float spelling of the run against prqlc's text and the lexer's bit patterns; SQLite's own decimal->double conversion is not modelled (4-ulp tolerance outside its exact zone)",
    "Model/SqlLexBq.v models sqlparser's BigQuery tokenizer (dq = true, validated token by token) and BigQuery's documented string syntax (dq = false, documentation only)",
    "Model/Interval.v: sqlparser's Display of ast::Interval and of DateTimeField (upper-cased variant names) is dependency behaviour, validated through the hook on every interval call",
    "harness (prqlc::compile, rusqlite bundled SQLite) and python comparison code",
]

ALPHA = ["'", '"', "\\", "a", "\n", "-", "*", "/", ";", "é", "\U0001F600"]
ALPHA_X = ALPHA + [" ", "{", "}", "%", "_", "n", "\t", "0", "O", "R", "=", "1", "\r", "\r\n"]
STD = ["ansi", "duckdb", "generic", "glaredb", "mssql", "postgres", "sqlite"]      # model std_sql
BSF = ["clickhouse", "snowflake", "redshift"]           # model bs_sql
ALL_DIALECTS = STD + BSF + ["mysql", "bigquery"]
# the configuration the unchanged tree is expected to have (the check reads the real one from the source on every run:
# info["writer_bs"] / info["reader"]; these constants are only the fallback when the translator fails closed)
WRITER_BS_FALLBACK = {d: d in BSF + ["mysql"] for d in ALL_DIALECTS}
READER_FALLBACK = {d: (d in BSF + ["mysql", "bigquery"], d == "mysql") for d in ALL_DIALECTS}

HEADER = ("From Coq Require Import List NArith ZArith.\nFrom PV Require Import Lib.ListX Model.Escape Model.SqlLex Model.SqlLexBq Model.Literal.\n"
          "Import ListNotations.\nLocal Open Scope N_scope.\n"
          "Definition canon (l : list tok) : list (N * str) := match rev l with TUnterminated :: _ => [(6, [])] | _ => filter (fun p => negb (fst p =? 5)) (map tok_view l) end.\n"
          # e0 / e1: what translate_literal emits without / with backslash doubling
          "Definition five (s : str) := let e0 := emit_literal_string false s in let e1 := emit_literal_string true s in\n"
          "  (emit_string s, (e0, e1), canon (sql_lex std_sql e0), (canon (sql_lex bs_sql e1), canon (sql_lex mysql_sql e1)), (canon (sql_lex bs_sql e0), canon (sql_lex mysql_sql e0)), canon (bq_lex true e0)).\n")

KIND = {"String": 1, "Quoted": 2, "DString": 2, "Word": 3, "Number": 4}


def s_of(codes):
    return "".join(chr(c) for c in codes)


def canon_tok(a):
    if "tok_err" in a:
        return [(6, "")]
    out = []
    for t in a.get("ok", []):
        if t["k"] == "Punct":
            continue
        v = t["v"]
        if t["k"] == "DString":
            v = '"' + v
        out.append((KIND[t["k"]], v))
    return out


def canon_model(m):
    return [(k, s_of(v)) for k, v in m]


# ---------------------------------------------------------------- known-finding classes (narrow input predicates)

def f6_value(v):
    """the value contains two adjacent quotes, or backslash-quote: the class of finding F6 (FIXED by e3af91e; no longer
    used to excuse anything -- only to report how many values of the old class were exercised)"""
    return "''" in v or "\\'" in v


def bs_value(v):
    return "\\" in v


def f64(fr):
    try:
        return float(fr)
    except OverflowError:
        return None


def inf_spelling(val):
    return val is not None and abs(val) >= Fraction(2) ** 1024 - Fraction(2) ** 970   # rounds to +-inf in binary64


def run():
    ck = Check("C08", level="proof")
    info = c08_gen.generate()
    pr = ck.prove()
    if not pr["ok"]:
        with Lock("coq"):
            coq_make(["Model/Escape.vo", "Model/SqlLex.vo", "Model/Literal.vo"])
    if "error" in info:
        ck.coverage["translator_error"] = info["error"]
    table = info.get("escape_table") or [(92, 92), (47, 47), (98, 8), (102, 12), (110, 10), (114, 13), (116, 9)]
    rows = info.get("based") or [("0b", 2, 32), ("0x", 16, 12), ("0o", 8, 12)]
    tbl_expr = "[" + "; ".join("(%d, %d)" % kv for kv in table) + "]"
    rows_expr = "[" + "; ".join("(%s, %d, %d%%nat)" % (coq_codes(p).replace("%N", ""), b, n) for p, b, n in rows) + "]"
    iunits = info.get("interval_units") or ["microseconds", "milliseconds", "seconds", "minutes", "hours", "days", "weeks", "months", "years"]
    ifields = info.get("interval_fields") or [(u, u[:-1].upper(), u == "weeks") for u in reversed(iunits)]
    _ist = info.get("interval_styles") or [(d, *{"postgres": ("ValueAndUnitQuoted",) * 2, "glaredb": ("ValueAndUnitQuoted",) * 2, "snowflake": ("ValueAndUnitQuoted",) * 2,
                                                 "redshift": ("ValueAndUnitQuoted", "ValueQuoted")}.get(d, ("NoQuotes", "NoQuotes")), d not in ("sqlite", "mssql")) for d in ALL_DIALECTS]
    istyles = {x_[0]: (x_[1], x_[2]) for x_ in _ist}
    isupported = {x_[0]: x_[3] for x_ in _ist}          # has_interval_literal (fix 19e2c2a: false for sqlite, mssql = compile error)
    units_expr = "[" + "; ".join(coq_codes(u) for u in iunits) + "]"
    fields_expr = "[" + "; ".join("(%s, (%s, %s))" % (coq_codes(u), coq_codes(f), "true" if w else "false") for u, f, w in ifields) + "]"
    STY = {"NoQuotes": "INoQuotes", "ValueAndUnitQuoted": "IValueAndUnitQuoted", "ValueQuoted": "IValueQuoted"}
    model_ok = True

    writer_bs = dict(info.get("writer_bs") or WRITER_BS_FALLBACK.items())
    reader = {n: (b, w) for n, b, w in info["reader"]} if info.get("reader") else dict(READER_FALLBACK)
    ck.coverage["backslash_doubling_dialects"] = sorted(d for d, w in writer_bs.items() if w)
    ck.coverage["backslash_reading_dialects"] = sorted(d for d, (b, _) in reader.items() if b)

    def cl_string(case):
        """F6c: bigquery only (reads backslash escapes; a literal that starts with three quotes is a triple-quoted string; gets the
        standard emission), value with a backslash or starting with a quote: exactly the complement of bq_fits true, the class on
        which sqlparser's BigQuery tokenizer (the oracle here) fails.  (Documented BigQuery fails on every quote: bq_fits false.)
        mysql / clickhouse / snowflake / redshift (F6b, FIXED by d2c1667) are excused by nothing any more."""
        v = case.get("value")
        if v is None:
            return None
        vs = case.get("values") or [v]
        if case.get("dialect") == "bigquery" and any(bs_value(x) or x.startswith("'") for x in vs):
            return "F6c-bigquery-string-escapes"
        return None

    # ------------------------------------------------------------ 1. emit_string / sql_lex models vs sqlparser Display and tokenizers
    n_ex = ck.n(3, 4)
    strings = ["".join(t) for n in range(0, n_ex + 1) for t in itertools.product(ALPHA, repeat=n)]
    seen = set(strings)
    for _ in range(ck.n(1500, 20000)):
        k = ck.rng.randrange(n_ex + 1, 9)
        s = "".join(ck.rng.choice(ALPHA_X if ck.rng.random() < 0.5 else ALPHA[:4]) for _ in range(k))
        if s not in seen:
            seen.add(s); strings.append(s)
    impl_esc = harness("escape", [{"s": s, "quote": '"'} for s in strings])                       # sqlparser alone (dependency)
    # what translate_literal does now, recomputed outside prqlc: quotes doubled (e3af91e), on a backslash-doubling dialect
    # backslashes doubled first (d2c1667), then sqlparser's real Display
    emitted = {False: [a["string"] for a in harness("escape", [{"s": s.replace("'", "''"), "quote": '"'} for s in strings])],
               True: [a["string"] for a in harness("escape", [{"s": s.replace("\\", "\\\\").replace("'", "''"), "quote": '"'} for s in strings])]}
    # ... and prqlc itself, for every short string (each has a spelling), for EVERY dialect: the SQL text of the literal
    short = [(i, s) for i, s in enumerate(strings) if len(s) <= n_ex and "\x00" not in s]
    short_src = ["from t | select {v = %s}" % ('"' + sp.esc_for('"', s, ck.rng, 1) + '"') for _, s in short]
    prqlc_text = {}            # (dialect, index of string) -> literal text
    FULL_DEPTH = ("sqlite", "mysql", "bigquery", "snowflake")      # one dialect of each emission / statement shape gets the longest strings too
    for d in ALL_DIALECTS:
        pre, suf = "SELECT ", (' AS "v" FROM "t"' if d == "snowflake" else " AS v FROM t")
        # thorough tier: the length-4 layer (11^4 strings) is compiled for FULL_DEPTH only (the other dialects share their emission
        # with one of those; every dialect still tokenises every string); keeps the tier within its time budget
        pick = [k_ for k_, (i, s) in enumerate(short) if len(s) <= 3 or d in FULL_DEPTH]
        for (i, s), src, a in zip([short[k_] for k_ in pick], [short_src[k_] for k_ in pick],
                                  harness("compile", [{"src": short_src[k_], "target": "sql." + d} for k_ in pick])):
            sql = a.get("ok", "")
            if sql.startswith(pre) and sql.endswith(suf):
                prqlc_text[(d, i)] = sql[len(pre):-len(suf)]
            else:
                ck.violation("string literal %r does not compile to SELECT <literal> AS v FROM t for %s" % (s, d), {"kind": "emit-shape", "value": s, "dialect": d, "src": src, "answer": a})
    # first of all, the semantic question on prqlc's REAL text wherever it is not the expected one (never on the unchanged tree):
    # does the dialect's own tokenizer still read the value back?  (reported before the textual differences)
    odd = [(d, i) for (d, i) in sorted(prqlc_text) if prqlc_text[(d, i)] != emitted[writer_bs[d]][i]]
    for (d, i), a in zip(odd, harness("c08_tok", [{"sql": prqlc_text[k_], "dialect": k_[0]} for k_ in odd])):
        if canon_tok(a) != [(1, strings[i])]:
            ck.disagreement("sqlparser %s tokenizer does not read %r back from the literal prqlc emits, %r" % (d, strings[i], prqlc_text[(d, i)]),
                            {"kind": "tok-roundtrip-real", "value": strings[i], "dialect": d, "text": prqlc_text[(d, i)], "tokens": canon_tok(a)}, cl_string)
    # sqlparser's tokenizer of each dialect reads the text that dialect gets
    tok_by = {}
    for d in ALL_DIALECTS:
        tok_by[d] = [canon_tok(a) for a in harness("c08_tok", [{"sql": e, "dialect": d} for e in emitted[writer_bs[d]]])]
    # the lexer model's decoding of backslash escapes other than a doubled backslash is only exercised by text WITHOUT backslash doubling
    # (bigquery's situation today, every backslash dialect's before d2c1667): keep comparing it with the real tokenizers
    tok_plain = {d: [canon_tok(a) for a in harness("c08_tok", [{"sql": e, "dialect": d} for e in emitted[False]])] for d in ("clickhouse", "mysql", "bigquery")}
    model5 = None
    try:
        B = 100
        vals = coq_eval(HEADER, ["map five [" + "; ".join(coq_codes(s) for s in strings[i:i + B]) + "]" for i in range(0, len(strings), B)])
        model5 = [x for v in vals for x in v]
    except RuntimeError as ex:
        model_ok = False
        ck.coverage["model_eval_error"] = str(ex)[-600:]
    # which lexer model stands for which dialect: by the reading-side flags
    def model_of(d):
        b, w = reader[d]
        if d == "bigquery":
            return "bq"             # Model/SqlLexBq.v bq_lex true: sqlparser's BigQuery tokenizer, triple-quoted strings included
        return "mysql" if (b and w) else ("bs" if b else "std")
    for i, s in enumerate(strings):
        ck.count("escape-model", s, nontrivial=("'" in s or "\\" in s))
        ck.stat("escape-model", "len%d" % min(len(s), 9))
        if f6_value(s):
            ck.stat("escape-model", "old-F6-class")
        if bs_value(s):
            ck.stat("escape-model", "old-F6b-class")
        # implementation side, independent of the Coq model: every dialect's real tokenizer must read exactly the value back
        for d in ALL_DIALECTS:
            text = emitted[writer_bs[d]][i]
            if tok_by[d][i] != [(1, s)]:
                ck.disagreement("sqlparser %s tokenizer does not read %r back from %r" % (d, s, text), {"kind": "tok-roundtrip", "value": s, "dialect": d, "text": text, "tokens": tok_by[d][i]}, cl_string)
            if (d, i) in prqlc_text and prqlc_text[(d, i)] != text:
                ck.violation("prqlc emits %r for the string value %r on %s; %s followed by sqlparser's Display gives %r"
                             % (prqlc_text[(d, i)], s, d, "backslash- and quote-doubling" if writer_bs[d] else "quote-doubling", text),
                             {"kind": "prqlc-vs-predoubled", "value": s, "dialect": d, "prqlc": prqlc_text[(d, i)], "expected": text})
        if model5 is None:
            continue
        m_esc, (m_e0, m_e1), m_std, (m_bs1, m_my1), (m_bs0, m_my0), m_bq0 = model5[i]
        if s_of(m_esc) != impl_esc[i]["string"]:
            ck.violation("model of EscapeQuotedString differs from sqlparser's Display", {"kind": "model-vs-sqlparser", "s": s, "model": s_of(m_esc), "impl": impl_esc[i]["string"]})
        for flag, me in ((False, m_e0), (True, m_e1)):
            if s_of(me) != emitted[flag][i]:
                ck.violation("model emit_literal_string %s differs from pre-doubling + sqlparser's Display" % flag, {"kind": "model-vs-impl", "s": s, "bs": flag, "model": s_of(me), "impl": emitted[flag][i]})
        for d in ALL_DIALECTS:
            me = s_of(m_e1 if writer_bs[d] else m_e0)
            if (d, i) in prqlc_text and prqlc_text[(d, i)] != me:
                ck.violation("model emit_literal_string differs from prqlc's output for %r on %s" % (s, d), {"kind": "model-vs-prqlc", "value": s, "dialect": d, "model": me, "prqlc": prqlc_text[(d, i)]})
        # lexer models vs the real tokenizers, on the text each dialect gets
        by_model = {("std", False): m_std, ("bs", True): m_bs1, ("mysql", True): m_my1, ("bs", False): m_bs0, ("mysql", False): m_my0, ("bq", False): m_bq0}
        for d in ALL_DIALECTS:
            for plain in (False, True):
                if plain and (d not in tok_plain or not writer_bs[d]):
                    continue
                flag = False if plain else writer_bs[d]
                mm = by_model.get((model_of(d), flag))
                if mm is None:          # a standard reader given doubled backslashes: not a configuration of the unchanged tree
                    continue
                ck.count("sqllex-model", d + "|" + str(int(flag)) + "|" + s, nontrivial=("'" in s or "\\" in s))
                mm, ii = canon_model(mm), (tok_plain[d][i] if plain else tok_by[d][i])
                clean = (reader[d][0] == flag) or "\\" not in s
                if clean:
                    differ = mm != ii
                else:
                    # backslash reader, backslashes NOT doubled, value with a backslash: the text after an early end of the
                    # literal is arbitrary SQL where the tokenizers have quirks of their own: compare what matters, the string token
                    differ = bool(mm and ii and mm[0][0] == 1 and ii[0][0] == 1 and mm[0] != ii[0]) or ((mm == [(1, s)]) != (ii == [(1, s)]))
                if differ:
                    ck.violation("SQL lexer model differs from sqlparser's %s tokenizer" % d,
                                 {"kind": "lexmodel-vs-sqlparser", "dialect": d, "s": s, "text": emitted[flag][i], "model": mm, "impl": ii})
        # instances of the theorems: EVERY string round-trips in the model, standard and backslash classes
        for what, mm, flag in (("std_sql", m_std, False), ("bs_sql", m_bs1, True), ("mysql_sql", m_my1, True)):
            if canon_model(mm) != [(1, s)]:
                ck.violation("model: string literal value %r is not read back by %s from %r" % (s, what, emitted[flag][i]), {"kind": "roundtrip", "value": s, "reader": what, "text": emitted[flag][i]})
    ck.coverage["escape_exhaustive_upto"] = n_ex

    # ------------------------------------------------------------ 2. PRQL literal decoding: model vs prql_to_tokens vs python reference
    lits = []          # (spelling, python value or None, kind)
    vals_pool = ["", "a", "'", '"', "\\", "a\\nb", "a\\", "a'b", 'a"b', "a\\b", "''", "\\'", "a''b", "\\' OR 1=1 --", "it's", "é", "\U0001F600", "a\nb", "--", "/*", "*/", ";", "a;b",
                 "{", "}", "{}", "a{b}c", "%_", "\t", "\\n", "x\\", "'; DROP TABLE t; --", "\"\"", "'''", "\\\\", "a\\'b", "'a'", "\"a\""]
    for _ in range(ck.n(150, 1500)):
        k = ck.rng.randrange(1, 7)
        vals_pool.append("".join(ck.rng.choice(ALPHA_X) for _ in range(k)))
    vals_pool = list(dict.fromkeys(vals_pool))
    for v in vals_pool:
        for style, src in sp.spellings_of(v, ck.rng):
            lits.append((src, v, "string:" + style))
    for q in sp.QUIRKS:
        d = sp.decode_fstring_text(q) if q.startswith("f") else (sp.decode_raw(q) if q.startswith("r") else sp.decode_quoted(q))
        lits.append((q, d, "string:quirk"))
    nums = sp.number_cases(ck.rng, ck.n(40, 400), rows)
    for src, exp in nums:
        lits.append((src, exp, "number"))
    # based integer literals around the digit caps / the i64 boundary / with separators: may be rejected, must never be another value
    for src, v in sp.based_boundary(ck.rng, ck.n(6, 40)):
        lits.append((src, ("intq", v), "number:boundary"))
    for src in sp.EXTREME:
        lits.append((src, ("real", Fraction(src.replace("_", "")) if "e" not in src else Fraction(int(src.split("e")[0])) * Fraction(10) ** min(int(src.split("e")[1]), 3000)), "number:extreme"))
    dates = sp.date_cases(ck.rng, ck.n(40, 300))
    for src, kind, exp in dates:
        lits.append((src, (kind, exp), "date"))
    # interval literals <integer><unit>: every unit, counts with underscores, at and beyond the i64 boundary
    for u in iunits:
        for n_ in [0, 1, 2, 10, 59, 365, 2**31, 2**63 - 1, 2**63, 10**20, ck.rng.randrange(10**6), ck.rng.randrange(10**15)]:
            ds = str(n_)
            if len(ds) > 3 and ck.rng.random() < 0.5:
                ds = ds[:-3] + "_" + ds[-3:]
            lits.append((ds + u, ("interval", (n_, u)), "interval"))
    for src, v in (("true", ("bool", 1)), ("false", ("bool", 0)), ("null", ("null", None))):
        lits.append((src, v, "bool"))
    lex_ans = harness("lex", [{"src": l[0]} for l in lits])
    model_lit = None
    if model_ok:
        try:
            B = 50
            exprs = ["map (lex_literal_checked_view %s %s %s) [%s]" % (units_expr, tbl_expr, rows_expr, "; ".join(coq_codes(l[0]) for l in lits[i:i + B])) for i in range(0, len(lits), B)]
            model_lit = [x for v in coq_eval(HEADER.replace("Model.Literal.", "Model.Literal Model.FloatFmt."), exprs) for x in v]
        except RuntimeError as ex:
            ck.coverage["model_eval_error_lit"] = str(ex)[-600:]
    impl_vals = []
    for i, (src, pv, kind) in enumerate(lits):
        ck.count("literal-decode", src)
        ck.stat("literal-decode", kind.split(":")[0])
        a = lex_ans[i]
        iv = None          # implementation's literal: (tag, payload)
        if "ok" in a:
            toks = [t for t in a["ok"] if t["kind"] != "Start"]
            if len(toks) == 1:
                k = toks[0]["kind"]
                if isinstance(k, dict) and "Literal" in k:
                    lit = k["Literal"]
                    iv = ("Null", None) if lit == "Null" else list(lit.items())[0]
                elif isinstance(k, dict) and "Interpolation" in k:
                    iv = ("F" if k["Interpolation"][0] == "f" else "S", k["Interpolation"][1])
        impl_vals.append(iv)
        case = {"kind": "literal-decode", "src": src, "impl": iv, "python": pv}
        # python reference vs implementation
        if pv is not None and kind.startswith("string"):
            got = None
            if iv and iv[0] in ("String", "RawString"):
                got = iv[1]
            elif iv and iv[0] == "F":
                got = iv[1].replace("{{", "{").replace("}}", "}")
            if got != pv:
                ck.violation("PRQL string spelling %r denotes %r (reference) but lexes to %r" % (src, pv, iv), case)
        if kind.startswith("number") and iv is not None:
            tag, exp = pv
            if tag == "int" and iv != ("Integer", exp):
                ck.violation("number spelling %r should be the integer %d, lexes to %r" % (src, exp, iv), case)
            if tag == "real":
                # the float the lexer produced must be the correctly rounded binary64 of the exact decimal value
                ok = iv[0] == "Float" and iv[1] is not None and not inf_spelling(exp) and Fraction(iv[1]) == Fraction(float(exp))
                if not ok:
                    ck.violation("number spelling %r should be the float %s, lexes to %r" % (src, exp, iv), case)
        if kind == "interval":
            n_, u_ = pv[1]
            # a count that does not fit i64 must be rejected (fix 8948ad3; C08-N1 is FIXED: nothing is excused)
            if n_ >= 2**63:
                ck.stat("literal-decode", "interval-rejected" if iv is None else "interval-overflow-accepted")
                if iv is not None:
                    ck.violation("interval literal %s has a count beyond i64 and must be rejected; it lexes to %r" % (src, iv), dict(case, count=n_))
            elif iv != ("ValueAndUnit", {"n": n_, "unit": u_}):
                ck.violation("interval literal %s denotes %d %s but lexes to %r" % (src, n_, u_, iv), dict(case, count=n_))
        if kind == "number:boundary":
            if iv is None:
                ck.stat("literal-decode", "boundary-rejected")
            else:
                v = pv[1]
                ok = (iv == ("Integer", v)) if v < 2**63 else (iv[0] == "Float" and iv[1] is not None and Fraction(iv[1]) == Fraction(float(v)))
                ck.stat("literal-decode", "boundary-accepted")
                if not ok:
                    ck.violation("based integer literal %s denotes %d but lexes to %r" % (src, v, iv), case)
        elif iv is None and kind.startswith("number") and pv[0] == "real" and inf_spelling(pv[1]):
            # since fix d8fda67 the lexer rejects a number whose binary64 value is not finite
            ck.stat("literal-decode", "overflow-rejected")
            if not any("number literal is out of range" in (e_.get("reason") or "") for e_ in a.get("err", [])):
                ck.violation("number spelling %r overflows binary64: expected the lexer error 'number literal is out of range', got %r" % (src, a), case)
        elif iv is None and kind == "interval" and pv[1][0] >= 2**63:
            pass
        elif iv is None and pv is not None:
            ck.violation("literal spelling %r is not lexed as one literal token" % src, case)
        # Coq model vs implementation
        if model_lit is not None:
            m = model_lit[i]
            mv = None
            if m != "None" and isinstance(m, tuple) and m[0] == "Some":
                tag, payload, (sg, mag), rest = m[1]
                z = -mag if sg else mag
                if rest == []:
                    ps = s_of(payload)
                    if tag == 2:
                        mv = ("FloatDec", (int(ps), z))
                    else:
                        mv = {0: ("Null", None), 1: ("Integer", z), 3: ("Boolean", bool(z)), 4: ("String", ps),
                              5: ("RawString", ps), 6: ("F", ps), 7: ("Date", ps), 8: ("Time", ps), 9: ("Timestamp", ps),
                              10: ("ValueAndUnit", {"n": z, "unit": ps})}[tag]
            same = (mv == iv) or (mv and iv and mv[0] == "FloatDec" and iv[0] == "Float" and
                                  (iv[1] is None or abs(mv[1][1]) > 400 or f64(Fraction(mv[1][0]) * Fraction(10) ** mv[1][1]) in (None, iv[1])))
            if not same:
                case["model"] = mv
                ck.violation("literal model differs from prql_to_tokens on %r: model %r, implementation %r" % (src, mv, iv), case)

    # ------------------------------------------------------------ 3. end to end on SQLite
    setup_one = ["CREATE TABLE t (c TEXT)", "INSERT INTO t VALUES ('cval')"]
    progs = []       # (src prql, target, expectation, meta)
    for i, (src, pv, kind) in enumerate(lits):
        iv = impl_vals[i]
        if kind.startswith("string"):
            value = pv if pv is not None else (iv[1] if iv and iv[0] in ("String", "RawString") else (iv[1].replace("{{", "{").replace("}}", "}") if iv and iv[0] == "F" else None))
            if value is None or "\x00" in value:
                continue
            for tgt in ("sql.sqlite", "sql.generic"):
                progs.append(("from t | select {v = %s}" % src, tgt, ("text", value), {"lit": src, "kind": kind, "value": value, "skeleton": "select"}))
            if i % 3 == 0 and not src.startswith("f"):      # an f-string is an expression, not a literal: relation literals reject it by design
                progs.append(("from [{v = %s}]" % src, "sql.sqlite", ("text", value), {"lit": src, "kind": kind, "value": value, "skeleton": "array"}))
            if i % 3 == 1 and not src.startswith("f"):
                progs.append(("from u | filter c == %s | select {v = c}" % src, "sql.sqlite", ("text", value), {"lit": src, "kind": kind, "value": value, "skeleton": "filter"}))
            if src.startswith("f") and i % 2 == 0:
                progs.append(("from t | select {v = f\"%s{c}%s\"}" % (src[2:-1], src[2:-1]), "sql.sqlite", ("text", value + "cval" + value), {"lit": src, "kind": kind, "value": value, "skeleton": "fhole"}))
        elif kind == "interval":
            continue          # SQLite has no INTERVAL literal: emission is checked through the hook on every dialect (stream 6)
        elif kind == "number:boundary":
            progs.append(("from t | select {v = %s}" % src, "sql.sqlite", ("intq", pv[1]), {"lit": src, "kind": kind, "skeleton": "select"}))
        elif kind.startswith("number"):
            tag, exp = pv
            for tgt in ("sql.sqlite", "sql.generic"):
                progs.append(("from t | select {v = %s}" % src, tgt, (tag, exp), {"lit": src, "kind": kind, "overflow": inf_spelling(exp), "skeleton": "select"}))
        elif kind == "date":
            progs.append(("from t | select {v = %s}" % src, "sql.sqlite", ("text", pv[1]), {"lit": src, "kind": kind, "skeleton": "select"}))
        else:
            progs.append(("from t | select {v = %s}" % src, "sql.sqlite", pv, {"lit": src, "kind": kind, "skeleton": "select"}))
            progs.append(("from t | select {v = %s}" % src, "sql.generic", pv, {"lit": src, "kind": kind, "skeleton": "select"}))
    comp = harness("compile", [{"src": p[0], "target": p[1]} for p in progs])
    ex_reqs, ex_idx = [], []
    for i, (p, a) in enumerate(zip(progs, comp)):
        if "ok" in a:
            meta = p[3]
            if meta["skeleton"] == "filter":
                setup = ["CREATE TABLE u (c TEXT)", "INSERT INTO u VALUES ('other')", "INSERT INTO u VALUES ('zz')"]
                ex_reqs.append({"setup": setup + ["INSERT INTO u VALUES ('%s')" % meta["value"].replace("'", "''")], "sql": a["ok"]})
            else:
                ex_reqs.append({"setup": setup_one, "sql": a["ok"]})
            ex_idx.append(i)
    ex_ans = dict(zip(ex_idx, harness("exec", ex_reqs)))

    OUT_OF_RANGE = "literal is out of range: its value is not a finite 64-bit float"     # the lexer's (d8fda67) or translate_literal's (1ae3488)

    def cl_e2e(case):
        return None               # F14 (overflow printed as inf) is FIXED by 1ae3488: nothing is excused any more
    for i, (p, a) in enumerate(zip(progs, comp)):
        src, tgt, (etag, exp), meta = p
        ck.count("e2e-sqlite", src + "|" + tgt)
        ck.stat("e2e-sqlite", meta["kind"].split(":")[0] + "/" + meta["skeleton"])
        case = dict(meta, src=src, target=tgt, expected=(">= 2^1024" if meta.get("overflow") else str(exp)))
        if "ok" not in a and etag == "intq":
            ck.stat("e2e-sqlite", "boundary-rejected")            # too many digits / separators: a compile error is acceptable
            continue
        if meta.get("overflow"):
            # a spelling whose value rounds to infinity in binary64 must be rejected with the out-of-range error (fix 1ae3488)
            reasons = [e_.get("reason") or "" for e_ in a.get("err", [])] if "ok" not in a else []
            if any(OUT_OF_RANGE in r_ for r_ in reasons):
                ck.stat("e2e-sqlite", "overflow-rejected")
            else:
                case["compile"] = a
                ck.violation("float literal %s overflows binary64 and must be a compile error; got %s" % (meta["lit"], a.get("ok") or reasons), case)
            continue
        if "ok" not in a:
            case["compile"] = a
            ck.disagreement("literal program does not compile: %s" % src, case, cl_e2e)
            continue
        case["sql"] = a["ok"]
        r = ex_ans[i]
        if "rows" not in r:
            case["exec"] = r
            ck.disagreement("SQL for literal %s does not run on SQLite: %s" % (meta["lit"], r), case, cl_e2e)
            continue
        if r["cols"] != ["v"] or len(r["rows"]) != 1 or len(r["rows"][0]) != 1:
            case["result"] = r
            ck.disagreement("literal %s changed the statement's structure: %d rows, columns %s" % (meta["lit"], len(r["rows"]), r["cols"]), case, cl_e2e)
            continue
        got = r["rows"][0][0]
        ok = False
        if etag == "text":
            ok = got == exp
        elif etag == "intq":
            ok = (isinstance(got, int) and not isinstance(got, bool) and got == exp) if exp < 2**63 else \
                 (isinstance(got, dict) and "f" in got and got["f"] not in ("inf", "NaN") and float(got["f"]) == float(exp))
        elif etag in ("int", "bool"):
            ok = isinstance(got, int) and not isinstance(got, bool) and got == exp
        elif etag == "real":
            want = f64(exp)
            # (a) the number text in the SQL must denote exactly the correctly rounded binary64 of the literal's value
            #     (python's float() of a decimal text is correctly rounded; independent of SQLite)
            sql_num = a["ok"][len("SELECT "):-len(" AS v FROM t")] if a["ok"].startswith("SELECT ") and a["ok"].endswith(" AS v FROM t") else None
            try:
                text_ok = sql_num is not None and want is not None and float(sql_num) == want
            except ValueError:
                text_ok = False
            # (b) what SQLite makes of it: exactly, where SQLite's own decimal->double conversion is exact (<= 15 significant
            #     digits, |decimal exponent| <= 22); within 4 ulp elsewhere (SQLite 3.49 reads 1.5e300 as 1.4999999999999998e300)
            ok = False
            if text_ok and isinstance(got, dict) and "f" in got and got["f"] not in ("inf", "NaN", "-inf"):
                g = float(got["f"])
                import math
                mant = sql_num.lower().split("e")[0].replace(".", "").lstrip("0")
                e10 = (int(sql_num.lower().split("e")[1]) if "e" in sql_num.lower() else 0)
                exact_zone = len(mant.rstrip("0")) <= 15 and abs(e10) <= 22 and len(mant) <= 22
                ok = (g == want) if exact_zone else (abs(g - want) <= 4 * math.ulp(want))
                ck.stat("e2e-sqlite", "float-exact-zone" if exact_zone else "float-4ulp-zone")
        elif etag == "null":
            ok = got is None
        if not ok:
            case["got"] = got
            ck.disagreement("literal %s evaluates to %r on SQLite, its value is %r" % (meta["lit"], got, exp), case, cl_e2e)
        elif len(ck.coverage["samples"]) < 10 and i % 211 == 0:
            ck.sample({"prql": src, "sql": a["ok"], "sqlite_value": got})

    # ------------------------------------------------------------ 3b. float literals: the text translate_literal emits (Rust {:?}) vs the models, on the
    #      DECIMAL value (m, e) the lexer model gives the spelling.  Model/FloatRyu.v emit_float_ryu (decimal -> nearest binary64 ->
    #      shortest digits -> layout) must give prqlc's text for EVERY spelling, 16-17 significant digits and subnormals included,
    #      and its binary64 must be the one the lexer produced (bit for bit); Model/FloatFmt.v emit_float_rust (layout of the
    #      spelling's own digits) must agree on its class in_class; overflow = the compile error (since 1ae3488)
    if model_lit is not None:
        import struct
        fl = []
        for i, (src, pv, kind) in enumerate(lits):
            m = model_lit[i]
            if kind.startswith("number") and m != "None" and isinstance(m, tuple) and m[0] == "Some" and m[1][0] == 2 and m[1][3] == []:
                tag, payload, (sg, mag), rest = m[1]
                if mag > 5000:
                    continue                    # 1e999999: decided by digit count in FloatFmt.overflows; not expanded by the rounding model
                iv = impl_vals[i]
                bits = struct.unpack(">Q", struct.pack(">d", iv[1]))[0] if iv and iv[0] == "Float" and iv[1] is not None else None
                fl.append((src, int(s_of(payload)), bool(sg), mag, bits))
        fcomp = harness("compile", [{"src": "from t | select {v = %s}" % f[0], "target": "sql.generic"} for f in fl])
        fneg = harness("compile", [{"src": "from t | select {v = -%s}" % f[0], "target": "sql.generic"} for f in fl])     # folded negation: Literal::Float(-f)
        try:
            B = 12
            fmodel = [x for v in coq_eval(HEADER.replace("Model.Literal.", "Model.Literal Model.FloatFmt Model.FloatRyu."),
                                          ["[%s]" % "; ".join("(emit_float_view %d %s %d, emit_float_ryu_view %d %s %d)" % ((m_, "true" if sg_ else "false", mag_) * 2) for (_, m_, sg_, mag_, _) in fl[i:i + B])
                                           for i in range(0, len(fl), B)]) for x in v]
        except RuntimeError as ex:
            fmodel = None
            ck.coverage["model_eval_error_float"] = str(ex)[-600:]

        def num_of(ans):
            sql = ans.get("ok", "")
            return sql[len("SELECT "):-len(" AS v FROM t")] if sql.startswith("SELECT ") and sql.endswith(" AS v FROM t") else None
        if fmodel is not None:
            for (src, m_, sg_, mag_, bits), a, an, (cls, txt, ryu) in zip(fl, fcomp, fneg, fmodel):
                got = num_of(a)
                ck.count("float-text", src)
                if ryu == "None":
                    ck.stat("float-text", "overflow")
                    reasons = [e_.get("reason") or "" for e_ in a.get("err", [])]
                    if "ok" in a or not any(OUT_OF_RANGE in r_ for r_ in reasons):
                        ck.violation("float literal %s: the model says it overflows binary64 and is rejected, prqlc answers %r" % (src, a.get("ok") or reasons), {"kind": "float-text", "src": src, "model": None, "impl": a})
                    if txt != "None":
                        ck.violation("float literal %s: FloatFmt.overflows and FloatRyu.round64 disagree about overflow" % src, {"kind": "float-models", "src": src})
                    continue
                mbits, rt = ryu[1][0], s_of(ryu[1][1])
                ck.stat("float-text", "digits%d" % min(len(str(m_).rstrip("0")), 18))
                if bits is not None and mbits != bits:
                    ck.violation("float literal %s: the lexer produced the binary64 %016x, the rounding model says %016x" % (src, bits, mbits), {"kind": "float-round", "src": src, "impl_bits": "%016x" % bits, "model_bits": "%016x" % mbits})
                if got != rt:
                    ck.violation("float literal %s: prqlc emits %r, the model (nearest binary64, shortest digits, {:?} layout) says %r" % (src, got, rt), {"kind": "float-text", "src": src, "model": rt, "impl": got})
                ck.count("float-text", "-" + src)
                if num_of(an) != "-" + rt:
                    ck.violation("float literal -%s: prqlc emits %r, the model says %r" % (src, num_of(an), "-" + rt), {"kind": "float-text", "src": "-" + src, "model": "-" + rt, "impl": an})
                if txt == "None":
                    ck.violation("float literal %s: FloatFmt.overflows and FloatRyu.round64 disagree about overflow" % src, {"kind": "float-models", "src": src})
                elif cls:
                    ck.stat("float-text", "in-class")
                    if s_of(txt[1]) != rt:
                        ck.violation("float literal %s is in_class (<= 15 digits) but the layout of its own digits %r is not the shortest-digits text %r" % (src, s_of(txt[1]), rt), {"kind": "float-class", "src": src})
                else:
                    ck.stat("float-text", "outside-class")

    # ------------------------------------------------------------ 4. per-dialect token structure of the compiled statement
    tprogs = [p for p in progs if p[3]["skeleton"] == "select" and p[1] == "sql.sqlite" and p[3]["kind"].startswith("string")]
    tprogs = tprogs[:ck.n(250, 2500)]
    creqs = [{"src": p[0], "target": "sql." + d} for p in tprogs for d in ALL_DIALECTS]
    cans = harness("compile", creqs)
    treqs, tmeta = [], []
    k = 0
    for p in tprogs:
        for d in ALL_DIALECTS:
            a = cans[k]; k += 1
            if "ok" in a:
                treqs.append({"sql": a["ok"], "dialect": d}); tmeta.append((p, d, a["ok"]))
            else:
                ck.violation("literal program does not compile for %s" % d, {"src": p[0], "dialect": d, "compile": a})
    tans = harness("c08_tok", treqs)
    for (p, d, sql), a in zip(tmeta, tans):
        value = p[3]["value"]
        ck.count("dialect-tokens", d + "|" + p[0], nontrivial=("'" in value or "\\" in value))
        toks = canon_tok(a)
        nm = "v" if d != "snowflake" else '"v'
        tn = "t" if d != "snowflake" else '"t'
        want = [(3, "SELECT"), (1, value), (3, "AS"), (3 if d != "snowflake" else 2, nm), (3, "FROM"), (3 if d != "snowflake" else 2, tn)]
        if toks != want:
            ck.disagreement("dialect %s: statement for literal %s is not SELECT <one string token = value> AS v FROM t: %s" % (d, p[3]["lit"], toks[:8]),
                            {"kind": "dialect-tokens", "dialect": d, "value": value, "src": p[0], "sql": sql, "tokens": toks[:12]}, cl_string)

    # ------------------------------------------------------------ 5. the other places a literal lands in (relation literal, WHERE, f-string
    #      pieces inside CONCAT / ||), every dialect: the statement's token list must be that of the same program written with a harmless
    #      placeholder literal, with the placeholder's string token(s) replaced by the value -- nothing created, removed or merged
    PH = "PLACEHOLDERzz"
    ref_src = {"array": 'from [{v = "%s"}]' % PH, "filter": 'from u | filter c == "%s" | select {v = c}' % PH, "fhole": 'from t | select {v = f"%s{c}%s"}' % (PH, PH)}
    ref_tok = {}
    rc = harness("compile", [{"src": ref_src[sk], "target": "sql." + d} for sk in sorted(ref_src) for d in ALL_DIALECTS])
    rkeys = [(sk, d) for sk in sorted(ref_src) for d in ALL_DIALECTS]
    rt_ = harness("c08_tok", [{"sql": a.get("ok", ""), "dialect": d} for (sk, d), a in zip(rkeys, rc)])
    for key, a, tk in zip(rkeys, rc, rt_):
        toks = canon_tok(tk)
        if "ok" not in a or (1, PH) not in toks:
            ck.violation("placeholder program does not compile / tokenise for %s" % (key,), {"kind": "context-ref", "skeleton": key[0], "dialect": key[1], "compile": a})
        else:
            ref_tok[key] = toks
    by_sk = {}
    for pgm in progs:
        sk = pgm[3]["skeleton"]
        if sk in ref_src and pgm[1] == "sql.sqlite" and pgm[3]["kind"].startswith("string") and not (sk == "fhole" and pgm[3]["value"] == ""):
            by_sk.setdefault(sk, []).append(pgm)
    cprogs = [pgm for sk in sorted(by_sk) for pgm in by_sk[sk][:ck.n(60, 600)]]
    cans = harness("compile", [{"src": pgm[0], "target": "sql." + d} for pgm in cprogs for d in ALL_DIALECTS])
    treqs, tmeta = [], []
    k = 0
    for pgm in cprogs:
        for d in ALL_DIALECTS:
            a = cans[k]; k += 1
            if "ok" in a:
                treqs.append({"sql": a["ok"], "dialect": d}); tmeta.append((pgm, d, a["ok"]))
            else:
                ck.violation("literal program does not compile for %s" % d, {"src": pgm[0], "dialect": d, "compile": a})
    for (pgm, d, sql), a in zip(tmeta, harness("c08_tok", treqs)):
        value, sk = pgm[3]["value"], pgm[3]["skeleton"]
        if (sk, d) not in ref_tok:
            continue
        ck.count("context-tokens", d + "|" + pgm[0], nontrivial=("'" in value or "\\" in value))
        ck.stat("context-tokens", sk)
        toks = canon_tok(a)
        want = [((1, value) if tk == (1, PH) else tk) for tk in ref_tok[(sk, d)]]
        if toks != want:
            ck.disagreement("dialect %s, %s context: literal %s changed the statement's token structure: %s" % (d, sk, pgm[3]["lit"], toks[:10]),
                            {"kind": "context-tokens", "dialect": d, "skeleton": sk, "value": value, "src": pgm[0], "sql": sql, "tokens": toks[:14], "expected": want[:14]}, cl_string)

    # ------------------------------------------------------------ 6. hook verif:literal: EVERY call of translate_literal, in statements with
    #      many literals in many positions (case, ??, in, text.*, relation literals, joins, f-strings, date.to_text, all literal kinds),
    #      for every dialect: (a) the flags the call consulted are the ones the translator read from dialect.rs, (b) the SQL text it
    #      returned is Model/Literal.v emit_rlit of the literal it received, (c) every string literal of the source reached it,
    #      (d) the statement's token structure is that of the same program with placeholders, values substituted
    rich = sp.rich_programs(ck.rng, ck.n(72, 720), [v for v in vals_pool if "\x00" not in v])
    PFX = "verif:literal "
    lreqs = [{"src": src, "target": "sql." + d, "want": [], "msg_prefix": PFX.strip()} for (_, src, _, _, _) in rich for d in ALL_DIALECTS]
    lans = harness("log", lreqs)
    preqs = [{"src": ph, "target": "sql." + d} for (_, _, ph, _, _) in rich for d in ALL_DIALECTS]
    pans = harness("compile", preqs)
    calls = {}          # (sqlite, bs, json of lit) -> out
    per = []            # (program, dialect, answer, entries, placeholder answer)
    k = 0
    n_entries = 0
    for pgm in rich:
        for d in ALL_DIALECTS:
            a, pa = lans[k], pans[k]; k += 1
            ents = []
            for e in a.get("entries", []):
                m = e.get("Message")
                if m and m.startswith(PFX):
                    ents.append(json.loads(m[len(PFX):]))
            n_entries += len(ents)
            per.append((pgm, d, a, ents, pa))
            for e in ents:
                calls.setdefault((e["sqlite"], e["bs"], json.dumps(e["lit"], sort_keys=True)), e)
    ck.coverage["literal_hook_entries"] = n_entries
    ck.coverage["literal_hook_distinct_calls"] = len(calls)
    if rich and n_entries == 0:
        ck.violation("the hook verif:literal produced no entry for %d programs full of literals (hook missing from the tree?)" % len(rich), {"kind": "hook-missing", "src": rich[0][1]})

    def rlit_term(lit):
        if lit == "Null":
            return "RNull"
        (tag, v), = lit.items()
        if tag == "Integer":
            return "(RInt (%d)%%Z)" % v
        if tag == "Float":
            return "RFloat"
        if tag == "Boolean":
            return "(RBool %s)" % ("true" if v else "false")
        if tag in ("String", "RawString"):
            return "(RString %s)" % coq_codes(v)
        if tag in ("Date", "Time", "Timestamp"):
            return "(R%s %s)" % (tag, coq_codes(v))
        if tag == "ValueAndUnit":
            return "RValueAndUnit"
        raise KeyError(tag)
    # interval literals: the text depends on the dialect's interval_quoting_style, so they are keyed by dialect
    icalls = {}
    for (pgm, d, a, ents, pa) in per:
        for e in ents:
            if isinstance(e["lit"], dict) and "ValueAndUnit" in e["lit"]:
                v_ = e["lit"]["ValueAndUnit"]
                icalls.setdefault((d, v_["n"], v_["unit"]), e)
    ikeys = sorted(icalls)
    if model_ok and ikeys:
        try:
            iexprs = ["[%s]" % "; ".join("interval_text_for %s %s (%s, %s) (emit_int (%d)%%Z) %s" % ("true" if isupported[d_] else "false", fields_expr, STY[istyles[d_][0]], STY[istyles[d_][1]], n_, coq_codes(u_)) for (d_, n_, u_) in ikeys[i:i + 40])
                      for i in range(0, len(ikeys), 40)]
            iflat = [x for v in coq_eval(HEADER.replace("Model.Literal.", "Model.Literal Model.Interval."), iexprs) for x in v]
            for key, m in zip(ikeys, iflat):
                e = icalls[key]
                ck.count("literal-hook-interval", "%s|%d|%s" % key)
                ck.stat("literal-hook-interval", (istyles[key[0]][0] + "/" + istyles[key[0]][1]) if isupported[key[0]] else "rejected")
                mo = None if m == "None" else s_of(m[1])
                if e["out"] != mo:
                    ck.violation("translate_literal returned %r for the interval %d %s on %s; the model says %r" % (e["out"], key[1], key[2], key[0], mo),
                                 {"kind": "hook-interval", "dialect": key[0], "entry": e, "model": mo})
        except RuntimeError as ex:
            ck.coverage["model_eval_error_interval"] = str(ex)[-600:]
    ckeys = sorted(calls, key=lambda x: (x[2], x[0], x[1]))
    model_out = {}
    if model_ok and ckeys:
        try:
            B = 60
            exprs = ["[%s]" % "; ".join("emit_rlit %s %s %s" % ("true" if s_ else "false", "true" if b_ else "false", rlit_term(json.loads(l_))) for (s_, b_, l_) in ckeys[i:i + B])
                     for i in range(0, len(ckeys), B)]
            flat = [x for v in coq_eval(HEADER, exprs) for x in v]
            model_out = dict(zip(ckeys, flat))
        except RuntimeError as ex:
            ck.coverage["model_eval_error_hook"] = str(ex)[-600:]
    for key in ckeys:
        e = calls[key]
        lit = e["lit"]
        tag = "Null" if lit == "Null" else list(lit)[0]
        ck.count("literal-hook", "%s|%s|%s" % key, nontrivial=(tag in ("String", "RawString") and ("'" in lit[tag] or "\\" in lit[tag])))
        ck.stat("literal-hook", tag)
        if key not in model_out:
            continue
        m = model_out[key]
        if m == "None":
            ck.stat("literal-hook", "not-modelled:" + tag)
            if tag not in ("Float", "ValueAndUnit"):      # floats: stream float-text (decimal value); intervals: literal-hook-interval
                ck.violation("model emit_rlit has no output for a %s literal" % tag, {"kind": "hook-model", "entry": e})
            continue
        mo = s_of(m[1])
        if e["out"] != mo:
            ck.violation("translate_literal returned %r for %r (sqlite=%s, bs=%s); the model says %r" % (e["out"], lit, e["sqlite"], e["bs"], mo),
                         {"kind": "hook-model", "entry": e, "model": mo})
    # per statement
    tq, tmeta = [], []
    for (pgm, d, a, ents, pa) in per:
        name, src, ph, svals, phs = pgm
        ck.count("literal-hook-stmt", d + "|" + src, nontrivial=any("'" in v or "\\" in v for v in svals))
        ck.stat("literal-hook-stmt", name)
        case = {"kind": "hook-stmt", "skeleton": name, "dialect": d, "src": src, "value": "".join(svals)}
        if "ok" not in a:
            if "ok" in pa and name == "datefmt":
                ck.stat("literal-hook-stmt", "format-string-rejected")       # % followed by an unknown specifier etc.: the format language is not C08's
            elif "ok" in pa:
                case["compile"] = {k_: v_ for k_, v_ in a.items() if k_ != "entries"}
                ck.violation("program compiles with placeholder literals but not with the real ones for %s" % d, case)
            else:
                ck.stat("literal-hook-stmt", "unsupported:" + name)
            continue
        for e in ents:
            if e["sqlite"] != (d == "sqlite") or e["bs"] != writer_bs[d]:
                ck.violation("translate_literal consulted sqlite=%s bs=%s for dialect %s; dialect.rs says sqlite=%s bs=%s" % (e["sqlite"], e["bs"], d, d == "sqlite", writer_bs[d]), dict(case, entry=e))
            if e["out"] is not None and e["out"] not in a["ok"].replace("\n", " ") and e["out"] not in a["ok"]:
                ck.violation("the text translate_literal returned (%r) is not part of the statement" % e["out"], dict(case, entry=e, sql=a["ok"]))
        if name != "datefmt":
            logged = [e["lit"].get("String", e["lit"].get("RawString")) for e in ents if isinstance(e["lit"], dict) and ("String" in e["lit"] or "RawString" in e["lit"])]
            pool = list(logged)
            for v in svals:
                if v in pool:
                    pool.remove(v)
                else:
                    ck.violation("string literal %r of the source did not pass through translate_literal for %s (logged: %s)" % (v, d, logged[:8]), dict(case, sql=a["ok"]))
                    break
            if "ok" in pa:
                tq.append({"sql": a["ok"], "dialect": d}); tq.append({"sql": pa["ok"], "dialect": d}); tmeta.append((pgm, d, a["ok"], pa["ok"]))
    tks = harness("c08_tok", tq)
    for j, (pgm, d, sql, phsql) in enumerate(tmeta):
        name, src, ph, svals, phs = pgm
        toks, ptoks = canon_tok(tks[2 * j]), canon_tok(tks[2 * j + 1])
        sub = dict(zip(phs, svals))
        want = [((1, sub[tv]) if (tk == 1 and tv in sub) else (tk, tv)) for tk, tv in ptoks]
        if sum(1 for tk, tv in ptoks if tk == 1 and tv in sub) != len(phs):
            ck.violation("placeholder statement does not carry every placeholder as one string token (%s)" % d, {"kind": "hook-stmt-ref", "dialect": d, "src": ph, "sql": phsql})
            continue
        if toks != want:
            ck.disagreement("dialect %s, %s statement: the literals changed the statement's token structure" % (d, name),
                            {"kind": "hook-stmt-tokens", "dialect": d, "skeleton": name, "value": "".join(svals), "values": svals, "src": src, "sql": sql, "tokens": toks[:30], "expected": want[:30]}, cl_string)

    # ------------------------------------------------------------ 8. embedded data: std.from_text (json, both layouts; csv).  Every cell of the document
    #      must reach the database with its value: (a) the literal translate_literal receives for the cell (hook) is
    #      Model/FromText.v map_json_primitive of the JSON value; (b) executed on SQLite, the cell has the value of the document
    import csv as _csv, io as _io
    strs = [v for v in vals_pool if "\x00" not in v]

    def jcell():
        k = ck.rng.randrange(10)
        if k < 4:
            return ck.rng.choice(strs)
        if k < 6:
            return ck.rng.choice([0, 1, -1, 42, 2**31, 2**53 + 1, 2**63 - 1, 2**64, -2**63, -2**63 - 1, 10**25, ck.rng.randrange(-10**6, 10**6), ck.rng.randrange(-10**6, 10**6), ck.rng.choice([2**63, 2**64 - 1])])
        if k == 6:
            return ck.rng.choice([1.5, 0.1, 1e22, 5e-324, 1.7976931348623157e308, -0.0, 2.5e-7, 1e16, -123.456, 0.30000000000000004])
        if k == 7:
            return ck.rng.choice([True, False])
        if k == 8:
            return None
        return ck.rng.choice([[1, 2], {"x": 1}, []]) if ck.rng.random() < 0.3 else ck.rng.choice(strs)
    ft = []          # (format, prql source, columns, rows of python values, document text)
    for _ in range(ck.n(60, 600)):
        nc, nr = ck.rng.randrange(1, 4), ck.rng.randrange(1, 4)
        cols = ["c%d" % i for i in range(nc)]
        rows = [[jcell() for _ in cols] for _ in range(nr)]
        if ck.rng.random() < 0.5:
            doc = json.dumps([dict(zip(cols, r)) for r in rows], ensure_ascii=ck.rng.random() < 0.5)
        else:
            doc = json.dumps({"columns": cols, "data": rows}, ensure_ascii=ck.rng.random() < 0.5)
        ft.append(("json", 'from_text format:json "%s"' % sp.esc_for('"', doc, ck.rng, 1), cols, rows, doc))
    for _ in range(ck.n(40, 400)):
        nc, nr = ck.rng.randrange(1, 4), ck.rng.randrange(1, 4)
        cols = ["c%d" % i for i in range(nc)]
        rows = [[ck.rng.choice(strs) for _ in cols] for _ in range(nr)]
        # RFC 4180 writer: a field with a comma, a quote, CR or LF is quoted (python's csv module leaves a bare CR unquoted)
        allq = ck.rng.random() < 0.3

        def fld(c):
            return '"' + c.replace('"', '""') + '"' if (allq or any(ch in c for ch in ',"\r\n') or (c == "" and nc == 1)) else c
        doc = "\n".join(",".join(fld(c) for c in r) for r in [cols] + rows)
        ft.append(("csv", 'from_text format:csv "%s"' % sp.esc_for('"', doc, ck.rng, 1), cols, rows, doc))
    # directed: the replays of C08-N3 (white space at the edges of an unquoted CSV document) and C08-N2
    for doc, rows in (("c0,c1\nfoo  ,bar  ", [["foo  ", "bar  "]]), ("c0\nx\n\ty\t", [["x"], ["\ty\t"]])):
        ft.append(("csv", 'from_text format:csv "%s"' % sp.esc_for('"', doc, ck.rng, 1), doc.split("\n")[0].split(","), rows, doc))
    doc = '[{"c0": 9223372036854775807, "c1": 9223372036854775808, "c2": [1, 2]}]'
    ft.append(("json", "from_text format:json '%s'" % doc, ["c0", "c1", "c2"], [[2**63 - 1, 2**63, [1, 2]]], doc))
    fans = harness("log", [{"src": f[1], "target": "sql.sqlite", "want": [], "msg_prefix": "verif:literal"} for f in ft])
    fex = harness("exec", [{"setup": [], "sql": a.get("ok", "SELECT 1")} for a in fans])

    def cl_ft(case):
        if case.get("format") == "csv" and case.get("doc") is not None and case["doc"] != case["doc"].strip():
            return "C08-N3-csv-text-trimmed"
        return None

    def jterm(v):
        if v is None:
            return "JNull"
        if isinstance(v, bool):
            return "(JBool %s)" % ("true" if v else "false")
        if isinstance(v, int):
            return "(JInt (%d)%%Z)" % v
        if isinstance(v, float):
            return "JReal"
        if isinstance(v, str):
            return "(JString %s)" % coq_codes(v)
        return "JArray" if isinstance(v, list) else "JObject"
    jcells = sorted({jterm(c) for f in ft if f[0] == "json" for r in f[3] for c in r})
    jmodel = {}
    if model_ok and jcells:
        try:
            vals = coq_eval(HEADER.replace("Model.Literal.", "Model.Literal Model.FromText."),
                            ["map json_cell_view [%s]" % "; ".join(jcells[i:i + 60]) for i in range(0, len(jcells), 60)])
            jmodel = dict(zip(jcells, [x for v in vals for x in v]))
        except RuntimeError as ex:
            ck.coverage["model_eval_error_fromtext"] = str(ex)[-600:]

    def lit_view_py(lit):
        if lit == "Null":
            return (0, "", 0)
        (tag, v), = lit.items()
        return {"Integer": lambda: (1, "", v), "Float": lambda: (2, "", 0), "Boolean": lambda: (3, "", int(v)), "String": lambda: (4, v, 0)}[tag]()
    for (fmt, src, cols, rows, doc), a, r in zip(ft, fans, fex):
        ck.count("from-text", src, nontrivial=("'" in doc or "\\" in doc))
        ck.stat("from-text", fmt)
        case = {"kind": "from-text", "format": fmt, "src": src, "doc": doc}
        # since fix d86674e a document with a cell the model rejects (integer in [2^63, 2^64), array, object) is a compile error
        rejected = fmt == "json" and any(jmodel.get(jterm(c)) == "None" for r_ in rows for c in r_)
        if rejected:
            ck.stat("from-text", "rejected-document")
            reasons = [e_.get("reason") or "" for e_ in a.get("err", [])]
            if "ok" in a or not any("json:" in r_ for r_ in reasons):
                ck.violation("from_text json document with a cell that cannot be represented must be rejected; got %s" % (a.get("ok") or reasons), dict(case, compile={k_: v_ for k_, v_ in a.items() if k_ != "entries"}))
            continue
        if "ok" not in a:
            ck.disagreement("from_text document does not compile: %s" % (a.get("err", [{}])[0].get("reason") if a.get("err") else a), dict(case, compile={k_: v_ for k_, v_ in a.items() if k_ != "entries"}), cl_ft)
            continue
        ents = [json.loads(e["Message"][len("verif:literal "):]) for e in a.get("entries", []) if e.get("Message", "").startswith("verif:literal ")]
        flat = [(ri, ci, c) for ri, r_ in enumerate(rows) for ci, c in enumerate(r_)]
        # (a) the literal each cell becomes, against the model (json) / String of the cell (csv)
        if len(ents) != len(flat):
            ck.disagreement("from_text: %d cells in the document, %d literals reached translate_literal" % (len(flat), len(ents)), dict(case, sql=a["ok"]), cl_ft)
        else:
            for (ri, ci, c), e in zip(flat, ents):
                got = lit_view_py(e["lit"])
                if fmt == "csv":
                    want = (4, c, 0)
                elif jterm(c) in jmodel and jmodel[jterm(c)] != "None":
                    tag_, payload_, (sg_, mag_) = jmodel[jterm(c)][1]
                    want = (tag_, s_of(payload_), -mag_ if sg_ else mag_)
                else:
                    continue
                if got != want:
                    ck.disagreement("from_text %s cell %r became the literal %r; expected %r" % (fmt, c, e["lit"], want), dict(case, cell=repr(c), row=ri, col=ci), cl_ft)
        # (b) executed
        if "rows" not in r:
            ck.disagreement("SQL of a from_text document does not run on SQLite: %s" % r, dict(case, sql=a["ok"]), cl_ft)
            continue
        if r["cols"] != cols or len(r["rows"]) != len(rows):
            ck.disagreement("from_text: result has columns %s and %d rows, the document has %s and %d" % (r["cols"], len(r["rows"]), cols, len(rows)), dict(case, sql=a["ok"]), cl_ft)
            continue
        for ri, (rr, er) in enumerate(zip(r["rows"], rows)):
            for ci, (g, c) in enumerate(zip(rr, er)):
                cls = None
                if fmt == "csv" or isinstance(c, str):
                    ok = g == c
                elif c is None:
                    ok = g is None
                elif isinstance(c, bool):
                    ok = g == int(c) and not isinstance(g, dict)
                elif isinstance(c, int):
                    if -2**63 <= c < 2**63:
                        ok = g == c and isinstance(g, int)
                    else:
                        cls = "u64" if 2**63 <= c < 2**64 else None
                        ok = isinstance(g, dict) and g.get("f") not in (None, "inf", "NaN") and float(g["f"]) == float(c)
                elif isinstance(c, float):
                    ok = isinstance(g, dict) and "f" in g and float(g["f"]) == c
                else:
                    cls, ok = "container", False
                ck.stat("from-text", "cell:" + type(c).__name__)
                if not ok:
                    ck.disagreement("from_text %s cell %r (row %d, column %s) reads %r on SQLite" % (fmt, c, ri, cols[ci], g), dict(case, cell=repr(c), cell_class=cls, sql=a["ok"]), cl_ft)

    ck.proof_broken_violation(found_input=bool(ck.violations))
    ck.assumptions += ["NUL characters are excluded from executed strings (SQLite's API ends the statement text at NUL)",
                       "float spellings in the end-to-end stream have at most 19 significant digits (exact-in-binary, 16-17 digit, halfway and subnormal cases included)",
                       "date/time literals are generated valid (the lexer accepts any digit shape; 13th months are a C10-style question)"]
    ck.finish(TRUSTED, "escape/lexer models: all strings of length <= %d over %d characters (quotes, backslash, newline, comment markers, ;, non-ASCII) plus random longer ones, every one distinct, non-trivial = contains a quote or backslash; literal decoding: every quote style/escape form/raw/f-string spelling of %d values, number spellings, dates; end-to-end: each spelling compiled for sqlite and generic and executed, in select / filter / array-literal / f-string-hole skeletons; for all 12 dialects: prqlc's literal text for every enumerated string = the model's, every dialect's sqlparser tokenizer reads its text back (bigquery excepted: F6c), token structure of the statement around a literal in select / relation-literal / WHERE / f-string contexts" % (n_ex, len(ALPHA), len(vals_pool)))

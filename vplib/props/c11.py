"""C11 -- compilation is a pure function of source tree and options (partial: real hash seeds and OS thread
schedules are sampled)."""
import concurrent.futures as cf
import itertools
import json
import os
import re
import subprocess

from ..common import Check, harness_build, HARNESS_BIN, NPROC
from ..translate import gen_sites_state
from ..programs import POOL
from . import c11_sites
from .c15_programs import COVER, ERRORS, random_program

TRUSTED = [
    "Coq 8.16.1 kernel (coqc, vm_compute); no axioms: every theorem is 'Closed under the global context'",
    "translator vplib/translate/gen_sites_state.py: regex inventory of statics / OnceLock / locks (and, per function that takes a static lock, the operations that can panic under it) / env / clock / randomness / HashMap-HashSet iteration over prqlc/src and prqlc-parser/src (cli, #[cfg(test)] modules and #[cfg(prqlc_verif)] hooks excluded); hash iteration is approximated by type annotations in the same file plus hash-typed struct field names",
    "modelled, not verified: Model/Globals.v (what a compilation does with CURRENT_LOG, the OnceLocks and PRQL_VERSION_OVERRIDE) and the assignment of each iteration site to a pattern of Model/Perm.v (vplib/props/c11_sites.py, from reading the source); both are validated by the determinism streams, not proved against Rust",
    "the result of a compilation is a function of its input and of what it reads from the modelled globals: Rust ownership + no `unsafe` (inventory has no `unsafe` rows) + no other statics (inventory obligation)",
    "PRQL_VERSION_OVERRIDE does not change while compilations run",
    "real hash seeds and OS schedules are SAMPLED (fresh processes, repeated in-process compiles: every HashMap gets a new RandomState key; 16 threads released by a barrier)",
    "span.source_id is an index into the SourceTree it was built from: multi-file results are compared after renaming source ids to paths",
    "hooks namegen-sites (44c332e), pq-names (d5c1b7e) and namegen-state (123c8b6), collected by harness/src/bin/c11names.rs (its own `log::Log` with a thread-local buffer: a line is attributed to the call running on the thread that emitted it)",
    "entry closures handed to debug::log_entry do not panic and do not log (inventory rows `..:log_entry(closure)..` list what each does; MessageLogger formats the caller's arguments under the lock)",
    "correspondence harness (harness/src/c11.rs) and python comparison",
]

PANICKERS = [
    "from t | sort a | take 9223372036854775807.. | take 2..",
    "from t | select {a} | append (from u | select {a, b})",
    "from t | sort id | select {a, b} | take 2 | group {a} (aggregate {n = count b})",
]

# programs aimed at maps with two or more candidates
TARGETED = [
    "from t | take 1 foo:2 bar:3",
    "let f = func x y:1 z:2 -> x + y + z\nfrom t | derive {r = f a q:1 w:2 e:3}",
    "let f = func x y:1 z:2 -> x + y + z\nfrom t | derive {r = f a y:(b + 1) z:(c + 2)}",
    "let f = func x y:1 z:2 -> x + y + z\nfrom t | derive {r = f a z:(c + 2) y:(b + 1)}",
    "let f = func x y:1 z:2 w:3 v:4 -> x + y + z + w + v\nfrom t | derive {r = f a v:b w:c z:d y:e}",
    "prql foo:1 bar:2\nfrom t",
    "prql foo:1 bar:2 baz:3\nfrom t",
    "prql target:sql.sqlite version:\"0.13\"\nfrom t",
    "from t | join side:left u (==id) | window rows:-1..1 expanding:false (derive {s = sum a})",
    "from t | window rows:-1..1 expanding:false rolling:0 (derive {s = sum a})",
    "from t | take 1 a:(==1) b:(==t.x)",
    "from t | window rows:(==1) range:(==t.x) (derive x = 1)",
    "from t | sort a | derive {x = a, y = a} | select {x, y}",
    "from t | sort a | derive {x = a, y = a} | select {y}",
    "from t | sort {a, b} | derive {x = a, y = a, z = b, w = b} | select {x, y, z, w}",
    "from t | derive {x = a} | sort x | derive {p = x, q = x} | select {p, q}",
    "from t | sort a | derive {x = a} | select {x}",
    "let p = (from t | sort a | select {b})\nfrom p | join p2 = p (p.b == p2.b)",
    "let p = (from t | sort a | select {b})\nfrom q = p | select {q.b} | join p (==b)",
    "let p = (from t | sort a | select {b})\nfrom p | append p | append p",
    "let p = (from t | filter a > 1)\nlet q = (from t | filter a > 2)\nlet r = (from t | filter a > 3)\nfrom p | join q (==a) | join r (==a)",
    "let a1 = (from t | take 1)\nlet a2 = (from a1 | take 2)\nlet a3 = (from a2 | join a1 (==x))\nfrom a3 | join a2 (==x) | join a1 (==y)",
    "let z = (from t1)\nlet y = (from t2)\nlet x = (from t3)\nlet w = (from t4)\nfrom w | join x (==id) | join y (==id) | join z (==id)",
    "from t | join u (==id) | select {id}",
    "from t | join u (==id) | join v (==id) | select {id}",
    "from a | join b (==x) | join c (==x) | join d (==x) | select {x}",
    "from e=employees | join d=departments (==dep_id) | join m=managers (==man_id) | select {e.*, d.*, m.*}",
    "from t | select {t.*} | join u (==id) | select {t.a, u.*} | sort {u.b, t.a} | take 3",
    "prql target:sql.bigquery\nfrom t | select !{a, b, c} | join u (==id) | select !{t.d, u.e}",
    "prql target:sql.duckdb\nfrom t | join u (==id) | select !{t.a, t.b, u.c, u.d}",
    "prql target:sql.snowflake\nfrom t | select !{a, b, c, d, e}",
    "module m {\n let a = 1\n let b = 2\n let c = 3\n}\nfrom t | derive {x = m.a + m.b + m.c}",
    "module m {\n let t1 = (from x)\n let t2 = (from y)\n}\nfrom m.t1 | join m.t2 (==id)",
    "module m {\n module n {\n  let t1 = (from x)\n }\n let t2 = (from n.t1)\n}\nfrom m.t2 | join m.n.t1 (==id)",
    "from t | select {a, b, c} | derive {d = this}",
    # an input sub-module and a directly declared column share a Decl::order (was F10k, fixed by 987d30b)
    "from t | join u (==id) | select {d = 1, t.a, u.b} | select {this.*}",
    "from t | join u (==id) | select {zz = 1, t.a, u.b} | select {this.*}",
    "from t | join u (==id) | join v (==id) | select {d = 1, e = 2, t.a, u.b, v.c} | select {this.*}",
    "from t | join u (==id) | select {d = 1, t.a, u.b} | select {x = this.*}",
    "from t | join u (==id) | select {d = 1, t.a, u.b} | select {this.*} | sort {d} | take 3",
    "let tab = (from t | select {a, b, c, d, e, f})\nfrom tab | select {tab.*}",
    "from t | aggregate {a = sum x, b = sum y, c = sum z} | derive {d = a + b + c}",
    "from t | loop (filter a < 5 | select {a = a + 1, b = b + 1, c = c + 1})",
    "from [{a = 1, b = 2, c = 3, d = 4}] | select {d, c, b, a}",
    "from (from_text format:json \"\"\"[{\"a\": 1, \"b\": 2, \"c\": 3, \"d\": 4}]\"\"\")",
    "from (from_text format:json \"\"\"{\"columns\": [\"a\", \"b\", \"c\"], \"data\": [[1, 2, 3]]}\"\"\")",
    "from t | select {x = 1, y = 2} | filter nope.zz > 1",
    "from t | derive {x1 = a + c, y = zz.a}",
    "from t | join u (t.a == u.b) | derive {k = t.c + u.d, y = zz.a}",
    "from x.y.z | join a.b.c (==id) | select {z.id, c.id}",
    "from t | group {a, b} (aggregate {n = count this}) | join u (==a) | group {u.c} (take 1)",
]


def large_programs():
    """inputs that are big in one dimension (operator chains, nesting, pipeline length, tuple width): whatever guards or caches a
    pass keeps for them must not outlive the call"""
    out = []
    for n in (60, 200):
        out.append("from t | filter (" + " || ".join("a == %d" % i for i in range(n)) + ")")
        out.append("from t | derive {s = " + " + ".join("c%d" % i for i in range(n)) + "}")
    out.append("from t | derive {x = " + "(" * 40 + "a" + " + 1)" * 40 + "}")
    out.append("from t | " + " | ".join("derive {d%d = a + %d}" % (i, i) for i in range(60)))
    out.append("from t | select {" + ", ".join("c%d" % i for i in range(150)) + "}")
    out.append("from t | filter (" + " && ".join("(==c%d)" % i if False else "c%d == null" % i for i in range(90)) + ")")
    return out


def exclusion_programs(rng, n):
    """select !{..} with two or more columns, single and doubled, after from / join / derive"""
    cols = ["a", "b", "c", "d", "e", "f", "last_name", "first_name", "dept", "city"]
    out = []
    for _ in range(n):
        k = rng.choice([2, 3, 4, 5])
        cs = ", ".join(rng.sample(cols, k))
        head = rng.choice(["from t", "from employees", "from t | derive {z = a + 1}", "from t | join u (==id)", "from t | select {t.*}"])
        shape = rng.choice(["select !{%s}", "select !{!{%s}}", "select !{!{%s}} | take 3", "select !{%s} | sort a", "select {t.*} | select !{!{%s}}"])
        tgt = rng.choice(["", "prql target:sql.duckdb\n", "prql target:sql.bigquery\n", "prql target:sql.snowflake\n"])
        out.append(tgt + head + " | " + (shape % cs))
    return out


def keyword_words():
    """words that are reserved in at least one SQL dialect prqlc knows about (read from sql/keywords.rs of the tree
    under test, plus a few standard ones): as identifiers their quoting depends on the dialect"""
    import os as _os
    from ..common import REPO
    words = ["select", "user", "order", "group", "table", "from", "time", "timestamp", "date", "top", "limit", "offset", "window", "rank"]
    try:
        src = open(_os.path.join(REPO, "prqlc/prqlc/src/sql/keywords.rs"), encoding="utf-8").read()
        words += [w.lower() for w in re.findall(r'"([A-Z][A-Z_]{2,})"', src)]
    except OSError:
        pass
    seen, out = set(), []
    for w in words:
        if w not in seen and re.match(r"^[a-z_]+$", w):
            seen.add(w); out.append(w)
    return out


def keyword_programs(rng, n):
    ws = keyword_words()
    out = []
    for _ in range(n):
        a, b, c, d = rng.sample(ws, 4)
        out.append(rng.choice([
            "from events | select {id, `%s`, `%s`, `%s`}" % (a, b, c),
            "from `%s` | derive {`%s` = `%s` + 1} | filter `%s` > 0" % (a, b, c, d),
            "from t | join `%s` (==id) | select {t.id, `%s`.`%s`}" % (a, a, b),
            "let `%s` = (from t | select {`%s`, `%s`})\nfrom `%s` | sort `%s`" % (a, b, c, a, b),
        ]))
    return out

# programs that make the back end generate names (table_N for split pipelines, _expr_N for unnamed columns, clashes with
# user names spelled like generated ones)
NAMEGEN_PROGRAMS = [
    "from t | select {a, b + 1} | take 3 | filter a > 1",
    "from t | take 3 | filter a > 1 | take 5 | filter b > 2 | take 7",
    "from t | select {a + 1, b + 2, c + 3} | take 2 | select {this.*}",
    "from table_0 | take 3 | filter a > 1",
    "from t | select {_expr_0 = a, b + 1} | take 3 | filter b > 1",
    "from t | join u (==id) | take 3 | join v (==id) | take 4 | filter t.a > 1",
    "let table_1 = (from t | take 2)\nfrom table_1 | take 3 | filter a > 1 | take 4",
    "from t | group a (take 2) | take 3 | filter a > 1",
    "from t | append u | take 3 | filter a > 1",
    "from t | loop (filter a < 5 | select {a = a + 1}) | take 3",
]

# multi-file projects: [path, content]
PROJECTS = {
    "mods-ok": [["Project.prql", "from a.x | join b.y (==id) | select {x.id, y.v}"], ["a.prql", "let x = (from ta | filter id > 2)\nlet z = 1"], ["b.prql", "let y = (from tb | select {id, v})\nlet k = 5"]],
    "mods-cross-ref": [["Project.prql", "from a.x | join b.y (==id) | select {x.id, y.v}"], ["a.prql", "let x = (from ta | filter id > b.k)\nlet z = 1"], ["b.prql", "let y = (from tb | select {id, v})\nlet k = 5"]],
    "resolve-error": [["Project.prql", "from a.x | filter nope > 1"], ["a.prql", "let x = (from ta)"], ["b.prql", "let y = (from tb)"]],
    "two-parse-errors": [["Project.prql", "from a.x"], ["a.prql", "let x = (from ta | derive {v = w +})"], ["b.prql", "let y = (from tb | derive {v = w +})"]],
    "nested": [["Project.prql", "from m.x | join m.sub.y (==id)"], ["m.prql", "let x = (from t)"], ["m/sub.prql", "let y = (from u)"]],
    "four": [["Project.prql", "from a.p | join b.q (==k) | join c.r (==k) | select {p.k}"], ["a.prql", "let p = (from t1)"], ["b.prql", "let q = (from t2)"], ["c.prql", "let r = (from t3 | sort k | take 4)"]],
    "no-root": [["a.prql", "let x = 1"], ["b.prql", "let y = 2"]],
    "two-roots": [["Main.prql", "from t1"], ["Other.prql", "from t2"], ["c.prql", "let q = 1"]],
}


# ------------------------------------------------------------------ running the harness with a timeout

def _batch(args):
    cmd, lines, timeout = args
    try:
        p = subprocess.run([HARNESS_BIN, cmd], input="\n".join(lines) + "\n", capture_output=True, text=True, timeout=timeout)
    except subprocess.TimeoutExpired:
        return [{"hang": True}] * len(lines)
    outs = [l for l in p.stdout.split("\n") if l.strip()]
    res = []
    for k in range(len(lines)):
        if k < len(outs):
            try:
                res.append(json.loads(outs[k]))
            except ValueError:
                res.append({"garbled": outs[k][:200]})
        else:
            res.append({"abort": p.returncode, "stderr": p.stderr[-300:]})
    return res


def run_procs(cmd, batches, timeout=120):
    """batches: list of request lists; ONE PROCESS PER BATCH.  Returns list of answer lists."""
    harness_build()
    jobs = [(cmd, [json.dumps(r) for r in b], timeout) for b in batches]
    with cf.ThreadPoolExecutor(max_workers=NPROC) as ex:
        return list(ex.map(_batch, jobs))


# ------------------------------------------------------------------ classification of order-dependent outputs

NAMED_ARG = re.compile(r"(?<![\w.:])([A-Za-z_]\w*):(?!:)")


def named_arg_count(src):
    """largest number of `name:` tokens on one line that does not start with `prql` (approximation of 'a call
    with that many named arguments')"""
    best = 0
    for line in src.split("\n"):
        if line.strip().startswith("prql "):
            continue
        line = re.sub(r'"[^"]*"', '""', line)
        best = max(best, len(NAMED_ARG.findall(line)))
    return best


def header_extra_args(src):
    m = re.match(r"\s*prql\s+(.*)", src.split("\n")[0])
    if not m:
        return 0
    return len([a for a in NAMED_ARG.findall(re.sub(r'"[^"]*"', '""', m.group(1))) if a not in ("version", "target")])


def dup_alias(src):
    """two names assigned the same plain column in one tuple: {x = a, y = a}"""
    pairs = re.findall(r"\b([A-Za-z_]\w*)\s*=\s*([A-Za-z_][\w.]*)\s*(?=[,}\n|])", src)
    rhs = [r for _, r in pairs]
    return any(rhs.count(r) >= 2 for r in rhs)


def cte_used_twice_with_sort(src):
    for m in re.finditer(r"let\s+(\w+)\s*=\s*\(([^\n]*)\)", src):
        name, body = m.group(1), m.group(2)
        if "sort" in body and len(re.findall(r"\b%s\b" % re.escape(name), src[m.end():])) >= 2:
            return True
    return False


def strip_final_order_by(sql):
    sql = re.sub(r"\s+", " ", sql).strip()
    return re.sub(r" ORDER BY [^()]*?(?= LIMIT| OFFSET| -- Generated by|$)", "", sql)


def sort_available_columns(v):
    """the variant with the names of every `available columns: a, b, c` hint (also inside `display`) sorted"""
    def fix(m):
        return m.group(1) + ", ".join(sorted(x.strip() for x in m.group(2).split(",")))
    v = json.loads(json.dumps(v))
    for e in v.get("err", []) if isinstance(v, dict) else []:
        e["hints"] = [re.sub(r"^(available columns: )(.*)$", fix, h) for h in e.get("hints", [])]
        if isinstance(e.get("display"), str):
            e["display"] = re.sub(r"(available columns: )([^\n]*)", fix, e["display"])
    return json.dumps(v, sort_keys=True)


def reasons(v):
    return [e.get("reason", "") for e in v.get("err", [])] if isinstance(v, dict) and "err" in v else None


def classify_variation(src, comp, variants):
    """variants: list of decoded outputs (dicts) that differ for the same (source, options).  Returns finding id or None."""
    rs = [reasons(v) for v in variants]
    if comp in ("sql", "rq") and all(r is not None and len(r) == 1 for r in rs):
        one = [r[0] for r in rs]
        if named_arg_count(src) >= 2 and all(re.match(r"unknown named argument `[^`]+` to closure ", x) for x in one) \
                and len({re.sub(r"`[^`]+`", "`_`", x, count=1) for x in one}) == 1:
            return "F10-unknown-named-arg-choice"
        if header_extra_args(src) >= 2 and all(x.startswith("unknown query definition arguments ") for x in one) \
                and len({tuple(sorted(re.findall(r"`[^`]+`", x))) for x in one}) == 1:
            return "F10b-querydef-unknown-args-order"
        expand_errs = {"self-equality operator requires a column name", "self-equality operator does not support namespace prefix"}
        if named_arg_count(src) >= 2 and set(one) <= expand_errs:
            return "F10e-named-args-first-error"
    if comp in ("sql", "rq") and all(r is not None for r in rs) and any("available columns: " in json.dumps(v) for v in variants):
        if len({sort_available_columns(v) for v in variants}) == 1:
            return "F10i-available-columns-hint-order"
    if comp == "fmt" and named_arg_count(src) >= 2:
        texts = [v.get("ok") for v in variants]
        if all(isinstance(t, str) for t in texts) and len({"".join(sorted(t)) for t in texts}) == 1:
            return "F10c-formatter-named-args-order"
    if comp == "sql":
        oks = [v["ok"] for v in variants if isinstance(v, dict) and "ok" in v]
        others = [v for v in variants if not (isinstance(v, dict) and "ok" in v)]
        same_modulo_order_by = len({strip_final_order_by(s) for s in oks}) <= 1
        panics_ok = all(isinstance(v, dict) and "panic" in v and "name of this column has not been to be set" in v["panic"].get("msg", "") for v in others)
        if oks and same_modulo_order_by and panics_ok:
            if "sort" in src and dup_alias(src):
                return "F10d-sort-alias-choice"
            if cte_used_twice_with_sort(src) and not others:
                return "F10f-cte-instance-choice"
    return None


def uppercase_roots(files):
    return [p for p, _ in files if os.path.basename(p)[:1].isupper()]


# ------------------------------------------------------------------ observations

class Obs:
    """all outputs observed for one (source, options), per component, with where they were seen"""
    def __init__(self):
        self.d = {}

    def add(self, req, out, where):
        key = json.dumps(req, sort_keys=True)
        if not isinstance(out, dict):
            out = {"sql": out}
        for comp in ("sql", "rq", "fmt"):
            if comp in out:
                self.d.setdefault(key, {}).setdefault(comp, {}).setdefault(json.dumps(out[comp], sort_keys=True), set()).add(where)
        for bad in ("hang", "abort", "garbled", "bad_cmd"):
            if bad in out:
                self.d.setdefault(key, {}).setdefault("sql", {}).setdefault(json.dumps({bad: out[bad]}), set()).add(where)


def canon_tree_out(o, files):
    """rename source ids (index in insertion order) to paths in spans and in the RQ JSON"""
    idmap = {i + 1: p for i, (p, _) in enumerate(files)}
    o = json.loads(json.dumps(o))
    r = o.get("out", o)
    if isinstance(r, dict):
        if isinstance(r.get("rq"), str):
            r["rq"] = re.sub(r'"span":"(\d+):', lambda m: '"span":"<%s>:' % idmap.get(int(m.group(1)), "?" + m.group(1)), r["rq"])
        rr = r.get("r")
        if isinstance(rr, dict):
            for e in rr.get("err", []):
                if isinstance(e.get("span"), dict):
                    e["span"]["source_id"] = "<%s>" % idmap.get(e["span"].get("source_id"), "?")
    return o


def replay(path):
    """./check C11 --replay file : re-run one recorded case (40 repetitions in each of 8 fresh processes)"""
    import sys
    d = json.load(open(path))
    case = d.get("replay", d)
    if "files" in case:
        perms = list(itertools.permutations(case["files"]))[:24]
        reqs = [{"files": [list(f) for f in pm], "format": False, "sig": False} for pm in perms] * 4
        outs = {}
        for b, ans in zip([reqs[i::8] for i in range(8)], run_procs("c11_tree", [reqs[i::8] for i in range(8)])):
            for r, a in zip(b, ans):
                outs.setdefault(json.dumps(canon_tree_out(a, r["files"]), sort_keys=True), 0)
                outs[json.dumps(canon_tree_out(a, r["files"]), sort_keys=True)] += 1
        print(json.dumps({"variants": [{"n": n, "output": o[:500]} for o, n in outs.items()]}, indent=1))
        print("REPRODUCED" if len(outs) > 1 else "NOT REPRODUCED"); sys.exit(0)
    if "steps" in case or "history" in case:
        steps = case.get("steps") or case.get("history")
        ans = run_procs("c11_hist", [[{"steps": steps}]])[0][0]
        print(json.dumps(ans, indent=1)[:3000]); sys.exit(0)
    src = case.get("src")
    if src is None:
        print("replay file names a broken obligation, not an input: %s" % json.dumps(case)[:600]); sys.exit(1)
    rq_ = dict(case.get("options") or {}, src=src)
    rq_.setdefault("format", False); rq_.setdefault("sig", False)
    obs = Obs()
    for pi, ans in enumerate(run_procs("c11_rep", [[{"req": rq_, "n": 40}] for _ in range(8)])):
        for o in ans[0].get("outs", []):
            obs.add(rq_, o, "p%d" % pi)
    rep = False
    for key, comps in obs.d.items():
        for comp, variants in comps.items():
            print("%s: %d variant(s)" % (comp, len(variants)))
            if len(variants) > 1:
                rep = True
                dec = [json.loads(v) for v in variants]
                for v in dec[:6]:
                    print("    " + json.dumps(v)[:400])
                print("    class: %s" % classify_variation(src, comp, dec))
    print("REPRODUCED" if rep else "NOT REPRODUCED")
    sys.exit(0)


def run():
    if os.environ.get("VERIF_REPLAY"):
        return replay(os.environ["VERIF_REPLAY"])
    ck = Check("C11", level="proof")
    info = gen_sites_state.generate()
    # the Coq table must be the one derived from the python table (one source of truth)
    try:
        in_sync = open(c11_sites.path()).read() == c11_sites.coq_text()
    except OSError:
        in_sync = False
    pr = ck.prove()
    if "error" in info:
        ck.coverage["translator_error"] = info["error"]
    else:
        known = {(a, b, c) for a, b, c, *_ in c11_sites.SITES}
        rows = set(info["rows"])
        ck.coverage["inventory"] = {"files_scanned": info["files"], "rows": len(rows),
                                    "by_kind": {k: sum(1 for r in rows if r[1] == k) for k in sorted({r[1] for r in rows})},
                                    "unknown_rows": sorted(" | ".join(r) for r in rows - known),
                                    "vanished_rows": sorted(" | ".join(r) for r in known - rows),
                                    "dispositions": {d: sum(1 for s in c11_sites.SITES if s[3].split(":")[0] == d) for d in sorted({s[3].split(":")[0] for s in c11_sites.SITES})}}
    if not in_sync:
        ck.violation("coq/Model/PermSites.v is not the table of vplib/props/c11_sites.py (run python3 -m vplib.props.c11_sites)", {"kind": "table-out-of-sync"}, no_input=True)

    # ------------------------------------------------------------------ inputs
    nrand = ck.n(60, 500)
    progs = []
    kwprogs = keyword_programs(ck.rng, ck.n(12, 60))
    large = large_programs()
    for p in TARGETED + large + exclusion_programs(ck.rng, ck.n(16, 80)) + kwprogs + COVER + list(POOL) + ERRORS + PANICKERS + [random_program(ck.rng) for _ in range(nrand)]:
        if p not in progs:
            progs.append(p)
    targets = [None, "sql.postgres", "sql.mssql"]
    reqs = []
    for i, p in enumerate(progs):
        reqs.append({"src": p, "format": False, "sig": False})
        if i % 5 == 0:
            reqs.append({"src": p, "format": True, "sig": True, "target": targets[(i // 5) % 3]})
    ck.coverage["inputs"] = {"programs": len(progs), "requests": len(reqs), "targeted": len(TARGETED), "random": nrand,
                             "with_two_or_more_named_args": sum(1 for p in progs if named_arg_count(p) >= 2),
                             "with_let_tables": sum(1 for p in progs if "let " in p), "with_join": sum(1 for p in progs if "join" in p),
                             "with_module": sum(1 for p in progs if "module " in p)}
    obs = Obs()

    # ------------------------------------------------------------------ 1. fresh processes x repeated compiles (hash seeds)
    nproc = ck.n(8, 24)
    nrep = ck.n(4, 10)
    batches = [[{"req": r, "n": nrep} for r in reqs] for _ in range(nproc)]
    for pi, answers in enumerate(run_procs("c11_rep", batches, timeout=600)):
        for r, a in zip(reqs, answers):
            outs = a.get("outs") if isinstance(a, dict) else None
            if outs is None:
                obs.add(r, a, "fresh-process-%d" % pi)
                continue
            for o in outs:
                ck.count("hash-seeds", json.dumps(r, sort_keys=True), nontrivial=True)
                obs.add(r, o, "fresh-process-%d" % pi)
    ck.coverage["hash_seed_sampling"] = {"processes": nproc, "repeats_per_process": nrep}

    # ------------------------------------------------------------------ 2. histories: Ok / Err / panic before the observed call
    nhist = ck.n(48, 300)
    hbatches = []
    for h in range(nhist):
        steps = []
        for _ in range(ck.rng.choice([3, 5, 8])):
            k = ck.rng.random()
            if k < 0.25:
                steps.append({"src": ck.rng.choice(PANICKERS), "format": False, "sig": False})
            else:
                steps.append(ck.rng.choice(reqs))
        steps += [ck.rng.choice(reqs) for _ in range(4)]
        hbatches.append([{"steps": steps}])
    # error-soak histories: ONE failing (or large) request repeated many times on the same thread, then valid requests, then the
    # failing one again -- state that a failing call leaves behind (a guard not restored on the error path, a cache filled half
    # way) only shows after enough failures; every step is judged against all other observations of the same request
    failing = [r for r in reqs if r["src"] in ERRORS or r["src"] in PANICKERS or r["src"] in large
               or any(w in r["src"] for w in ("(==1)", "(==t.x)", "foo:", "nope", "zz.a"))]
    valid = [r for r in reqs if r["src"] in COVER or r["src"] in list(POOL)[:40]]
    nsoak = ck.n(50, 150)
    for e_ in ck.rng.sample(failing, min(len(failing), ck.n(20, 90))):
        steps = [e_] * nsoak + [ck.rng.choice(valid) for _ in range(3)] + [e_] + [{"src": large[0], "format": False, "sig": False}, ck.rng.choice(valid)]
        hbatches.append([{"steps": steps}])
    ck.coverage["error_soak_histories"] = {"failing_or_large_requests": len(failing), "repetitions": nsoak}
    dialects = ["sql." + d for d in ("ansi", "bigquery", "clickhouse", "duckdb", "generic", "glaredb", "mssql", "mysql", "postgres", "redshift", "sqlite", "snowflake")]
    sweep_srcs = kwprogs + [r["src"] for r in ck.rng.sample(reqs, min(len(reqs), ck.n(12, 60)))]
    for src in sweep_srcs:
        for rep in range(2):
            order = dialects[:]
            ck.rng.shuffle(order)
            steps = [{"src": src, "format": False, "sig": False, "target": d} for d in order]
            steps += [{"src": src, "format": False, "sig": False, "target": d} for d in ck.rng.sample(dialects, 4)]
            hbatches.append([{"steps": steps}])
    ck.coverage["dialect_sweep_histories"] = {"sources": len(sweep_srcs), "dialects": len(dialects), "orders_per_source": 2}
    for hi, answers in enumerate(run_procs("c11_hist", hbatches, timeout=300)):
        steps = hbatches[hi][0]["steps"]
        a = answers[0]
        outs = a.get("outs") if isinstance(a, dict) else None
        if outs is None:
            ck.count("histories", "h%d" % hi)
            ck.violation("a history of compilations hangs or aborts the process", {"steps": steps, "got": a})
            continue
        prev = "start"
        for st, o in zip(steps, outs):
            ck.count("histories", json.dumps([prev, st], sort_keys=True))
            kind = "panic" if "panic" in json.dumps(o.get("sql", ""))[:12] else "err" if "err" in o.get("sql", {}) else "ok"
            ck.stat("histories", "after-" + prev)
            obs.add(st, o, "history-%d(after %s)" % (hi, prev))
            prev = kind

    # ------------------------------------------------------------------ 3. 16 threads at once (with and without the debug log)
    npar = ck.n(12, 60)
    pbatches = []
    for k in range(npar):
        sel = [ck.rng.choice(reqs) for _ in range(16)]
        if k % 3 == 0:
            sel = [sel[0]] * 16     # the same request from every thread
        pbatches.append([{"n": 16, "m": 2, "reqs": sel, "with_log": k % 2 == 1}])
    for k, answers in enumerate(run_procs("c11_par", pbatches, timeout=300)):
        b = pbatches[k][0]
        a = answers[0]
        outs = a.get("outs") if isinstance(a, dict) else None
        if outs is None:
            ck.count("threads", "p%d" % k)
            ck.violation("16 concurrent compilations hang or abort the process", {"reqs": b["reqs"], "with_log": b["with_log"], "got": a})
            continue
        for i, per_thread in enumerate(outs):
            for o in per_thread:
                ck.count("threads", json.dumps([k, i], sort_keys=True))
                ck.stat("threads", "with_log" if b["with_log"] else "no_log")
                obs.add(b["reqs"][i % len(b["reqs"])], o, "threads-%d%s" % (k, "+log" if b["with_log"] else ""))

    # ------------------------------------------------------------------ 4. debug log active vs not (same process)
    lreqs = [r for i, r in enumerate(reqs) if i % ck.n(4, 1) == 0]
    groups = [lreqs[i::NPROC] for i in range(NPROC)]
    for g, answers in zip(groups, run_procs("c11_log", groups, timeout=600)):
        for r, a in zip(g, answers):
            ck.count("debug-log", json.dumps(r, sort_keys=True))
            if not isinstance(a, dict) or "plain" not in a:
                ck.violation("compilation with the debug log active hangs or aborts", {"req": r, "got": a}); continue
            for w in ("plain", "logged", "after"):
                obs.add(r, a[w], "debug-log:" + w)
            ck.stat("debug-log", "entries>0" if (a.get("log_entries") or 0) > 0 else "entries=0")

    # ------------------------------------------------------------------ judge every (source, options)
    for key, comps in obs.d.items():
        req = json.loads(key)
        for comp, variants in comps.items():
            if len(variants) <= 1:
                continue
            decoded = [json.loads(v) for v in variants]
            case = {"src": req.get("src"), "options": {k: v for k, v in req.items() if k != "src"}, "component": comp,
                    "variants": [{"output": json.dumps(d)[:700], "seen_in": sorted(w)[:4]} for d, w in zip(decoded, variants.values())][:6]}
            ck.disagreement("%s of the same source and options differs between calls (%d variants)" % (comp.upper(), len(variants)), case,
                            lambda c, s=req.get("src", ""), cp=comp, dv=decoded: classify_variation(s, cp, dv))
    ck.coverage["distinct_requests_observed"] = len(obs.d)
    ck.coverage["requests_with_variation"] = sum(1 for c in obs.d.values() if any(len(v) > 1 for v in c.values()))

    # ------------------------------------------------------------------ 5. multi-file projects, permuted insertion order
    treqs, tmeta = [], []
    for name, files in PROJECTS.items():
        perms = list(itertools.permutations(files))
        if len(perms) > 24:
            perms = ck.rng.sample(perms, 24)
        for pm in perms:
            for ui in (False, True):
                for rep in range(ck.n(2, 6)):
                    treqs.append({"files": [list(f) for f in pm], "format": False, "sig": False, "use_insert": ui})
                    tmeta.append(name)
    tans = run_procs("c11_tree", [treqs[i::NPROC] for i in range(NPROC)], timeout=600)
    flat = {}
    for i in range(NPROC):
        for r, a in zip(treqs[i::NPROC], tans[i]):
            flat[id(r)] = a
    per_project = {}
    for r, name in zip(treqs, tmeta):
        a = flat[id(r)]
        ck.count("source-trees", json.dumps(r, sort_keys=True))
        canon = json.dumps(canon_tree_out(a, r["files"]), sort_keys=True)
        per_project.setdefault(name, {}).setdefault(canon, []).append([f[0] for f in r["files"]])
    for name, variants in per_project.items():
        ck.stat("source-trees", "%s:%d-variant(s)" % (name, len(variants)))
        if len(variants) > 1:
            files = PROJECTS[name]
            case = {"project": name, "files": files, "variants": [{"output": v[:500], "orders": o[:3]} for v, o in list(variants.items())[:4]]}
            ck.disagreement("a multi-file project compiles differently depending on enumeration order / hash seed (%d variants)" % len(variants), case,
                            lambda c, f=files: "F10g-two-uppercase-root-candidates" if len(uppercase_roots(f)) >= 2 else None)

    # ------------------------------------------------------------------ 6. the debug API inside histories (F10h) and the env var
    r_ok = {"src": "from t | take 3", "format": False, "sig": False, "only_sql": True}
    scen = {
        "log-restart": [{"do": "log_start"}, {"do": "log_start"}, r_ok],
        "log-after-panic": [{"do": "log_start"}, {"src": PANICKERS[0], "format": False, "sig": False, "only_sql": True}, {"do": "log_finish"}, {"do": "log_start"}, r_ok, {"do": "log_finish"}, r_ok],
        "log-normal": [{"do": "log_start"}, r_ok, {"do": "log_finish"}, r_ok],
        "env-roundtrip": [dict(r_ok, sig=True), {"do": "set_env", "key": "PRQL_VERSION_OVERRIDE", "value": "9.9.9"}, dict(r_ok, sig=True), {"do": "unset_env", "key": "PRQL_VERSION_OVERRIDE"}, dict(r_ok, sig=True)],
    }
    # search mode: an environment variable the model does not know about is read somewhere -> try values
    unknown_env = []
    if "error" not in info:
        for f_, k_, i_ in sorted(set(info["rows"]) - {(a, b, c) for a, b, c, *_ in c11_sites.SITES}):
            m_ = re.search(r"\(([A-Za-z_][A-Za-z0-9_]*)\)$", i_)
            if k_ == "env" and m_:
                unknown_env.append(m_.group(1))
    for var in unknown_env:
        for val in ("1", "true", "postgres", "sqlite", "mssql", "0.0.1", "x"):
            scen["env-search:%s=%s" % (var, val)] = [r_ok, {"do": "set_env", "key": var, "value": val}, r_ok,
                                                     {"src": "from t | take 2..5 | derive {s = f\"{a}x\"}", "format": False, "sig": False, "only_sql": True}]
    sans = run_procs("c11_hist", [[{"steps": s}] for s in scen.values()], timeout=120)
    fresh = run_procs("c11_out", [[r_ok], [dict(r_ok, sig=True)]], timeout=120)
    ref_plain, ref_sig = fresh[0][0], fresh[1][0]
    for (name, steps), answers in zip(scen.items(), sans):
        ck.count("api-histories", name)
        outs = answers[0].get("outs") if isinstance(answers[0], dict) else None
        if outs is None:
            ck.violation("history %s hangs or aborts" % name, {"steps": steps, "got": answers[0]}); continue
        if name == "log-restart":
            last = outs[-1]
            if last != ref_plain or any("panic" in json.dumps(o)[:40] for o in outs):
                ck.disagreement("after debug::log_start was called while a log was active, compile() no longer works",
                                {"history": steps, "got": outs, "fresh": ref_plain, "kind": "log-restart"},
                                lambda c: "F10h-debug-log-restart-poisons-lock" if "PoisonError" in json.dumps(c["got"]) else None)
        elif name in ("log-after-panic", "log-normal"):
            for st, o in zip(steps, outs):
                if st is r_ok and o != ref_plain:
                    ck.violation("compile() result depends on an earlier, properly finished debug log session", {"history": steps, "got": o, "fresh": ref_plain})
        elif name.startswith("env-search:"):
            if outs[0] != outs[2]:
                ck.violation("compile() output depends on the environment variable %s" % name[11:], {"history": steps, "before": outs[0], "after": outs[2]})
        elif name == "env-roundtrip":
            first, mid, last = outs[0], outs[2], outs[4]
            ck.coverage["env_dependence"] = {"signature_changes_with_PRQL_VERSION_OVERRIDE": first != mid, "restored_after_unset": first == last}
            if first != ref_sig or first != last:
                ck.violation("compile() keeps state from an earlier PRQL_VERSION_OVERRIDE", {"history": steps, "outs": outs, "fresh": ref_sig})

    # the debug API used concurrently with a compilation (was F10j, fixed by 2f50a3c: nothing is classified any more,
    # a poisoned lock or a panic during the race is a VIOLATION)
    race = {"src": "from t | take 3", "format": False, "sig": False, "only_sql": True, "compiles": 60, "restarts": 20000}
    for k, ans in enumerate(run_procs("c11_lograce", [[race] for _ in range(ck.n(2, 6))], timeout=300)):
        a = ans[0]
        ck.count("api-concurrent", "race-%d" % k)
        if not isinstance(a, dict) or "after" not in a:
            ck.violation("concurrent log restart hangs or aborts the process", {"req": race, "got": a}); continue
        ck.stat("api-concurrent", "poisoned" if a["after"] != a["before"] else "survived")
        if a["after"] != a["before"] or a.get("panics_during"):
            ck.violation("restarting the debug log while another thread compiles breaks compile() for the rest of the process",
                         {"req": race, "got": a, "kind": "log-race"})

    # ------------------------------------------------------------------ 7. generated-name state per call (hooks namegen-sites 44c332e, pq-names d5c1b7e, namegen-state 123c8b6)
    # Every call of the name generators (`table_N`, `_expr_N`: sites anchor_split / assign_names / relvar, with what was already
    # used and the generator state before / after) and the final name tables of the PQ context (verif:pq-names) must be a
    # function of the call's input alone: the same lines, in the same order, whatever was compiled before on the thread and
    # whatever 15 other threads compile at the same time.  The lines are collected by harness/src/bin/c11names.rs, whose logger
    # keeps them in a thread-local buffer: every line is attributed to the call that emitted it (the process-global debug log
    # cannot do that: its suppression counter drops the lines of other threads while one call loads std).
    names_bin = os.path.join(os.path.dirname(HARNESS_BIN), "c11names")

    def run_names(batches, timeout=300):
        harness_build()
        def one(lines):
            try:
                pr = subprocess.run([names_bin], input="\n".join(json.dumps(x) for x in lines) + "\n", capture_output=True, text=True, timeout=timeout)
            except (subprocess.TimeoutExpired, OSError) as ex:
                return [{"hang": str(ex)[:100]}] * len(lines)
            outs = [l for l in pr.stdout.split("\n") if l.strip()]
            res = []
            for k in range(len(lines)):
                try:
                    res.append(json.loads(outs[k]))
                except (IndexError, ValueError):
                    res.append({"abort": pr.returncode, "stderr": pr.stderr[-300:]})
            return res
        with cf.ThreadPoolExecutor(max_workers=NPROC) as ex:
            return list(ex.map(one, batches))

    nreq = [r for r in reqs if not r.get("format")]
    nsel = [dict(r) for r in ck.rng.sample(nreq, min(len(nreq), ck.n(48, 300)))]
    nsel += [{"src": p, "format": False, "sig": False} for p in NAMEGEN_PROGRAMS]
    ref = {}
    alone = run_names([[{"steps": [r]}] for r in nsel])
    for r, ans in zip(nsel, alone):
        a = ans[0]
        st_ = (a.get("steps") or [None])[0] if isinstance(a, dict) else None
        if st_ is None:
            ck.violation("c11names: a compilation hangs or aborts", {"req": r, "got": a}); continue
        ref[json.dumps(r, sort_keys=True)] = st_
        ck.count("generated-names", json.dumps(["alone", r], sort_keys=True))
    total_lines = sum(len(v["names"]) for v in ref.values())
    ck.coverage["generated_names"] = {"requests": len(ref), "hook_lines_alone": total_lines,
                                      "requests_that_draw_a_name": sum(1 for v in ref.values() if any("verif:namegen-draw" in l or '"old":null' in l for l in v["names"]))}
    if ref and total_lines == 0:
        ck.violation("the tree under test emits no `verif:namegen` / `verif:pq-names` lines (hooks 44c332e / d5c1b7e missing, or harness built without cfg(prqlc_verif)): generated-name state cannot be observed",
                     {"kind": "hook-missing"}, no_input=True)
    keys = list(ref)

    def first_diff(x, y):
        for i_, (p_, q_) in enumerate(zip(x, y)):
            if p_ != q_:
                return {"index": i_, "here": p_[:300], "alone": q_[:300]}
        return {"lines_here": len(x), "lines_alone": len(y)}

    # histories on one thread
    hb = []
    for h in range(ck.n(24, 120)):
        steps = []
        for _ in range(ck.rng.choice([4, 7, 10])):
            steps.append({"src": ck.rng.choice(PANICKERS), "format": False, "sig": False} if ck.rng.random() < 0.15 else json.loads(ck.rng.choice(keys)))
        hb.append([{"steps": steps}])
    for b, ans in zip(hb, run_names(hb)):
        a = ans[0]
        got = a.get("steps") if isinstance(a, dict) else None
        if got is None:
            ck.violation("c11names: a history hangs or aborts", {"steps": b[0]["steps"], "got": a}); continue
        prev = "start"
        for st_, g_ in zip(b[0]["steps"], got):
            k = json.dumps(st_, sort_keys=True)
            ck.count("generated-names", json.dumps(["history", prev, st_], sort_keys=True))
            if k in ref:
                ck.stat("generated-names", "history-step:" + ("same" if g_ == ref[k] else "DIFFERENT"))
                if g_ != ref[k]:
                    ck.violation("the names generated for a compilation depend on what was compiled before on the thread",
                                 {"src": st_.get("src"), "history": b[0]["steps"], "after": prev, "first_difference": first_diff(g_["names"], ref[k]["names"]),
                                  "result_here": g_["r"], "result_alone": ref[k]["r"]})
            prev = "panic" if "panic" in g_.get("r", {}) else "err" if "err" in g_.get("r", {}) else "ok"
    # 16 threads at once, every call attributed exactly
    pb = []
    for k_ in range(ck.n(12, 40)):
        sel = [json.loads(ck.rng.choice(keys)) for _ in range(16)]
        if k_ % 3 == 0:
            sel = [sel[0]] * 16
        pb.append([{"par": {"n": 16, "m": 3, "reqs": sel}}])
    for b, ans in zip(pb, run_names(pb)):
        a = ans[0]
        par = b[0]["par"]
        if not isinstance(a, dict) or "threads" not in a:
            ck.violation("c11names: 16 concurrent compilations hang or abort", {"req": par, "got": a}); continue
        for i_, calls in enumerate(a["threads"]):
            r = par["reqs"][i_ % len(par["reqs"])]
            want = ref[json.dumps(r, sort_keys=True)]
            for j_, g_ in enumerate(calls):
                ck.count("generated-names", json.dumps(["threads", par["reqs"], i_, j_], sort_keys=True))
                ck.stat("generated-names", "thread-call:" + ("same" if g_ == want else "DIFFERENT"))
                if g_ != want:
                    ck.violation("the names generated for a compilation depend on what other threads compile at the same time (or on earlier calls of the thread)",
                                 {"src": r.get("src"), "thread": i_, "call": j_, "reqs": par["reqs"], "first_difference": first_diff(g_["names"], want["names"]),
                                  "result_here": g_["r"], "result_alone": want["r"]})

    # ------------------------------------------------------------------ 8. the stack of the calling thread (an environment dependence that C12 owns)
    # Deep or long inputs overflow a small stack and ABORT the process (no depth guard between parser and SQL generation: finding
    # F8-stack-exhaustion of C12, thresholds per stack size recorded there).  The result of compile() therefore depends on the
    # stack of the thread it is called on; every thread stream of this check gives its workers 256 MiB so that the dependence does
    # not mask what C11 is about.  Recorded here (not judged): what the largest generated input does on a default 2 MiB thread.
    probe = {"src": large[1] if len(large) > 1 else large[0], "format": False, "sig": False}
    big = [x for x in large if x.count("||") >= 150] or [probe["src"]]
    probe["src"] = big[0]
    res_ = {}
    for mb in (2, 256):
        a = run_names([[{"par": {"n": 1, "m": 1, "reqs": [probe], "stack_mb": mb}}]], timeout=120)[0][0]
        if isinstance(a, dict) and "threads" in a:
            r_ = a["threads"][0][0]["r"]
            res_["%dMiB" % mb] = "ok" if "ok" in r_ else "err" if "err" in r_ else "panic"
        else:
            res_["%dMiB" % mb] = "abort(rc=%s)" % (a.get("abort") if isinstance(a, dict) else "?")
    ck.coverage["stack_dependence_probe"] = {"input": "%d-term `||` chain" % (probe["src"].count("||") + 1), "result_by_thread_stack": res_,
                                             "owner": "C12 F8-stack-exhaustion (known_findings.d/C12.json); C11 assumes a sufficient stack"}
    ck.count("stack-probe", json.dumps(res_, sort_keys=True))
    if res_.get("256MiB") != "ok":
        ck.violation("the large input does not compile even on a 256 MiB thread stack", {"src": probe["src"][:200], "got": res_})

    ck.proof_broken_violation(found_input=any(not ni for _, _, ni in ck.violations))
    ck.assumptions += [
        "category partial: hash seeds and thread schedules are sampled, not enumerated",
        "PRQL_VERSION_OVERRIDE is constant while compilations run (its effect on the signature comment and on `prql version:` checks is by design)",
        "multi-file outputs are compared after renaming span source ids to file paths",
        "the calling thread has a sufficient stack: on a small one (2 MiB, the default of a spawned thread) long inputs abort the process -- an environment dependence of the result recorded as C12's F8-stack-exhaustion, probed and reported in coverage.stack_dependence_probe, not judged here",
        "PL JSON (json::from_pl) is not byte-compared: it serialises the named_args HashMap in iteration order (same root cause as F10c)",
    ]
    ck.finish(TRUSTED, "a case is one observed output of (source, options) in a context (fresh process / repetition, history step, thread, debug-log phase, file order); non-trivial = distinct (context kind, request); outputs of one request are compared across ALL contexts")

"""C02 -- operator precedence, associativity, null and literal folding survive to SQL."""
import json
import os
import re
from fractions import Fraction

from ..common import Check, coq_eval, harness, harness1
from ..translate import gen_pratt, gen_doc_prec, gen_sql_strength, gen_std_sql, gen_expand, gen_dialect_feat, gen_date_format
from . import c02_gen as G

TRUSTED = [
    "Coq 8.16.1 kernel (coqc, vm_compute); no axioms: every theorem is 'Closed under the global context'",
    "translators vplib/translate/gen_{pratt,doc_prec,sql_strength,std_sql,expand}.py (regex/brace scanners over expr.rs, ops.rs, operators.md, gen_expr.rs, operators.rs, ast_expand.rs; std.sql.prql through prqlc's own parser; fail closed; Rust sources are read with every #[cfg(prqlc_verif)] item blanked -- c02_util.strip_verif). The template skeletons they emit are re-checked in Coq (template_wf: the skeleton renders to exactly the template text)",
    "hand-modelled algorithms tied to the source by exact text (needs_parentheses, translate_operand, translate_binary_operator, process_null, try_into_between, translate_operator, static_eval_rq_operator, static_eval_case, the `in` desugaring, the Normalizer): any edit breaks the tie",
    "Model/DateFormat.v parse_fmt: hand model of chrono 0.4 StrftimeItems (an external crate) for the specifiers the dialect tables translate; validated on every run by the datefmt stream (whole emitted expression, 6 dialects). The tables, literal treatments and has_concat_function / backslash_escape come from gen_date_format.py and C07's gen_dialect_feat.py (regenerated on every run)",
    "Model/SqlGrammar.v: SQLite's operator precedence/associativity (from sqlite.org/lang_expr.html) and Model/SqlSem.v: SQLite's scalar semantics (integer '/', ROUND half away from zero, ABS, SIGN, COALESCE, POW, three-valued logic) -- validated on every run: each emitted expression is executed on SQLite and compared with the engine model's prediction",
    "Model/Value.v + Model/EvalDoc.v: the documented meaning (exact Z/Q arithmetic; the oracle only compares rows whose intermediate values are exactly representable in binary64)",
    "correspondence harness (prqlc::prql_to_pl, prqlc::compile, rusqlite in-memory SQLite 3.x) and the python comparison; the python mirror of eval_doc / eval_sql is cross-validated against the Coq definitions on a sample of rows in every run",
    "abstraction: the token level (SQL lexing, and CASE/BETWEEN keywords as delimiters) is modelled, not proved; text adjacency is checked separately (F3)",
]

DOMAIN = [None, -7, -2, -1, 0, 1, 2, 7, Fraction(1, 2), Fraction(-5, 2)]
HEADER = ("From Coq Require Import List NArith ZArith QArith.\n"
          "From PV Require Import Lib.ListX Model.Value Model.Pratt Model.PrqlExpr Model.StaticEval Model.SqlGrammar "
          "Model.SqlTree Model.SqlPrint Model.EvalDoc Gen.GenPratt.\n"
          "Import ListNotations.\nLocal Open Scope Z_scope.\nSet Printing Depth 1000000.\n")
DIALECTS = ["sqlite", "generic"]


def sql_lit(v):
    if v is None:
        return "NULL"
    if isinstance(v, int):
        return str(v)
    return repr(float(v))


def table_rows():
    rows = []
    for a in DOMAIN:
        for b in DOMAIN:
            for c in DOMAIN:
                rows.append((a, b, c))
    return rows


def setup_sql(rows):
    st = ["CREATE TABLE t(a, b, c)"]
    for i in range(0, len(rows), 250):
        st.append("INSERT INTO t VALUES " + ", ".join("(%s)" % ", ".join(sql_lit(v) for v in r) for r in rows[i:i + 250]))
    return st


def codes_text(x):
    """('Some', [codes]) -> str ; 'None' -> None"""
    if isinstance(x, tuple) and x and x[0] == "Some":
        return "".join(chr(c) for c in x[1])
    return None


def obs_val(x):
    if x is None:
        return None
    if isinstance(x, int):
        return x
    if isinstance(x, dict) and "f" in x:
        x = float(x["f"])
    if isinstance(x, float):
        if x != x or x in (float("inf"), float("-inf")):
            return ("bad", repr(x))
        return Fraction(x)
    return ("bad", repr(x))


def same(exp, obs):
    if exp is None or obs is None:
        return exp is None and obs is None
    if isinstance(obs, tuple):
        return False
    return Fraction(exp) == Fraction(obs)


def split_select(sql, n):
    """expression texts of  SELECT e0 AS v0, e1 AS v1, ... FROM t"""
    if not (sql.startswith("SELECT ") and sql.endswith(" FROM t")):
        return None
    body = sql[len("SELECT "):-len(" FROM t")]
    parts = re.split(r" AS v\d+(?:, |$)", body)
    if parts and parts[-1] == "":
        parts = parts[:-1]
    return parts if len(parts) == n else None


# ---------------------------------------------------------------- RQ view of the `verif:preprocess` hook (pass "normalize")

class RqUnmodelled(Exception):
    pass


HOOK_MISSING = "HOOK-MISSING"


def rq_text(e, colmap):
    """canonical text of the hook's JSON view of an rq::Expr -- the python side of Model/C02Probe.v rq_ser"""
    if "col" in e:
        if e["col"] not in colmap:
            raise RqUnmodelled("column %r" % e["col"])
        return "c%d" % colmap[e["col"]]
    if "lit" in e:
        l = e["lit"]
        if l == "null":
            return "null"
        if "int" in l:
            return "i%d" % l["int"]
        if "bool" in l:
            return "true" if l["bool"] else "false"
        o = l.get("other", "")
        m = re.fullmatch(r"Float\((.*)\)", o)
        if m:
            return "f" + m.group(1)
        m = re.fullmatch(r'(Date|Time|Timestamp)\("([^"\\\']*)"\)', o)
        if m:
            return "t%d'%s'" % (("Date", "Time", "Timestamp").index(m.group(1)), m.group(2))
        m = re.fullmatch(r'String\("([^"\\\']*)"\)', o)
        if m:
            return "s'" + m.group(1) + "'"
        raise RqUnmodelled("literal %r" % (l,))
    if "op" in e:
        return e["op"] + "(" + ";".join(rq_text(a, colmap) for a in e["args"]) + ")"
    if "case" in e:
        return "case(" + ";".join(rq_text(a, colmap) for a in e["case"]) + ")"
    raise RqUnmodelled("node %s" % sorted(e.keys()))


def rq_of_answer(a, n, let=False):
    """[(text before normalize, text after) | None] for the n select items of one compiled program, from the entries of
    harness `log` (ReprRq: column names; verif:preprocess pass normalize: the RQ pipeline before / after).
    HOOK_MISSING when the compile produced no such hook line."""
    names = {}
    norm = None
    for en in a.get("entries", []):
        if "ReprRq" in en:
            try:
                for st in en["ReprRq"]["relation"]["kind"]["Pipeline"]:
                    if "From" in st:
                        for col, cid in st["From"]["columns"]:
                            if isinstance(col, dict) and "Single" in col and col["Single"] in ("a", "b", "c"):
                                names[cid] = "abc".index(col["Single"])
            except (KeyError, TypeError, ValueError):
                pass
        elif "Message" in en and en["Message"].startswith("verif:preprocess ") and en["Message"].endswith('"pass":"normalize"}'):
            norm = json.loads(en["Message"][len("verif:preprocess "):])
    if norm is None:
        return [HOOK_MISSING] * n
    out = []
    try:
        pin, pout = norm["in"]["pipeline"], norm["out"]["pipeline"]
        sel = [t for t in pin if t.get("kind") == "Select"][-1]["cids"]
        if len(sel) != n or len(pin) != len(pout):
            return [None] * n
        cin = {t["compute"]["id"]: t["compute"]["expr"] for t in pin if t.get("kind") == "Compute"}
        cout = {t["compute"]["id"]: t["compute"]["expr"] for t in pout if t.get("kind") == "Compute"}
        colmap = dict(names)
        extra = [c for c in cin if c not in sel]
        if let:
            if len(extra) != 1:
                return [None] * (n + 1)
            colmap[extra[0]] = 3
            sel = [extra[0]] + list(sel)
        elif extra:
            return [None] * n
        for cid in sel:
            try:
                if cid in cin:
                    out.append((rq_text(cin[cid], colmap), rq_text(cout[cid], colmap)))
                else:
                    out.append((rq_text({"col": cid}, colmap),) * 2)
            except RqUnmodelled:
                out.append(None)
    except (KeyError, IndexError, TypeError):
        return [None] * (n + (1 if let else 0))
    return out


def compile_batch(exprs, dialect, rq=None):
    """[(sql text of the expression | None, whole-statement sql | None, error | None)] for each PRQL expression text.
    With rq (a list of len(exprs)): compile through harness `log` and store each expression's RQ view in it."""
    out = [None] * len(exprs)
    B = 12
    reqs, spans = [], []
    cmd = "compile" if rq is None else "log"
    extra = {} if rq is None else {"want": ["ReprRq"], "msg_prefix": "verif:preprocess"}
    for i in range(0, len(exprs), B):
        ch = exprs[i:i + B]
        reqs.append(dict({"src": "from t | select {" + ", ".join("v%d = %s" % (k, e) for k, e in enumerate(ch)) + "}",
                          "target": "sql." + dialect, "format": False, "sig": False}, **extra))
        spans.append((i, len(ch)))
    ans = harness(cmd, reqs)
    retry = []
    for (i, n), a in zip(spans, ans):
        parts = split_select(a["ok"], n) if "ok" in a else None
        if parts is None:
            retry += list(range(i, i + n))
        else:
            r = rq_of_answer(a, n) if rq is not None else None
            for k, p in enumerate(parts):
                out[i + k] = (p, None)
                if rq is not None:
                    rq[i + k] = r[k]
    if retry:
        reqs = [dict({"src": "from t | select {v0 = %s}" % exprs[i], "target": "sql." + dialect, "format": False, "sig": False}, **extra) for i in retry]
        for i, a in zip(retry, harness(cmd, reqs)):
            if "ok" in a:
                parts = split_select(a["ok"], 1)
                out[i] = (parts[0] if parts else None, a["ok"]) if parts else (None, a["ok"])
                if rq is not None:
                    rq[i] = rq_of_answer(a, 1)[0]
            else:
                out[i] = ("ERR", a)
    return out


def compile_programs(progs, dialect, rq=None):
    """whole programs `... | derive {d = e1} | select {v0 = e}`: [(expression text | None | 'ERR', statement | error)];
    with rq: rq[i] = [(d before, d after), (v0 before, v0 after)] from the hook"""
    out = []
    cmd = "compile" if rq is None else "log"
    extra = {} if rq is None else {"want": ["ReprRq"], "msg_prefix": "verif:preprocess"}
    reqs = [dict({"src": p, "target": "sql." + dialect, "format": False, "sig": False}, **extra) for p in progs]
    for i, a in enumerate(harness(cmd, reqs)):
        if "ok" in a:
            parts = split_select(a["ok"], 1)
            out.append((parts[0], a["ok"]) if parts else (None, a["ok"]))
            if rq is not None:
                rq[i] = rq_of_answer(a, 1, let=True)
        else:
            out.append(("ERR", a))
    return out


def run_queries(setup, sqls):
    """execute each statement on an in-memory SQLite (python's sqlite3: it has the math functions POW / FLOOR the
    templates use, which the harness' bundled SQLite lacks); returns [{'cols','rows'} | {'exec_err'}]"""
    import sqlite3
    conn = sqlite3.connect(":memory:")
    for st in setup:
        conn.execute(st)
    out = []
    for q in sqls:
        try:
            cur = conn.execute(q)
            rows = cur.fetchall()
            out.append({"cols": [d[0] for d in cur.description], "rows": rows})
        except sqlite3.Error as ex:
            out.append({"exec_err": str(ex)})
    conn.close()
    return out


def run_queries_harness(setup, sqls):
    """the same through the harness (rusqlite, bundled SQLite): second engine, thorough tier"""
    if not sqls:
        return []
    n = len(sqls)
    shards = 16
    size = max(1, (n + shards - 1) // shards)
    reqs = [{"setup": setup, "sqls": sqls[i:i + size]} for i in range(0, n, size)]
    out = []
    for a in harness("exec", reqs):
        if "results" not in a:
            raise RuntimeError("exec failed: %s" % json.dumps(a)[:300])
        out += a["results"]
    return out


def run():
    ck = Check("C02", level="proof")
    tinfo = {"pratt": gen_pratt.generate(), "doc": gen_doc_prec.generate(), "strength": gen_sql_strength.generate(),
             "stdsql": gen_std_sql.generate(), "expand": gen_expand.generate(),
             "dialect_feat": gen_dialect_feat.generate(), "date_format": gen_date_format.generate()}      # C07's translator, read-only: has_concat_function per dialect
    terr = {k: v["error"] for k, v in tinfo.items() if "error" in v}
    if terr:
        ck.coverage["translator_errors"] = terr
    G.set_tables(tinfo["pratt"] if "error" not in tinfo["pratt"] else None, tinfo["doc"] if "error" not in tinfo["doc"] else None)
    pr = ck.prove()
    if not pr["ok"]:
        ck.coverage["proof_failed"] = {"failed": pr.get("failed"), "error": (pr.get("error") or "")[:400]}
    from . import c02_streams as S
    import time
    tm = {}
    t0 = time.time(); model_ok = S.models_built(ck); tm["models"] = round(time.time() - t0, 1)
    t0 = time.time(); S.stream_parse(ck, model_ok); tm["parse"] = round(time.time() - t0, 1)
    t0 = time.time(); S.stream_sql_and_e2e(ck, model_ok, tm); tm["sql+e2e"] = round(time.time() - t0, 1)
    t0 = time.time(); S.stream_filter(ck, model_ok); tm["filter"] = round(time.time() - t0, 1)
    t0 = time.time(); S.stream_filter(ck, model_ok, mode="join"); tm["join"] = round(time.time() - t0, 1)
    t0 = time.time(); S.stream_fstring(ck, model_ok); tm["fstring"] = round(time.time() - t0, 1)
    t0 = time.time(); S.stream_fncall(ck, model_ok, tinfo["stdsql"] if "error" not in tinfo["stdsql"] else None); tm["fncall"] = round(time.time() - t0, 1)
    t0 = time.time(); S.stream_fncall_nested(ck, model_ok, tinfo["stdsql"] if "error" not in tinfo["stdsql"] else None); tm["fncall-nested"] = round(time.time() - t0, 1)
    t0 = time.time(); S.stream_datefmt(ck, model_ok, tinfo["date_format"] if "error" not in tinfo["date_format"] else None); tm["datefmt"] = round(time.time() - t0, 1)
    t0 = time.time(); S.stream_directed(ck); tm["directed"] = round(time.time() - t0, 1)
    ck.coverage["seconds_by_phase"] = tm
    # most informative first (only the first 20 are printed): wrong VALUES, then text differences
    rank = {"e2e": 0, "engine-model": 2, "sqltext": 1, "parse": 1, "mirror": 3}
    ck.violations.sort(key=lambda v: rank.get(v[1].get("stream") if isinstance(v[1], dict) else None, 4))
    ck.proof_broken_violation(found_input=any(not ni for _, _, ni in ck.violations))
    ck.assumptions += [
        "value domain {NULL,-7,-2,-1,0,1,2,7,0.5,-2.5}^3 (all 1000 rows for the depth-2 triples, a seeded 250-row sample for random deeper trees); rows with an intermediate value that is not exactly representable in binary64 are not compared",
        "`==`/`!=` with an operand that is not the literal null but is folded to it at compile time is excluded (DESIGN.md C02, 'a semantic corner that is deliberately not demanded')",
        "`~=` (regex search), strings and dates are outside the value model: text correspondence, table obligations and the fncall differential oracle (two executions compared, no documented value) only",
        "SQLite returns the rows of an unordered single-table scan in insertion order",
    ]
    ck.finish(TRUSTED, "streams: rq = the hook's view of the RQ expression before / after the Normalizer vs seval (expand e) / normalize, per compiled expression and dialect; parse = random operator token sequences (model parser vs prql_to_pl); sqltext = model SQL text vs compile, byte-identical, per dialect; e2e = compiled SQL executed on SQLite vs eval_doc, per (expression, dialect): all 861 (parent, position, child) triples over 16 binary + 3 unary operators + case + in-range, plus random trees of depth <= 4; fncall = every math.* / text.* template x parameter position x 17 operator children: model text vs compile, and emitted text vs hole-parenthesised reference executed on SQLite; a case is distinct by its PRQL text and dialect; non-trivial = the program compiled and at least one row was comparable")

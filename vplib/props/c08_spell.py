"""C08 helpers: PRQL literal spellings and their values, computed in python from the language reference
(web/book/src/reference/syntax/{strings,r-strings,f-strings,literals}.md), independently of the Coq model
and of prqlc.  `decode_*` return None when the reference does not define the spelling (the check then
only requires model = implementation = database for it)."""
import datetime
from fractions import Fraction

DOC_ESC = {"\\": "\\", "'": "'", '"': '"', "b": "\b", "f": "\f", "n": "\n", "r": "\r", "t": "\t", "/": "/"}
HEX = "0123456789abcdefABCDEF"


def decode_quoted(src):
    """src = a complete quoted string literal (any odd number of quotes).  -> value or None (unspecified)."""
    if not src or src[0] not in "'\"":
        return None
    q = src[0]
    n = 0
    while n < len(src) and src[n] == q:
        n += 1
    if n % 2 == 0:
        return "" if n == len(src) else None
    body = src[n:]
    out = []
    i = 0
    while True:
        if body.startswith(q * n, i):
            return "".join(out) if i + n == len(body) else None
        if i >= len(body):
            return None
        c = body[i]
        if c == "\\":
            if i + 1 >= len(body):
                return None
            e = body[i + 1]
            if e in DOC_ESC:
                out.append(DOC_ESC[e]); i += 2
            elif e == "x":
                h = body[i + 2:i + 4]
                if len(h) == 2 and all(x in HEX for x in h):
                    out.append(chr(int(h, 16))); i += 4
                else:
                    return None
            elif e == "u":
                if body[i + 2:i + 3] != "{":
                    return None
                j = body.find("}", i + 3)
                h = body[i + 3:j] if j >= 0 else ""
                if not (1 <= len(h) <= 6 and all(x in HEX for x in h)):
                    return None
                v = int(h, 16)
                if v > 0x10FFFF or 0xD800 <= v <= 0xDFFF:
                    return None
                out.append(chr(v)); i = j + 1
            else:
                return None        # unknown escape: not defined by the reference
        else:
            out.append(c); i += 1


def decode_raw(src):
    if len(src) < 3 or src[0] != "r" or src[1] not in "'\"" or src[-1] != src[1]:
        return None
    body = src[2:-1]
    if any(c in body for c in "'\"\n\r"):
        return None
    return body


def decode_fstring_text(src):
    """f-string without holes: value of the text ({{ and }} are braces)."""
    if not src.startswith("f"):
        return None
    v = decode_quoted(src[1:])
    if v is None:
        return None
    out = []
    i = 0
    while i < len(v):
        if v.startswith("{{", i):
            out.append("{"); i += 2
        elif v.startswith("}}", i):
            out.append("}"); i += 2
        elif v[i] in "{}":
            return None
        else:
            out.append(v[i]); i += 1
    return "".join(out)


# ---------------------------------------------------------------- spelling generators

def esc_for(q, v, rng, style):
    """spell value v inside single-quote-count-1 literal delimited by q; style picks among equivalent escapes"""
    out = []
    for c in v:
        o = ord(c)
        if c == "\\":
            out.append("\\\\")
        elif c == q:
            out.append("\\" + q)
        elif c in "'\"" and style == 2:
            out.append("\\" + c)
        elif c == "\n":
            out.append("\n" if style == 0 else "\\n")
        elif c == "\t":
            out.append("\\t" if style else "\t")
        elif c == "\r":
            out.append("\r" if style == 0 else "\\r")       # style 0 writes control characters raw (CR, CR LF inside the quotes)
        elif c == "/" and style == 2:
            out.append("\\/")
        elif o > 126 or o < 32:
            k = rng.randrange(3) if style else 0
            if k == 1 and o < 256:
                out.append("\\x%02x" % o)
            elif k >= 1:
                out.append("\\u{%x}" % o)
            else:
                out.append(c)
        elif style == 2 and c.isalnum() and rng.random() < 0.3:
            out.append(("\\x%02X" % o) if rng.random() < 0.5 else ("\\u{%04X}" % o))
        else:
            out.append(c)
    return "".join(out)


def spellings_of(v, rng):
    """list of (style name, PRQL source text) all denoting the string value v per the reference"""
    res = []
    for q, nm in (('"', "dq"), ("'", "sq")):
        for style in (0, 1, 2):
            res.append(("%s%d" % (nm, style), q + esc_for(q, v, rng, style) + q))
        # multi-quote forms: content may contain shorter runs of the quote unescaped
        for n in (3, 5):
            runs = max((len(r) for r in _runs(v, q)), default=0)
            if v and runs < n and not v.startswith(q) and not v.endswith(q) and not v.endswith("\\"):
                body = v.replace("\\", "\\\\")
                res.append(("%s_x%d" % (nm, n), q * n + body + q * n))
    if v == "":
        res += [("empty2", '""'), ("empty4", "''''")]
    if not any(c in v for c in "'\"\n\r"):
        res.append(("raw_dq", 'r"' + v + '"'))
        res.append(("raw_sq", "r'" + v + "'"))
    fb = esc_for('"', v.replace("{", "{{").replace("}", "}}"), rng, 1)     # braces doubled first: escapes are decoded by the lexer, before interpolation parsing
    res.append(("fstr", 'f"' + fb + '"'))
    return res


def _runs(v, q):
    cur = ""
    for c in v:
        if c == q:
            cur += c
        else:
            if cur:
                yield cur
            cur = ""
    if cur:
        yield cur


# spellings whose meaning the reference does not define; the implementation's lexer gives them one
QUIRKS = ['"\\q"', '"\\x4g"', '"\\x4"', '"\\xg1"', '"\\u{}"', '"\\u{110000}"', '"\\u{d800}"', '"\\u{1234567}"', '"\\u41"', '"\\u{41"',
          '"\\u{00004100}"', '"a\\\nb"', "'\\''", "'''a''b'''", '"""a"b"""', '"\\a\\0\\v\\e"', "r'a\\nb'", 'r"a\\"', "r'a\"", '"\\x41\\u{42}\\n"',
          '"\\%\\_"', 'f"{{}}"', 'f"a{{b}}c"', 'f"\\{{"', '"""""', "''''''", '"\\xe9"', '"\\u{e9}"', '"\\xE9\\u{1F600}"']


# ---------------------------------------------------------------- numbers, dates

def number_cases(rng, n, rows=(("0b", 2, 32), ("0x", 16, 12), ("0o", 8, 12))):
    """(spelling, expected) with expected = ('int', v) | ('real', Fraction)"""
    out = []

    def us(digits):
        # insert underscores after the first digit
        s = digits[0]
        for d in digits[1:]:
            if rng.random() < 0.25:
                s += "_"
            s += d
        return s
    fixed = [0, 1, 7, 10, 42, 255, 1000, 65535, 2**31 - 1, 2**31, 2**32, 2**53, 2**53 + 1, 10**18, 2**63 - 2, 2**63 - 1]
    for v in fixed:
        out.append((str(v), ("int", v)))
    for _ in range(n):
        v = rng.choice([rng.randrange(10**k) for k in (1, 3, 6, 12, 18)] + [rng.randrange(2**63)])
        out.append((us(str(v)), ("int", v)))
    # beyond i64: becomes a float; pick values exactly representable (powers of two times small odd)
    for v in (2**63, 2**64, 2**70, 3 * 2**62):
        out.append((str(v), ("real", Fraction(v))))
    # based numbers
    for _ in range(max(6, n // 2)):
        pfx, b, maxd = rng.choice(list(rows))       # the digit caps come from the source (GenLiteral), the values from python
        digs = {2: "01", 8: "01234567", 16: "0123456789abcdefABCDEF"}.get(b, "01")
        k = rng.choice([rng.randrange(1, maxd + 1), maxd])
        ds = "".join(rng.choice(digs) for _ in range(k))
        out.append((pfx + ("_" if rng.random() < 0.3 else "") + ds, ("int", int(ds, b))))
    for pfx, b, maxd in rows:
        top = {2: "1", 8: "7", 16: "f"}.get(b, "1") * maxd
        out.append((pfx + top, ("int", int(top, b))))
    out += [("0x0", ("int", 0))]
    # floats exact in binary: k / 2^j written in decimal, optionally with an exponent
    for _ in range(n):
        j = rng.randrange(0, 7)
        k = rng.randrange(0, 10**rng.randrange(1, 7))
        val = Fraction(k, 2**j)
        ip = val.numerator // val.denominator
        fr = val - ip
        fd = ""
        while fr:
            fr *= 10
            fd += str(fr.numerator // fr.denominator)
            fr -= fr.numerator // fr.denominator
        fd = fd or "0"
        form = rng.randrange(4)
        if form == 0:
            out.append((us(str(ip)) + "." + us(fd), ("real", val)))
        elif form == 1:
            # shift the point: d.ddd e k
            digits = (str(ip) + fd).lstrip("0") or "0"
            e = -len(fd)
            out.append((us(digits) + rng.choice(["e", "E"]) + str(e), ("real", val)))
        elif form == 2:
            e = rng.randrange(1, 4)
            out.append((us(str(ip)) + "." + us(fd) + "e" + rng.choice(["", "+"]) + str(e), ("real", val * 10**e)))
        else:
            e = rng.randrange(0, 19)
            m = rng.randrange(1, 10)
            out.append(("%de%d" % (m, e), ("real", Fraction(m * 10**e))) if m * 10**e < 2**53 else ("%d.0" % m, ("real", Fraction(m))))
    # scientific notation with a non-trivial mantissa and negative / large exponents: the value the spelling denotes is
    # the exact decimal rational; every comparison is against its correctly rounded binary64 (python's float(Fraction))
    for _ in range(2 * n):
        nd = rng.randrange(1, 18)
        digits = str(rng.randrange(1, 10)) + "".join(rng.choice("0123456789") for _ in range(nd - 1))
        e = rng.choice([rng.randrange(-30, 31), rng.randrange(-320, 309), rng.randrange(-8, 9)])
        if len(digits) + e > 308:
            e = 300 - len(digits)
        point = rng.randrange(1, len(digits) + 1)
        mant = digits[:point] + ("." + digits[point:] if point < len(digits) else "")
        spelling = mant + rng.choice("eE") + (rng.choice(["", "+"]) if e >= 0 else "") + str(e)
        out.append((spelling, ("real", Fraction(int(digits)) * Fraction(10) ** (e - (len(digits) - point)))))
    # 16 and 17 significant digits (where the shortest round-trip digits need not be the spelling's), halfway cases, the edges
    for _ in range(max(20, n)):
        nd = rng.choice([16, 17, 17, 18, 19])
        digits = str(rng.randrange(1, 10)) + "".join(rng.choice("0123456789") for _ in range(nd - 1))
        e = rng.choice([rng.randrange(-20, 21), rng.randrange(-320, 292)])
        out.append(("%s.%se%d" % (digits[0], digits[1:], e), ("real", Fraction(int(digits)) * Fraction(10) ** (e - (nd - 1)))))
    for sp_ in ("0.30000000000000004", "0.1000000000000000055511151231257827", "9007199254740993.0", "9007199254740995.0", "1.7976931348623158e308",
                "2.2250738585072011e-308", "2.4703282292062328e-324", "2.4703282292062327e-324", "4.9406564584124654e-324", "8.41e21", "5e22", "1.0000000000000002",
                "1.00000000000000011102230246251565404236316680908203125", "1.00000000000000011102230246251565404236316680908203126", "123456789012345678.0"):
        if "e" in sp_:
            m_, e_ = sp_.split("e")
        else:
            m_, e_ = sp_, "0"
        ip_, _, fp_ = m_.partition(".")
        out.append((sp_, ("real", Fraction(int(ip_ + fp_)) * Fraction(10) ** (int(e_) - len(fp_)))))
    for sp_ in ("1.1e-5", "6.02e23", "1.5e300", "2.2250738585072014e-308", "4.9e-324", "1e23", "9.007199254740993e15", "0.1e1", "123.456e-7", "3.14159e0"):
        m_, e_ = sp_.split("e")
        ip_, _, fp_ = m_.partition(".")
        out.append((sp_, ("real", Fraction(int(ip_ + fp_)) * Fraction(10) ** (int(e_) - len(fp_)))))
    out += [("1.0", ("real", Fraction(1))), ("0.5", ("real", Fraction(1, 2))), ("1e3", ("real", Fraction(1000))), ("1_000.125_0", ("real", Fraction(8001, 8))),
            ("5e-1", ("real", Fraction(1, 2))), ("1e15", ("real", Fraction(10**15))), ("1e16", ("real", Fraction(10**16))), ("1e22", ("real", Fraction(10**22))),
            ("1.7976931348623157e308", ("real", Fraction(int("1fffffffffffff", 16) * 2**971))), ("5e-324", ("real", Fraction(1, 2**1074))),
            ("1e-7", ("real", Fraction(1, 10**7))), ("123456.789", ("real", Fraction(123456789, 1000)))]
    return out


EXTREME = ["1e400", "1e309", "2e308", "1" + "0" * 400, "1e999999"]   # spellings of finite numbers that are not finite in binary64 (F14)


def date_cases(rng, n):
    """(spelling, kind, expected text on SQLite)"""
    out = []
    for _ in range(n):
        y, mo, d = rng.randrange(1, 9999), rng.randrange(1, 13), rng.randrange(1, 29)
        h, mi, s = rng.randrange(24), rng.randrange(60), rng.randrange(60)
        date = "%04d-%02d-%02d" % (y, mo, d)
        k = rng.randrange(6)
        if k == 0:
            out.append(("@" + date, "date", date))
        elif k == 1:
            out.append(("@%02d:%02d:%02d" % (h, mi, s), "time", "%02d:%02d:%02d" % (h, mi, s)))
        elif k == 2:
            out.append(("@%02d:%02d" % (h, mi), "time", "%02d:%02d:00" % (h, mi)))
        elif k == 3:
            out.append(("@%sT%02d:%02d:%02d" % (date, h, mi, s), "timestamp", "%s %02d:%02d:%02d" % (date, h, mi, s)))
        elif k == 4:
            ms = rng.randrange(1000)
            out.append(("@%sT%02d:%02d:%02d.%03d" % (date, h, mi, s, ms), "timestamp", "%s %02d:%02d:%02d" % (date, h, mi, s)))
        else:
            if not (1000 < y < 9000):
                y = 2000 + y % 100
                date = "%04d-%02d-%02d" % (y, mo, d)
            sign = rng.choice("+-")
            oh, om = rng.randrange(0, 13), rng.choice([0, 30])
            tz = rng.choice(["Z", "%s%02d:%02d" % (sign, oh, om), "%s%02d%02d" % (sign, oh, om)])
            t = datetime.datetime(y, mo, d, h, mi, s)
            if tz != "Z":
                delta = datetime.timedelta(hours=oh, minutes=om)
                t = t - delta if sign == "+" else t + delta
            out.append(("@%sT%02d:%02d:%02d%s" % (date, h, mi, s, tz), "timestamp", t.strftime("%Y-%m-%d %H:%M:%S")))
    return out


# ---------------------------------------------------------------- programs with many literals in many positions (hook verif:literal)

def rich_programs(rng, n, values):
    """n programs, each (skeleton name, src, placeholder src, [string values in slot order], [placeholder texts]).
    Every string slot is written with a random spelling of a value from `values` in `src`, and with a distinct harmless
    placeholder in the placeholder source; every other token of the two sources is the same, so the two statements must
    have the same token structure.  Non-string literals (integers, negative integers, floats, booleans, null, dates,
    times, timestamps, intervals) are the same in both."""
    out = []
    dates = date_cases(rng, 40)

    def other(kind):
        if kind == "I":
            return str(rng.choice([0, 1, 7, 42, 2**31, 2**53 + 1, 2**63 - 1, rng.randrange(10**6)]))
        if kind == "NI":
            return "-" + str(rng.choice([1, 5, 2**31, 2**63 - 1, rng.randrange(1, 10**6)]))
        if kind == "F":
            return rng.choice(["1.5", "0.25", "123.456", "1e3", "2.5e-3", "1e16", "1.0", "0.1", "6.02e23", "1e-7", "9223372036854775808"])
        if kind == "B":
            return rng.choice(["true", "false"])
        if kind == "N":
            return "null"
        if kind == "V":
            return str(rng.choice([0, 1, 2, 3, 10, 36, 500, 2**31, 2**63 - 1])) + rng.choice(
                ["microseconds", "milliseconds", "seconds", "minutes", "hours", "days", "weeks", "months", "years"])
        want = {"D": "date", "T": "time", "TS": "timestamp"}[kind]
        return rng.choice([d[0] for d in dates if d[1] == want])

    skeletons = [
        ("case", "from t | derive {a = case [c == ~S~ => ~S~, c != ~S~ => ~S~, true => ~S~]} | select {a}"),
        ("coalesce", "from t | select {v = c ?? ~S~, w = d ?? ~I~, x = c ?? ~N~}"),
        ("in", "from t | filter (c | in [~S~, ~S~, ~S~]) | select {c}"),
        ("text", "from t | select {v = (c | text.contains ~S~), w = (c | text.starts_with ~S~), x = (c | text.ends_with ~S~), y = (c | text.replace ~S~ ~S~)}"),
        ("relation", "from [{x = ~S~, y = ~I~, z = ~B~}, {x = ~S~, y = ~NI~, z = ~N~}] | select {x, y, z}"),
        ("fstring", 'from t | select {v = f"~FS~{c}~FS~{d}~FS~"}'),
        ("join", "from t | join side:left (from [{k = ~S~, w = ~S~}]) (c == k) | select {c, w}"),
        ("filter", "from t | filter c == ~S~ || c == ~S~ && d > ~I~ | sort {c} | take 3"),
        ("kinds", "from t | select {a = ~D~, b = ~T~, c2 = ~TS~, e = ~B~, n = ~N~, f = ~F~, g = ~F~, i = ~NI~, j = ~I~}"),
        ("intervals", "from t | filter d2 > (@2020-01-01 + ~V~) | select {a = d2 + ~V~, b = d2 - ~V~, c2 = ~V~, e = ~V~}"),
        ("datefmt", "from t | select {v = (d2 | date.to_text ~S~), w = ~S~}"),
        ("compare", "from t | select {v = (c | text.lower) == ~S~, w = (c | text.length) > ~I~, x = ~S~ + ~S~}"),
        ("group", "from t | group {c} (aggregate {n = count this, m = max ~S~}) | filter n > ~I~ | derive {l = ~S~}"),
    ]
    import re as _re
    for k in range(n):
        name, skel = skeletons[k % len(skeletons)]
        vals, phs = [], []

        def fill(m, real):
            kind = m.group(1)
            if kind in ("S", "FS"):
                idx = fill.i
                fill.i += 1
                if real:
                    v = slot_vals[idx]
                    if kind == "FS":
                        return esc_for('"', v.replace("{", "{{").replace("}", "}}"), rng, 1)
                    return slot_src[idx]
                return ("PHzz%dq" % idx) if kind == "FS" else ('"PHzz%dq"' % idx)
            return others[m.start()]
        nslots = len(_re.findall(r"~(S|FS)~", skel))
        slot_vals, slot_src = [], []
        for m in _re.finditer(r"~(S|FS)~", skel):
            while True:
                v = rng.choice(values)
                if "\x00" in v or (m.group(1) == "FS" and v == ""):
                    continue
                break
            slot_vals.append(v)
            cands = [s for st, s in spellings_of(v, rng) if st != "fstr"]
            if name == "datefmt" and not slot_src:
                # std.date.to_text accepts Literal::String only: a raw string r"..." is rejected at compile time
                # ("only supports a string literal as format") -- observed, reported, not a C08 question
                cands = [s for s in cands if not s.startswith("r")]
            slot_src.append(rng.choice(cands))
        others = {m.start(): other(m.group(1)) for m in _re.finditer(r"~([A-Z]+)~", skel) if m.group(1) not in ("S", "FS")}
        fill.i = 0
        src = _re.sub(r"~([A-Z]+)~", lambda m: fill(m, True), skel)
        fill.i = 0
        ph = _re.sub(r"~([A-Z]+)~", lambda m: fill(m, False), skel)
        out.append((name, src, ph, slot_vals, ["PHzz%dq" % i for i in range(nslots)]))
    return out


def based_boundary(rng, n=12):
    """(spelling, value) of 0x / 0o / 0b integer literals around the digit caps and the i64 boundary, with and without
    underscore separators.  The reference gives them the value of their digits; an implementation may reject a spelling
    (too many digits, separators it does not accept) but must never give it another value."""
    out = []
    fmt = {16: "x", 8: "o", 2: "b"}
    for base, pfx in ((16, "0x"), (8, "0o"), (2, "0b")):
        vals = [2**63 - 1, 2**63, 2**63 + 1, 2**64 - 1, 2**64, 2**62, 2**48 - 1, 2**48, 2**36 - 1, 2**36, 2**32 - 1, 2**32, 2**33 - 1, 255]
        vals += [rng.randrange(2**rng.choice([8, 31, 40, 62, 63, 64, 70])) for _ in range(n)]
        for v in vals:
            ds = format(v, fmt[base])
            if rng.random() < 0.3:
                ds = ds.upper() if base == 16 else ds
            out.append((pfx + ds, v))
            g = ""
            for i, ch in enumerate(reversed(ds)):
                g = ch + ("_" if i and i % 4 == 0 else "") + g
            out.append((pfx + g, v))
            out.append((pfx + "_" + ds, v))
    return list(dict.fromkeys(out))

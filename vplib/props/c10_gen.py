"""C10: generator of well-scoped programs whose frame is tracked exactly as the scope model sees it
(inputs = (name, known columns, has-wildcard), direct = derived columns), and of the scope-breaking edits.

Every source is aliased (`x1 = ...`) so the input names are known; closed sources declare their columns
(`(from t | select {a, b})`, relation literals), open sources are database tables with unknown columns.
"""

TABLES = {
    "t": ["a", "b", "c", "g", "id", "s"],
    "u": ["id", "b", "d", "e", "k"],
    "v": ["id", "x", "y", "g"],
    "w": ["p", "q", "a"],
}
# names that denote something else than a column somewhere in every scope (std modules) -- used to exercise C10-F1
MODULE_LIKE = ["date", "text", "math"]


class Input:
    def __init__(self, name, cols, wild, pool=None):
        self.name, self.cols, self.wild = name, list(cols), wild
        self.pool = list(pool or [])      # columns of the underlying table (for wildcard references and "dropped" names)

    def copy(self):
        return Input(self.name, self.cols, self.wild, self.pool)


class Frame:
    def __init__(self, inputs, direct=()):
        self.inputs = [i.copy() for i in inputs]
        self.direct = list(direct)

    def copy(self):
        return Frame(self.inputs, self.direct)

    @property
    def closed(self):
        return not any(i.wild for i in self.inputs)

    def count(self, n):
        return self.direct.count(n) + sum(i.cols.count(n) for i in self.inputs)

    def all_cols(self):
        return list(self.direct) + [c for i in self.inputs for c in i.cols]

    def input_names(self):
        return [i.name for i in self.inputs]

    def coq(self):
        def s(x):
            return "[" + ";".join(str(ord(c)) for c in x) + "]"
        ins = "; ".join("mkInput %s [%s] %s" % (s(i.name), "; ".join(s(c) for c in i.cols), "true" if i.wild else "false") for i in self.inputs)
        return "(mkFrame [%s] [%s])" % (ins, "; ".join(s(c) for c in self.direct))

    def describe(self):
        return {"inputs": [(i.name, i.cols, i.wild) for i in self.inputs], "direct": self.direct}


class Step:
    def __init__(self, text, kind, sig=None, nargs=None):
        self.text, self.kind = text, kind
        self.sig = sig        # std function path for (c)(d) edits, e.g. ["take"]
        self.nargs = nargs    # number of explicit positional arguments in `text`


class Prog:
    def __init__(self):
        self.decls = []            # text
        self.root = []             # (name, kind) declared at root: let-tables NTable, functions NFunc
        self.funcs = {}            # name -> number of positional params
        self.source_text = None
        self.steps = []
        self.frames = []           # frames[k] = frame before step k; frames[len(steps)] = final
        self.dropped = []          # column names that existed in some source/frame (candidates for edit (a))
        self.used_tables = set()

    def text(self, upto=None, extra=(), source=None):
        steps = self.steps if upto is None else self.steps[:upto]
        parts = ["from " + (source or self.source_text)] + [s.text for s in steps] + list(extra)
        return "\n".join(self.decls + [" | ".join(parts)])


class Gen:
    def __init__(self, rng):
        self.r = rng
        self.n = 0

    def fresh(self, p):
        self.n += 1
        return "%s%d" % (p, self.n)

    def pick(self, xs):
        return xs[self.r.randrange(len(xs))]

    def chance(self, p):
        return self.r.random() < p

    # ---------------------------------------------------------------- references
    def refs(self, fr, prefer_bare=True):
        """list of (text, ident, expect) for every way to name a column that resolves uniquely now.
        ident = (qualifier list, name); expect = ("input", i, name) | ("direct", name) | ("infer", i, name)"""
        out = []
        for n in dict.fromkeys(fr.direct):
            if fr.count(n) == 1 and n not in MODULE_LIKE:
                out.append((n, ([], n), ("direct", n)))
        for i, inp in enumerate(fr.inputs):
            for c in inp.cols:
                # a bare name that also names a std module is ambiguous (column vs module): only qualified
                if fr.count(c) == 1 and c not in fr.input_names() and c not in MODULE_LIKE:
                    out.append((c, ([], c), ("input", i, c)))
                if inp.cols.count(c) == 1:
                    out.append(("%s.%s" % (inp.name, c), ([inp.name], c), ("input", i, c)))
        wild = [i for i, inp in enumerate(fr.inputs) if inp.wild]
        for i in wild:
            inp = fr.inputs[i]
            for c in inp.pool:
                if c in inp.cols:
                    continue
                out.append(("%s.%s" % (inp.name, c), ([inp.name], c), ("infer", i, c)))
                if len(wild) == 1 and fr.count(c) == 0 and c not in fr.input_names():
                    out.append((c, ([], c), ("infer", i, c)))
        return out

    def num_ref(self, fr):
        rs = [r for r in self.refs(fr) if r[2][-1] not in ("s",)]
        return self.pick(rs) if rs else None

    def expr(self, fr):
        a = self.num_ref(fr)
        if a is None:
            return "1"
        r = self.r.random()
        if r < 0.4:
            return "%s + %d" % (a[0], self.r.randrange(1, 9))
        if r < 0.7:
            b = self.num_ref(fr)
            return "%s * %s" % (a[0], b[0])
        return "(%s ?? 0)" % a[0]

    # ---------------------------------------------------------------- sources
    def free_table(self, prog):
        """every source of one program reads a different database table: inferring a column into a table changes what
        every other instance of that table knows (the declaration is shared), which the frame model does not track"""
        free = [t for t in TABLES if t not in prog.used_tables]
        if not free:
            return None
        t = self.pick(free)
        prog.used_tables.add(t)
        return t

    def source(self, prog, open_ok, module_like=False):
        alias = self.fresh("x")
        k = self.pick(["sub", "sub", "lit"] + (["tab", "tab"] if open_ok else []))
        if k != "lit":
            t = self.free_table(prog)
            if t is None:
                k = "lit"
        if k == "sub":
            cols = self.r.sample(TABLES[t], self.r.randrange(2, min(4, len(TABLES[t])) + 1))
            prog.dropped += [c for c in TABLES[t] if c not in cols]
            return "%s = (from %s | select {%s})" % (alias, t, ", ".join(cols)), Input(alias, cols, False)
        if k == "lit":
            names = self.r.sample(["a", "b", "c", "id", "g", "x", "k"], self.r.randrange(2, 5))
            if module_like:
                names.append(self.pick(MODULE_LIKE))
            row = "{" + ", ".join("%s = %d" % (n, self.r.randrange(9)) for n in names) + "}"
            return "%s = [%s]" % (alias, row), Input(alias, names, False)
        return "%s = %s" % (alias, t), Input(alias, [], True, TABLES[t])

    # ---------------------------------------------------------------- steps
    def add_step(self, prog, fr):
        kinds = ["filter", "derive", "derive", "select", "select", "sort", "take", "aggregate", "group", "join", "join"]
        k = self.pick(kinds)
        nf = fr.copy()
        rs = self.refs(fr)
        if not rs and k not in ("take",):
            return None
        if k == "filter":
            a = self.num_ref(fr)
            st = Step("filter (%s > %d)" % (a[0], self.r.randrange(9)), k, ["filter"], 1)
        elif k == "derive":
            shadow = self.chance(0.15) and fr.all_cols()
            name = self.pick(fr.all_cols()) if shadow else self.fresh("d")
            if name in fr.input_names():
                return None
            st = Step("derive {%s = %s}" % (name, self.expr(fr)), k, ["derive"], 1)
            if shadow:
                for inp in nf.inputs:
                    inp.cols = [c for c in inp.cols if c != name]
                nf.direct = [c for c in nf.direct if c != name]
            nf.direct.append(name)
        elif k == "select":
            chosen = self.r.sample(rs, min(len(rs), self.r.randrange(1, 4)))
            items, seen = [], set()
            inputs = [Input(i.name, [], False, i.pool) for i in fr.inputs]
            direct = []
            for txt, ident, exp in chosen:
                if exp[-1] in seen:
                    continue
                seen.add(exp[-1])
                if self.chance(0.25):
                    n = self.fresh("d")
                    items.append("%s = %s" % (n, self.expr(fr)))
                    direct.append(n)
                    seen.add(n)
                else:
                    items.append(txt)
                    if exp[0] == "direct":
                        direct.append(exp[1])
                    else:
                        inputs[exp[1]].cols.append(exp[2])
            prog.dropped += [c for c in fr.all_cols() if c not in seen]
            nf = Frame(inputs, direct)
            st = Step("select {%s}" % ", ".join(items), k, ["select"], 1)
        elif k == "sort":
            a = self.pick(rs)
            st = Step("sort {%s%s}" % (self.pick(["", "-"]), a[0]), k, ["sort"], 1)
        elif k == "take":
            st = Step("take %d" % self.r.randrange(1, 9), k, ["take"], 1)
        elif k == "aggregate":
            a = self.num_ref(fr)
            n1, n2 = self.fresh("n"), self.fresh("m")
            prog.dropped += fr.all_cols()
            nf = Frame([Input(i.name, [], False, i.pool) for i in fr.inputs], [n1, n2])
            st = Step("aggregate {%s = count this, %s = sum %s}" % (n1, n2, a[0]), k, ["aggregate"], 1)
        elif k == "group":
            key = self.pick(rs)
            rest = [r for r in rs if r[2][-1] != key[2][-1]]
            if not rest:
                return None
            a = self.pick(rest)
            n1, n2 = self.fresh("n"), self.fresh("m")
            inputs = [Input(i.name, [], False, i.pool) for i in fr.inputs]
            direct = []
            if key[2][0] == "direct":
                direct.append(key[2][1])
            else:
                inputs[key[2][1]].cols.append(key[2][2])
            prog.dropped += [c for c in fr.all_cols() if c != key[2][-1]]
            nf = Frame(inputs, direct + [n1, n2])
            st = Step("group {%s} (aggregate {%s = count this, %s = sum %s})" % (key[0], n1, n2, a[0]), k, ["group"], 2)
        elif k == "join":
            if len(fr.inputs) >= 3:
                return None
            stxt, inp = self.source(prog, open_ok=not fr.closed or self.chance(0.3))
            left = [r for r in rs if r[1][0]] or rs     # qualified references for the condition
            l = self.pick(left)
            right_cols = inp.cols or inp.pool
            rc = self.pick(right_cols)
            shared = [c for c in right_cols if any(x[1] == ([], c) and x[2][0] != "infer" for x in rs)]
            if shared and self.chance(0.4) and inp.cols:
                c = self.pick(shared)
                cond = "(==%s)" % c
            else:
                ltxt = l[0] if "." in l[0] else l[0]
                if "." not in ltxt and (ltxt in right_cols or inp.wild):
                    return None
                cond = "(%s == %s.%s)" % (ltxt, inp.name, rc)
            side = self.pick(["", "", "side:left "])
            nf.inputs.append(inp)
            st = Step("join %s%s %s" % (side, stxt, cond), k, ["join"], 2)
        else:
            return None
        return st, nf

    def program(self, open_ok=False, module_like=False):
        p = Prog()
        p.decls.append("let zflag = false")          # a compile-time constant condition for the case-dead-flag sites
        p.root.append(("zflag", "NValue"))
        if self.chance(0.4):
            f = self.fresh("fn")
            p.decls.append("let %s = v -> v * 2 + 1" % f)
            p.root.append((f, "NFunc"))
            p.funcs[f] = 1
        if self.chance(0.25):
            t = self.fresh("tab")
            p.decls.append("let %s = (from z | select {p, q})" % t)
            p.root.append((t, "NTable"))
        stxt, inp = self.source(p, open_ok, module_like)
        p.source_text = stxt
        fr = Frame([inp])
        p.frames.append(fr)
        for _ in range(self.r.randrange(1, 6)):
            try:
                r = self.add_step(p, fr)
            except (TypeError, IndexError, ValueError):
                r = None        # no usable reference for this kind of step in this frame
            if r is None:
                continue
            st, fr = r
            p.steps.append(st)
            p.frames.append(fr)
        p.dropped = list(dict.fromkeys(p.dropped))
        return p


SITES = {
    "filter": "filter (%s > 0)",
    "derive": "derive {zz = %s + 1}",
    "select": "select {%s}",
    "sort": "sort {%s}",
    "group-key": "group {%s} (take 1)",
    "aggregate-arg": "aggregate {zz = sum %s}",
    "take": "take %s",
    "window-arg": "window rolling:2 (derive {zz = sum %s})",
    "join-cond": "join side:left w (==%s)",
    # inside `case`: a live condition, and branches that static evaluation removes (constant-false condition, literally or
    # through the root-level `let zflag = false`; a branch behind a constant-true one) -- names are resolved there all the same
    "case-cond": "derive {zz = case [%s > 0 => 1, true => 0]}",
    "case-dead": "derive {zz = case [false => %s, true => 0]}",
    "case-dead-flag": "derive {zz = case [zflag => %s, true => 0]}",
    "case-after-true": "derive {zz = case [true => 0, true => %s]}",
}
DEAD_SITES = ("case-dead", "case-dead-flag", "case-after-true")


# ---------------------------------------------------------------- a module or relation name where a value is required
# (name text, ident, what it is) -- none of them is a column of any generated frame; `let-table` / `user-module` need the
# declarations below
NONVALUE_DECLS = ["let ztab = (from zsrc | select {p, q})", "module zmod {\n  let kk = 1\n}"]
NONVALUE_ROOT = [("ztab", "NTable"), ("zmod", "NModule")]
NONVALUE_MODS = [(["zmod", "kk"], "NValue")]
NONVALUE_NAMES = [
    ("date", ([], "date"), "std-module"),
    ("math", ([], "math"), "std-module"),
    ("text", ([], "text"), "std-module"),
    ("std", ([], "std"), "std-module"),
    ("std.math", (["std"], "math"), "std-module"),
    ("default_db", ([], "default_db"), "root-module"),
    ("_param", ([], "_param"), "root-module"),
    ("zmod", ([], "zmod"), "user-module"),
    ("ztab", ([], "ztab"), "let-table"),
    ("default_db.zdb", (["default_db"], "zdb"), "database-table"),
]
# value sites (the reference stands alone or inside an expression); %s = the name
VALUE_SITES = {
    "filter": "filter (%s > 0)",
    "filter-bare": "filter %s",
    "derive": "derive {zz = %s}",
    "derive-expr": "derive {zz = %s + 1}",
    "select": "select {%s}",
    "sort": "sort {%s}",
    "group-key": "group {%s} (take 1)",
    "aggregate-arg": "aggregate {zz = sum %s}",
    "window-arg": "window rolling:2 (derive {zz = sum %s})",
    "join-cond": "join side:left w (%s == 1)",
    "case": "derive {zz = case [%s == 1 => 2]}",
    "fn-arg": "derive {zz = (math.round 1 %s)}",
    "case-dead": "derive {zz = case [false => %s, true => 0]}",
    "case-dead-flag": "derive {zz = case [zflag => %s, true => 0]}",
    "case-after-true": "derive {zz = case [true => 0, true => %s]}",
}
INTERP_SITES = {
    "s-string": "derive {zz = s\"{%s} + 1\"}",
    "s-string-filter": "filter s\"{%s} > 0\"",
}


# ---------------------------------------------------------------- declarations inside modules (resolve_ident, d92afac)
class ModCase:
    """one declaration `q` inside module m (depth 1) or m.inner (depth 2) that names `n` in a relation or value position;
    `n` is declared (as a constant / relation / function / module) in q's own module, in the parent module, at the
    root, or nowhere"""
    def __init__(self, depth, kind, where, site, n):
        self.depth, self.kind, self.where, self.site, self.n = depth, kind, where, site, n

    def decl(self):
        n = self.n
        return {"const": "let %s = 4242" % n, "table": "let %s = (from zsrc | select {a, b})" % n,
                "func": "let %s = v -> v + 1" % n, "module": "module %s {\n  let kk = 1\n}" % n}[self.kind]

    def body(self):
        n = self.n
        return {"from": "from %s" % n, "join": "from zt | select {a} | join %s (==a)" % n,
                "append": "from zt | select {a, b} | append %s" % n,
                "value": "from zt | select {a} | derive {z = %s}" % n,
                "value-open": "from zt | derive {z = %s}" % n}[self.site]

    def text(self):
        ind = lambda s, k: "\n".join(" " * k + l for l in s.split("\n"))
        out = []
        if self.where == "root":
            out.append(self.decl())
        inner = []
        if self.depth == 2:
            if self.where == "parent":
                inner.append(ind(self.decl(), 2))
            sub = []
            if self.where == "own":
                sub.append(ind(self.decl(), 4))
            sub.append("    let q = (%s)" % self.body())
            inner.append("  module inner {\n%s\n  }" % "\n".join(sub))
        else:
            if self.where == "own":
                inner.append(ind(self.decl(), 2))
            inner.append("  let q = (%s)" % self.body())
        out.append("module m {\n%s\n}" % "\n".join(inner))
        out.append("from m.%sq" % ("inner." if self.depth == 2 else ""))
        return "\n".join(out)

    def coq_ms(self):
        def s(x):
            return "[" + ";".join(str(ord(c)) for c in x) + "]"
        nk = {"const": "NValue", "table": "NTable", "func": "NFunc", "module": "NModule"}[self.kind]
        cur = ["m"] + (["inner"] if self.depth == 2 else [])
        root = [("std", "NModule"), ("default_db", "NModule"), ("_param", "NModule"), ("m", "NModule")]
        mods = [(cur + ["q"], "NTable")]
        if self.depth == 2:
            mods.append((["m", "inner"], "NModule"))
        if self.where == "root":
            root.append((self.n, nk))
        elif self.where == "own":
            mods.append((cur + [self.n], nk))
        elif self.where == "parent":
            mods.append((["m", self.n], nk))
        for owner in [m for m, k in mods if k == "NModule" and m[-1] == self.n]:
            mods.append((owner + ["kk"], "NValue"))
        frame = ("(mkFrame [mkInput %s [%s] false] [])" % (s("zt"), s("a")) if self.site == "value" else
                 "(mkFrame [mkInput %s [] true] [])" % s("zt") if self.site == "value-open" else "(mkFrame [] [])")
        r = "[" + "; ".join("(%s, %s)" % (s(a), b) for a, b in root) + "]"
        m = "[" + "; ".join("([%s], %s)" % ("; ".join(s(x) for x in p), k) for p, k in mods) + "]"
        c = "[" + "; ".join(s(x) for x in cur) + "]"
        return "(mkMScope (mkScope %s %s None [] std_names) %s %s)" % (r, frame, c, m)

    def spec_visible(self):
        """is the declaration visible from q according to reference/spec/modules.md (own module, then the parents, then root)"""
        return self.where in ("own", "parent", "root")

    def describe(self):
        return {"depth": self.depth, "kind": self.kind, "where": self.where, "site": self.site, "name": self.n}


def module_cases(g, n):
    out = []
    for _ in range(n):
        depth = g.pick([1, 1, 2])
        kind = g.pick(["const", "const", "table", "func", "module"])
        where = g.pick(["own", "own", "root", "none"] + (["parent", "parent"] if depth == 2 else []))
        site = g.pick(["from", "join", "append", "value", "value-open"])
        name = g.pick(["k", "r", "zq", "cnt"]) + str(g.r.randrange(1, 9))
        out.append(ModCase(depth, kind, where, site, name))
    return out


# ---------------------------------------------------------------- type names (fold_type: this / that shadowed)
TYPE_DECLS = ["type zty = int", "let zk = 5"]
TYPE_ROOT = [("zty", "NType"), ("zk", "NValue")]
# (annotation text, ident, what) besides the columns / inputs of the frame
TYPE_NAMES = [
    # int float bool text date time timestamp are KEYWORDS of the type grammar (prqlc-parser parser/types.rs: TyKind::Primitive),
    # they never reach fold_type's identifier branch: controls, the model is not consulted
    ("int", ([], "int"), "primitive-keyword"), ("float", ([], "float"), "primitive-keyword"), ("date", ([], "date"), "primitive-keyword"),
    ("zty", ([], "zty"), "user-type"), ("zty", ([], "zty"), "user-type"), ("std.int", (["std"], "int"), "std-type"), ("std.float", (["std"], "float"), "std-type"),
    ("std.date", (["std"], "date"), "std-module-or-type"),
    ("math", ([], "math"), "module"), ("sum", ([], "sum"), "function"), ("zk", ([], "zk"), "constant"), ("nosuchty", ([], "nosuchty"), "undeclared"),
]

"""C16 -- every emitted relational query (RQ) is closed and consistently identified.

proof      Props/C16.v: rq_wf (the five clauses, executable, with diagnostics) implies that the back end's lookups
           are total and unambiguous; the Lowerer state machine keeps ids fresh / uses defined / tables declared
           before use / pipelines closed by a Select of the declared arity for ALL operation sequences.
tie        hook `lowerer-op-trace`: for every accepted program the operations lowering.rs performed on its id state are replayed, inside
           Coq, against Model/Lowerer.v (every step, every observed id, the redirect maps, and the finished RQ = the emitted RQ), and
           against the strict machine of Model/LowererVis.v (first out-of-scope operation; strict replay => rq_wf by theorem).
           For every program of a large generated family: RQ JSON of the implementation -> Coq term (vplib/rqcoq.py,
           fails loudly on an unknown node) -> rq_diags evaluated inside Coq, and a python mirror evaluated on all
           programs and cross-validated against Coq on every program evaluated in Coq.
oracle     any RQ the resolver emits that fails a clause is reported with the program as replay; the RQ is
           round-tripped through JSON and re-checked; each accepted RQ is fed to the SQL back end (sqlite): a
           missing-id panic on an RQ that passed rq_wf contradicts wf_implies_lookups_total; identifiers are only names:
           rq_to_sql gives the same SQL under an order-preserving renaming of the ids, and IdGenerator::load refuses ids
           above usize::MAX / 2 exactly as idgen_load (Model/Lowerer.v) says.
findings   open: F1 (carried sort not visible), F6 (relation parameter used twice), F7 (excluded column of a sub-pipeline),
           F8 (top-level scalar let mentioned twice), F9 (select in a group body drops the group key).
           fixed in /repo and therefore never returned by a classifier: F2 (8f24a64), F3 (7911778), F4 (3b8ac37), F5 (592b6f8),
           and the two aggregate halves of F1 (8d54bf7 outside a group, f809321 inside).
"""
import json
import os
import re

from ..common import Check, coq_eval, harness
from .. import rqcoq
from ..programs import POOL
from . import c16_gen, c16_wf, c16_trace

TRUSTED = [
    "Coq 8.16.1 kernel (coqc, vm_compute); no axioms: every theorem is 'Closed under the global context'",
    "vplib/rqcoq.py (RQ JSON -> Coq term; every unknown node kind / field raises) and prqlc's serde encoding of RQ",
    "harness/src/c16.rs (prql_to_pl, pl_to_rq, json::from_rq/to_rq, rq_to_sql) and the python comparison",
    "modelled, not verified: the resolver itself -- that the RQ it emits satisfies rq_wf is validated per program (this stream), not proved; "
    "the Lowerer state machine (Model/Lowerer.v) is a hand-written restatement of semantic/lowering.rs' use of its id generators, "
    "node_mapping, pipeline buffer and table_buffer; it is tied to the code operation by operation: hook 120eb8c `lowerer-op-trace` logs every "
    "operation on that state, vplib/props/c16_trace.py groups the events into operations (syntactic grouping, trusted) and replay_verdict, evaluated "
    "inside Coq for every accepted program, checks each step and the finished RQ (Model/LowererTrace.v; soundness: trace_replay_sound)",
    "not in the trace, hence not compared: which expression an `alias` declare lowered (its cid is an input of the operation), the reads of node_mapping by "
    "lookup_cid outside push_select (only their results, inside the pushed transforms, are checked against the guard); the key -> position mapping of "
    "utils/toposort.rs is redone in python (c16_trace.toposort_case)",
    "all hooks it needs are in /repo (120eb8c, 1b54dc3, 02d89ec, 47b05aa); without any of them the check fails closed; lower_expr / lower_range (PL expression -> RQ expression) and "
    "TableDepsCollector's traversal are not modelled: their results are compared (ids against node_mapping at every read; dependencies against the tables instantiated)",
    "the resolver's scoping is not modelled: that every operation stays within the visible set (vstep) is established per program by the strict replay; "
    "the consequence rq_wf is then a theorem (strict_runs_emit_wf_rq), and the strict verdict is cross-checked against rq_diags on every program",
    "idgen_load (Model/Lowerer.v) is tied to utils/id_gen.rs by the id-load-bounds stream (ids at usize::MAX/2, MAX/2+1, MAX through json::to_rq + rq_to_sql)",
    "the back end's lookups are modelled over the whole query (lookup_cid / lookup_tid); the real AnchorContext fills its maps "
    "incrementally, which is why visibility (strict rq_wf), not only definedness, is what it needs",
]

F1 = "C16-F1-carried-sort-not-visible"
F2 = "C16-F2-carried-sort-other-pipeline"
F3 = "C16-F3-lookup-cid-panic"
F4 = "C16-F4-duplicate-column-instance"
F5 = "C16-F5-group-partition-in-relational-argument"
F6 = "C16-F6-relation-parameter-used-twice"
F7 = "C16-F7-excluded-column-of-sub-pipeline"
F8 = "C16-F8-let-value-used-twice"
F9 = "C16-F9-select-in-group-drops-key"

MISSING_ID_PANIC = re.compile(r"no entry found for key|cannot find cid|called `Option::unwrap\(\)` on a `None` value")
ID_LOOKUP_FILES = ("sql/pq/context.rs", "sql/pq/anchor.rs", "sql/pq/positional_mapping.rs", "semantic/lowering.rs")


def canon_coq(v):
    out = []
    for d in v:
        out.append((d,) if isinstance(d, str) else tuple(d))
    return out


SORTSITE = ("STakeSort", "SWinSort")
PARTSITE = ("STakePartition", "SWinPartition", "SAggPartition")


def relation_at(q, w):
    return q[1][w][3] if w < len(q[1]) else q[2]


def dup_column_tables(q):
    """cids defined inside tables whose declared columns repeat a RelationColumn (before 3b8ac37 create_a_table_instance
    de-duplicated them with .unique(), so an instance had fewer columns than the table's closing Select: finding F4, fixed)"""
    out = set()
    for t in q[1]:
        cols = t[3][2]
        if len(set(cols)) != len(cols):
            out |= set(c16_wf.relation_defs(t[3]))
    return out


def rel_param_twice(src):
    """the program declares and calls a function whose last (relation) parameter is mentioned at least twice in its
    body: the argument pipeline -- one PL node -- is lowered twice"""
    for m in re.finditer(r"(?m)^let\s+(\w+)\s*=\s*([^\n]*?)->\s*(.*)$", src):
        name, params, body = m.group(1), m.group(2), m.group(3)
        ps = [w for w in re.findall(r"[A-Za-z_]\w*(?::\S+)?", params) if ":" not in w and w != "func"]
        if not ps:
            continue
        last = ps[-1]
        if len(re.findall(r"\b%s\b" % re.escape(last), body)) >= 2 and re.search(r"\b%s\b" % re.escape(name), src[m.end():]):
            return True
    return False


def let_value_twice(src):
    """the program declares a top-level scalar value (`let NAME = expr`: no `->`, not a relation) and mentions it at least twice:
    every mention is inlined with the declaration's one PL node id"""
    for m in re.finditer(r"(?m)^let\s+(\w+)\s*=\s*(.*)$", src):
        name, body = m.group(1), m.group(2).strip()
        if "->" in body or re.match(r"\(?\s*(from|from_text|read_csv|read_parquet|read_json)\b", body) or body.startswith(("[", "(\n", 's"', "s'")) or body == "(":
            continue
        if len(re.findall(r"\b%s\b" % re.escape(name), src[m.end():])) >= 2:
            return True
    return False


def paren_body(src, i):
    """text between the parenthesis at src[i] and its match"""
    depth = 0
    for j in range(i, len(src)):
        if src[j] == "(":
            depth += 1
        elif src[j] == ")":
            depth -= 1
            if depth == 0:
                return src[i + 1:j]
    return src[i + 1:]


def select_in_group_body(src):
    for m in re.finditer(r"\bgroup\s*(\{[^}]*\}|[\w.`]+)\s*\(", src):
        if re.search(r"\bselect\b", paren_body(src, m.end() - 1)):
            return True
    return False


def closing_select_readds(q, w):
    """ids of relation w's closing Select that the Select immediately in front of it does not list although they were visible
    before that Select (a `select` in a group body drops the group key, the lineage keeps it)"""
    r = relation_at(q, w)
    if r[1][0] != "KPipeline":
        return set()
    p = r[1][1]
    if len(p) < 3 or p[-1][0] != "TSelect" or p[-2][0] != "TSelect":
        return set()
    vis = set()
    for t in p[:-2]:
        k = t[0]
        if k == "TFrom":
            vis |= set(c16_wf.tref_cids(t[1]))
        elif k == "TJoin":
            vis |= set(c16_wf.tref_cids(t[2]))
        elif k == "TCompute":
            vis |= {t[1]}
        elif k == "TSelect":
            vis = set(t[1])
        elif k == "TAggregate":
            vis = set(t[1]) | set(t[2])
    return (set(p[-1][1]) - set(p[-2][1])) & vis


def partition_ids(q, w):
    """ids used as partition (group key) by a Take, an Aggregate or a window of relation w"""
    r = relation_at(q, w)
    out = set()

    def walk(p):
        for t in p:
            if t[0] == "TTake":
                out.update(t[2])
            elif t[0] == "TAggregate":
                out.update(t[1])
            elif t[0] == "TCompute" and t[3] is not None:
                out.update(t[3][3])
            elif t[0] == "TLoop":
                walk(t[1])
    if r[1][0] == "KPipeline":
        walk(r[1][1])
    return out


def exclusion_in_sub_pipeline(src):
    for m in re.finditer(r"select\s*!\{", src):
        if src[:m.start()].count("(") > src[:m.start()].count(")"):
            return True
    return False


def carried_sort_droppers(q, w, c):
    """for every Take / windowed Compute of relation w whose carried sort names id c while c is not visible: the kind of
    the transform that narrowed c away last ("Select", "Aggregate-in-group", "Aggregate"; None = c never was visible
    in front of that use)"""
    r = relation_at(q, w)
    kinds = set()
    if r[1][0] != "KPipeline":
        return kinds

    def walk(p, vis, last):
        for t in p:
            k = t[0]
            if k == "TFrom":
                vis = vis | set(c16_wf.tref_cids(t[1]))
            elif k == "TJoin":
                vis = vis | set(c16_wf.tref_cids(t[2]))
            elif k == "TCompute":
                if t[3] is not None and c in [x for _, x in t[3][4]] and c not in vis:
                    kinds.add(last)
                vis = vis | {t[1]}
            elif k == "TTake":
                if c in [x for _, x in t[3]] and c not in vis:
                    kinds.add(last)
            elif k == "TSelect":
                if c in vis and c not in t[1]:
                    last = "Select"
                vis = set(t[1])
            elif k == "TAggregate":
                nv = set(t[1]) | set(t[2])
                if c in vis and c not in nv:
                    last = "Aggregate-in-group" if t[1] else "Aggregate"
                vis = nv
            elif k == "TLoop":
                walk(t[1], set(vis), last)
    walk(r[1][1], set(), None)
    return kinds


# f809321 (an aggregate inside a group ends the sort too) repaired the group-aggregate dropper; 8d54bf7 the plain one
F1_DROPPERS = {"Select"}


def excluded_from_columns(q, w):
    """From-instance columns of the tables that relation w instantiates which those tables' closing Select does not
    export (what `select !{..}` -- or any narrowing select -- inside a sub-pipeline removed)"""
    r = relation_at(q, w)
    if r[1][0] != "KPipeline":
        return set()
    used = set()

    def walk(p):
        for t in p:
            if t[0] in ("TFrom", "TAppend"):
                used.add(t[1][1])
            elif t[0] == "TJoin":
                used.add(t[2][1])
            elif t[0] == "TLoop":
                walk(t[1])
    walk(r[1][1])
    out = set()
    for t in q[1]:
        if t[1] in used and t[3][1][0] == "KPipeline":
            p = t[3][1][1]
            if p and p[0][0] == "TFrom" and p[-1][0] == "TSelect":
                out |= set(c16_wf.tref_cids(p[0][1])) - set(p[-1][1])
    return out


def classify_diags(q, diags, src=""):
    """id of the OPEN finding that explains ALL diagnostics of this RQ, or None (= VIOLATION).  Only F1, F6, F7, F8 and F9 can be
    returned: the classes of the repaired findings (F2, F4, F5, the plain-aggregate half of F1) are not tolerated and
    are named by regression_of() in the violation text."""
    if not diags:
        return None
    if all(d[0] in ("DForeign", "DNotVisible") for d in diags) and rel_param_twice(src):
        return F6
    if all(d[0] in ("DForeign", "DNotVisible") for d in diags) and let_value_twice(src):
        return F8
    f1 = [d for d in diags if c16_wf.lax_diag(d)]
    rest = [d for d in diags if d not in f1]
    for d in f1:
        kinds = carried_sort_droppers(q, d[1], d[3])
        if not kinds or not kinds <= F1_DROPPERS:
            return None
    if rest:
        # F7: a column excluded by `select !{..}` inside a joined sub-pipeline is still resolvable from outside and is
        # bound to the sub-pipeline's own From column
        if exclusion_in_sub_pipeline(src) and all(d[0] == "DForeign" and d[3] in excluded_from_columns(q, d[1]) for d in rest):
            return F7
        # F9: a `select` in a group body drops the group key, the closing Select (from the lineage) names it again
        # (or a later transform of the group body / of the pipeline uses the key: it is a partition id of that relation)
        if select_in_group_body(src) and all(d[0] == "DNotVisible" and (d[3] in closing_select_readds(q, d[1]) or d[3] in partition_ids(q, d[1])) for d in rest):
            return F9
        return None
    return F1


def regression_of(q, diags, src=""):
    """names of repaired findings whose class the diagnostics fall into (for the text of the violation only)"""
    out = []
    if any(d[0] == "DForeign" and d[2] in SORTSITE for d in diags):
        out.append(F2)
    if any(d[0] == "DForeign" and d[2] in PARTSITE for d in diags):
        out.append(F5)
    leaked = dup_column_tables(q)
    if any(d[0] == "DForeign" and d[2] not in SORTSITE + PARTSITE and d[3] in leaked for d in diags):
        out.append(F4)
    if any(c16_wf.lax_diag(d) and "Aggregate" in carried_sort_droppers(q, d[1], d[3]) for d in diags):
        out.append(F1 + " (the plain-aggregate half, repaired by 8d54bf7)")
    if any(c16_wf.lax_diag(d) and "Aggregate-in-group" in carried_sort_droppers(q, d[1], d[3]) for d in diags):
        out.append(F1 + " (the group-aggregate half, repaired by f809321)")
    return out


def agg_overlaps(q):
    """mirror of Model/RqAgg.v agg_overlaps: ids that an Aggregate lists both in `partition` and in `compute` (C12-N18)"""
    out = []

    def walk(p):
        for t in p:
            if t[0] == "TAggregate":
                out.extend(x for x in t[1] if x in t[2])
            elif t[0] == "TLoop":
                walk(t[1])
    for t in q[1]:
        if t[3][1][0] == "KPipeline":
            walk(t[3][1][1])
    if q[2][1][0] == "KPipeline":
        walk(q[2][1][1])
    return out


def regression_text(ids):
    return "" if not ids else " -- REGRESSION: this is the class of repaired finding(s) " + ", ".join(ids)


def classify_lowerer_failure(case):
    """a panic inside semantic/lowering.rs or one of its `internal compiler error`s: no open finding covers any
    (F3's panic was turned into a compile error by 7911778; the programs of F6 no longer reach it either)"""
    return None


def lowerer_regression(case):
    p = case.get("panic") or {}
    if "cannot find cid by id=" in p.get("msg", ""):
        return [F3]
    return []


def programs(ck):
    g = c16_gen.Gen(ck.rng, closed=False)
    n = ck.n(1000, 9000)
    progs = list(POOL) + list(c16_gen.FIXED)
    feats = []
    for _ in range(n):
        p = g.program()
        progs.append(p.text())
        feats.append(p.features)
    # a slice of fully declared (closed-frame) programs as well
    g2 = c16_gen.Gen(ck.rng, closed=True)
    for _ in range(ck.n(200, 1500)):
        progs.append(g2.program().text())
    return list(dict.fromkeys(progs))


def run():
    ck = Check("C16", level="proof")
    pr = ck.prove()

    replay = os.environ.get("VERIF_REPLAY")
    if replay:
        rp = json.load(open(replay))
        progs = [rp["replay"]["program"]] if "program" in rp.get("replay", {}) else []
    else:
        progs = programs(ck)

    # ---------------------------------------------------------------- 1. the implementation's RQ (and its JSON round trip)
    ans = harness("c16_rq", [{"src": p} for p in progs])
    accepted = []   # (program, q)
    rawjson = {}    # program -> RQ JSON as emitted
    for p, a in zip(progs, ans):
        if "ok" in a:
            try:
                q = rqcoq.norm(a["ok"])
            except rqcoq.RqConvError as ex:
                ck.count("rq-wf", p)
                ck.violation("RQ JSON has a node the model does not know (RQ definition changed?): %s" % ex, {"program": p, "error": str(ex)})
                continue
            accepted.append((p, q))
            rawjson[p] = a["ok"]
            # JSON round trip: same value, same normal form
            ck.count("rq-json-roundtrip", p)
            if "rt" not in a:
                ck.violation("RQ does not survive its own JSON form", {"program": p, "rt_err": a.get("rt_err")})
            else:
                try:
                    q2 = rqcoq.norm(a["rt"])
                except rqcoq.RqConvError as ex:
                    q2 = None
                if not a.get("rt_value_eq") or q2 != q or c16_wf.rq_diags(q2) != c16_wf.rq_diags(q):
                    ck.violation("RQ changes through JSON (to_rq . from_rq)", {"program": p, "value_eq": a.get("rt_value_eq")})
        elif "err" in a:
            ck.stat("rq-wf", "rejected-by-resolver")
            reasons = " | ".join(e.get("reason", "") for e in a["err"])
            if "internal compiler error" in reasons and re.search(r"3870|4474|4317", reasons):
                ck.count("lowerer-internal", p)
                ck.disagreement("the Lowerer's own id lookup failed (internal compiler error) on a generated program",
                                {"program": p, "errors": reasons}, classify_lowerer_failure)
            elif "cannot refer to column" in reasons and "of this table by name" in reasons:
                # what lookup_cid reports since 7911778 instead of panicking (F3, fixed): no RQ is emitted
                ck.stat("rq-wf", "rejected:lookup_cid-by-name(was F3's panic)")
        elif "panic" in a:
            loc = a["panic"].get("loc", "")
            if "semantic/lowering.rs" in loc:
                ck.count("lowerer-internal", p)
                ck.stat("lowerer-internal", "panic:" + loc.split("/src/")[-1])
                case = {"program": p, "panic": a["panic"]}
                reg = lowerer_regression(case)
                ck.disagreement("panic inside the Lowerer: %s (%s)%s" % (a["panic"].get("msg", "")[:120], loc, regression_text(reg)),
                                case, classify_lowerer_failure)
            else:
                ck.stat("rq-wf", "resolver-panic-elsewhere(C12):" + loc.split("/src/")[-1])
        else:
            ck.stat("rq-wf", "abort")

    # ---------------------------------------------------------------- 2. python mirror on ALL programs
    py = {}
    for p, q in accepted:
        d = c16_wf.rq_diags(q)
        py[p] = d
        ck.count("rq-wf", p)
        for k in c16_wf.shape(q):
            ck.stat("rq-wf", "shape:" + k)
        ck.stat("rq-wf", "wf" if not d else ("lax-only(F1)" if all(c16_wf.lax_diag(x) for x in d) else "NOT-WF"))
        ov = agg_overlaps(q)
        ck.stat("rq-wf", "aggregate partitions disjoint from their computes" if not ov else "AGGREGATE-PARTITIONED-BY-ITS-OWN-COLUMN")
        if ov:
            ck.violation("the resolver emitted an RQ whose Aggregate is partitioned by its own aggregated column(s) %s (rq_agg_ok, Model/RqAgg.v; the SQL back end "
                         "does not terminate on this shape: C12-N18)" % ov, {"program": p, "ids": ov, "rq": rqcoq.to_coq(q)})
        if d:
            case = {"program": p, "diagnostics": [list(x) for x in d], "rq": rqcoq.to_coq(q)}
            ck.disagreement("the resolver emitted an RQ that violates the property: %s%s" % (d[:4], regression_text(regression_of(q, d, p))), case,
                            lambda c, q=q, d=d: classify_diags(q, d, c.get("program", "")))

    # ---------------------------------------------------------------- 3. the same predicate evaluated in Coq, cross-validated
    # (for the programs whose trace is replayed below, rq_diags is evaluated in the replay's expression: the RQ term is parsed once)
    coq_ok = bool(accepted) and bool(pr["ok"] or os.path.exists(os.path.join(os.path.dirname(__file__), "..", "..", "coq", "Model", "RqWf.vo")))
    replay_n = ck.n(600, 5000)
    mirror_done = set()

    def mirror_compare(p, q, v, ov):
        ck.count("coq-vs-mirror", p)
        mirror_done.add(p)
        if ov is not None and list(ov) != agg_overlaps(q):
            ck.violation("python mirror of agg_overlaps disagrees with the Coq definition", {"program": p, "coq": str(ov)})
        if v is None or canon_coq(v) != [tuple(x) for x in py[p]]:
            ck.violation("python mirror of rq_wf disagrees with the Coq definition (bug in the check, or the model changed)",
                         {"program": p, "coq": str(v), "mirror": [list(x) for x in py[p]]})

    def coq_vs_mirror(sel):
        nonlocal coq_ok
        if not sel or not coq_ok:
            return
        try:
            vals = coq_eval(rqcoq.COQ_HEADER.replace("Model.RqWf.", "Model.RqWf Model.RqAgg."), ["(let q := %s in (rq_diags q, agg_overlaps q))" % rqcoq.to_coq(q) for _, q in sel])
            for (p, q), v2 in zip(sel, vals):
                ok2 = isinstance(v2, tuple) and len(v2) == 2
                mirror_compare(p, q, v2[0] if ok2 else None, v2[1] if ok2 else None)
        except RuntimeError as ex:
            coq_ok = False
            ck.coverage["model_eval_error"] = str(ex)[-600:]

    coq_vs_mirror(accepted[replay_n:])
    ck.coverage["coq_evaluated"] = coq_ok

    # ---------------------------------------------------------------- 3b. the Lowerer machine against lowering.rs, operation by operation
    # hook `lowerer-op-trace`: every operation on the Lowerer's id state, in order -> operations of Model/Lowerer.v with what the
    # code observed -> replay_verdict evaluated inside Coq: every operation must be a step of the machine, the state after it must
    # show the observed ids / transform / redirect map, and the finished run must BE the RQ the implementation returned
    tr_all = harness("c16_trace", [{"src": p} for p in progs])
    tr_of = dict(zip(progs, tr_all))
    tr = [tr_of[p] for p, _ in accepted]
    cases, nohook = [], 0
    hook_missing = {}
    norm_of = dict(accepted)
    for (p, q), a in zip(accepted, tr):
        ck.count("lowerer-op-trace", p)
        if "ok" not in a:
            ck.violation("pl_to_rq accepted this program once and not the second time (c16_rq vs c16_trace)", {"program": p, "answer": {k: v for k, v in a.items() if k != "ops"}})
            continue
        if a.get("bad_ops"):
            ck.violation("hook lowerer-op-trace logged a line that is not JSON", {"program": p, "lines": a["bad_ops"][:3]})
            continue
        if not a.get("ops"):
            nohook += 1
            continue
        try:
            q2 = rqcoq.norm(a["ok"])
        except rqcoq.RqConvError as ex:
            ck.violation("RQ JSON has a node the model does not know: %s" % ex, {"program": p})
            continue
        if q2 != q:
            ck.violation("two compilations of one program give different RQs (ids are not a function of the program)", {"program": p})
            continue
        try:
            term, nops, hist = c16_trace.to_ops(a["ops"])
        except c16_trace.HookMissing as ex:
            hook_missing[str(ex)] = hook_missing.get(str(ex), 0) + 1
            continue
        except (c16_trace.TraceError, rqcoq.RqConvError, KeyError, TypeError) as ex:
            ck.stat("lowerer-op-trace", "TRACE-DOES-NOT-PARSE")
            ck.violation("the op trace of lowering.rs does not parse into operations of the Lowerer machine (hook or lowering.rs changed?): %s" % ex,
                         {"program": p, "error": str(ex), "events": [e.get("op") for e in a["ops"]][:80]})
            continue
        for k, v in hist.items():
            ck.stat("lowerer-op-trace", "op:" + k, v)
        cases.append((p, term, rqcoq.to_coq(q), nops, a))
    if nohook:
        # fail closed: without the hook there is no trace, and nothing was compared
        ck.violation("hook `lowerer-op-trace` (verif:lowerer_op lines of semantic/lowering.rs, /repo 120eb8c) logged nothing for %d accepted program(s): "
                     "the Lowerer machine was NOT compared with the code" % nohook, {"programs_without_trace": nohook}, no_input=True)
    for why, cnt in hook_missing.items():
        ck.violation("%s: %d trace(s) could not be replayed -- the Lowerer machine was NOT compared with the code" % (why, cnt), {"reason": why, "programs": cnt}, no_input=True)
    # parsing the trace terms is what costs: the quick tier replays the first 600 accepted programs (the pool, the fixed shapes and ~350 generated ones),
    # the thorough tier the first 5000
    first_n = set(p for p, _ in accepted[:replay_n])
    ck.coverage["op_trace_not_replayed_in_this_tier"] = sum(1 for c in cases if c[0] not in first_n)
    cases = [c for c in cases if c[0] in first_n]
    trace_ok = 0
    have_lookups = any(c16_trace.has_lookup_hook(c[4]["ops"]) for c in cases)
    if cases and not have_lookups:
        ck.violation("no `lookup_in` / `lookup_all` event in %d traces (hooks/lookup-cid.diff is not in this tree): the reads of node_mapping were NOT compared "
                     "with lookup_cid_m, and where out-of-scope ids enter was not established" % len(cases), {"traces": len(cases)}, no_input=True)
    else:
        ck.coverage["lookup_reads_compared"] = sum(c[1].count("(BLookup ") + c[1].count("(BLookupAll ") for c in cases)
        nsel = sum(c[1].count("(BSelectedAll ") for c in cases)
        ck.coverage["selected_all_compared"] = nsel
        if not nsel and any("select !{" in c[0] or "select {!" in c[0] for c in cases):
            ck.violation("no `selected_all` event although %d program(s) use `select !{..}` (hooks/selected-all.diff is not in this tree): find_selected_all was NOT compared "
                         "with retain_m" % sum(1 for c in cases if "select !{" in c[0]), {"traces": len(cases)}, no_input=True)
    if coq_ok:
        try:
            # both verdicts of one trace in one expression (the term is parsed once).  The frames of OEndTable / OEndInline are
            # computed by the machine from the lineage (push_select_m) and compared with what push_select returned (BFrame)
            both = coq_eval(c16_trace.COQ_HEADER, ["(let l := %s in let q := %s in (replay_l_verdict false l q, replay_l_verdict true l q, first_out_of_scope_read init l 0, entries_verdict l q, rq_diags q, agg_overlaps q, sorts_verdict l))" % (t, qc) for _, t, qc, _, _ in cases]) if cases else []
            vals = [b[0] if isinstance(b, tuple) else None for b in both]
            strict = dict((c[0], b[1]) for c, b in zip(cases, both) if isinstance(b, tuple))
            entry = dict((c[0], b[2]) for c, b in zip(cases, both) if isinstance(b, tuple))
            entv = dict((c[0], b[3]) for c, b in zip(cases, both) if isinstance(b, tuple))
            for c, b in zip(cases, both):
                if isinstance(b, tuple) and len(b) == 7:
                    mirror_compare(c[0], norm_of[c[0]], b[4], b[5])
                    # lower_sorts / aggregate: the ids of Sort, Take.sort, Window.sort, Aggregate.compute are consecutive declare results
                    ck.count("sorts-window", c[0])
                    ck.stat("sorts-window", "ids are consecutive declare results" if b[6] == 0 else "REFUSED")
                    if b[6] != 0 and b[0] == 0:
                        kinds = c16_trace.op_kinds(c[4]["ops"])
                        ck.violation("the ids of a Sort / Take.sort / Window.sort / Aggregate.compute are not the ids the declares in front of it handed back (operation %s, %s): "
                                     "lower_sorts or declare_as_columns changed?" % (b[6] - 1, kinds[b[6] - 1] if isinstance(b[6], int) and 0 < b[6] <= len(kinds) else "?"),
                                     {"program": c[0], "verdict": b[6]})
        except RuntimeError as ex:
            vals = None
            ck.coverage["trace_eval_error"] = str(ex)[-600:]
            ck.violation("the op-trace replay could not be evaluated in Coq", {"error": str(ex)[-600:]}, no_input=True)
        for (p, term, qc, nops, a), v in zip(cases, vals or []):
            if v == 0:
                trace_ok += 1
                ck.stat("lowerer-op-trace", "agrees")
            else:
                ck.stat("lowerer-op-trace", "DISAGREES")
                kinds = c16_trace.op_kinds(a["ops"])
                where = ("operation %d of %d (%s) is not a step of the machine, or the state after it / the frame it computes does not show what the code observed" % (v - 1, nops, kinds[v - 1])) if isinstance(v, int) and v <= nops \
                    else "all %d operations agree but the finished run is not the RQ the implementation returned" % nops
                ck.violation("Model/Lowerer.v disagrees with semantic/lowering.rs: %s" % where,
                             {"program": p, "verdict": v, "operations": nops, "events": a["ops"][:120]})
        # clause 2 as an invariant of the machine: the same trace under the STRICT machine (vstep = step + every emitted transform uses
        # only ids of the visible set of the pipeline under construction).  strict replay => rq_wf of the RQ by theorem; conversely the
        # first operation the strict machine refuses is where an out-of-scope id reached the Lowerer.  The verdict must agree with
        # rq_diags evaluated on the finished RQ, program by program.
        agreeing = [(c, v) for c, v in zip(cases, vals or []) if v == 0]
        svals = [strict.get(c[0]) for c, _ in agreeing]
        for ((p, term, qc, nops, a), _), sv in zip(agreeing, svals):
            ck.count("strict-machine", p)
            d = py[p]
            # the entry discipline (Model/LowererEntries.v): scope of every read + "ColumnRefs within entries".  By theorem it implies the
            # strict replay; how often it also holds of a well-formed program is the completeness of the explanation
            ev_ = entv.get(p)
            if have_lookups and ev_ is not None:
                if ev_ == 0 and sv != 0:
                    ck.stat("entry-discipline", "CONTRADICTS-THEOREM")
                    ck.violation("a trace passes the entry discipline but not the strict machine: contradicts entry_discipline_implies_strict_step", {"program": p, "strict_verdict": sv})
                elif ev_ == 0:
                    ck.stat("entry-discipline", "holds (every id an expression got was read in scope)")
                elif sv == 0:
                    kinds = c16_trace.op_kinds(a["ops"])
                    ck.stat("entry-discipline", "well-formed program, discipline refused at: " + (kinds[ev_ - 1] if isinstance(ev_, int) and 0 < ev_ <= len(kinds) else "?"))
                else:
                    ck.stat("entry-discipline", "refused, as the strict machine (known finding)")
                ck.count("entry-discipline", p)
            if sv == 0 and not d:
                ck.stat("strict-machine", "strict-replay-ok = rq_wf")
            elif sv != 0 and d:
                kinds = c16_trace.op_kinds(a["ops"])
                k = kinds[sv - 1] if isinstance(sv, int) and 0 < sv <= len(kinds) else "?"
                ck.stat("strict-machine", "refused = not rq_wf (known finding), refused operation: " + k)
                # where the out-of-scope id entered: a read of lookup_cid or a declare answered from node_mapping whose result was
                # not visible at that moment.  Every refusal must be preceded by such an entry (ids reach expressions in no other way)
                en = entry.get(p)
                if not have_lookups:
                    pass
                elif isinstance(en, tuple) and en[0] == "Some":
                    at, (node, (nm, home)) = en[1]
                    ek = kinds[at] if isinstance(at, int) and at < len(kinds) else "?"
                    how = ek if ek.startswith("ODeclare") and nm == "None" else "push_select (closing Select)" if home == 3 else "a lookup_cid read"
                    where = {0: " of an id of a relation that is already closed (not exported by its closing Select: F7's shape)",
                             1: " of an id the pipeline under construction has dropped", 2: " of an id of an enclosing, suspended pipeline"}.get(home, "")
                    ck.stat("strict-machine", "out-of-scope id entered through: " + how + where)
                    if isinstance(at, int) and isinstance(sv, int) and at > sv - 1:
                        ck.stat("strict-machine", "ENTRY-AFTER-REFUSAL")
                        ck.violation("the strict machine refuses operation %d although no out-of-scope id had entered an expression before it (first such entry: operation %d)" % (sv - 1, at),
                                     {"program": p, "strict_verdict": sv, "entry": str(en)})
                elif have_lookups:
                    ck.stat("strict-machine", "NO-ENTRY")
                    ck.violation("the strict machine refuses operation %d but every lookup_cid read and every cached declare of the trace returned a visible id: "
                                 "an id reached an expression some other way" % (sv - 1), {"program": p, "strict_verdict": sv})
            else:
                ck.stat("strict-machine", "MISMATCH")
                ck.violation("the strict Lowerer machine (Model/LowererVis.v) and rq_diags disagree on one program: strict verdict %s, diagnostics %s" % (sv, d[:3]),
                             {"program": p, "strict_verdict": sv, "diagnostics": [list(x) for x in d]})
        # compilations that ended in an error after lowering had begun: the operations performed up to the error must be a run of
        # the machine, and when the error came out of push_select the model's push_select must fail on the same input
        pre = []
        accepted_set = set(p for p, _ in accepted)
        for p in progs:
            a = tr_of[p]
            if p in accepted_set or "ok" in a or not a.get("ops"):
                continue
            try:
                term, nops, pend = c16_trace.to_prefix(a["ops"])
            except c16_trace.HookMissing:
                continue
            except (c16_trace.TraceError, rqcoq.RqConvError, KeyError, TypeError) as ex:
                ck.count("op-trace-prefix", p)
                ck.stat("op-trace-prefix", "TRACE-DOES-NOT-PARSE")
                ck.violation("the op trace of a rejected program does not parse into operations of the Lowerer machine: %s" % ex, {"program": p, "error": str(ex)})
                continue
            pre.append((p, term, nops, pend, a))
        if pre:
            pv = coq_eval(c16_trace.COQ_HEADER, ["(replay_prefix_verdict %s %s)" % (t, "None" if pe is None else "(Some %s)" % pe) for _, t, _, pe, _ in pre])
            for (p, term, nops, pend, a), v in zip(pre, pv):
                ck.count("op-trace-prefix", p)
                ck.stat("op-trace-prefix", ("prefix-is-a-run" if v == 0 else "PREFIX-IS-NOT-A-RUN") + (" (error raised by push_select: the model fails too)" if pend and v == 0 else ""))
                if v != 0:
                    ck.violation("the operations lowering.rs performed before it reported an error are not a run of the Lowerer machine (verdict %s of %d%s)"
                                 % (v, nops, "; push_select failed in the code but not in the model" if pend and isinstance(v, int) and v == nops + 1 else ""),
                                 {"program": p, "verdict": v, "errors": " | ".join(e.get("reason", "") for e in a.get("err", []))[:300], "events": a["ops"][:120]})
        # toposort_tables: input and output of the call (hooks/toposort-tables.diff) against the toposort model, and the order in which
        # tables are then lowered (extern / table events) against its output
        tcases, no_topo = [], 0
        for p in progs:
            a = tr_of[p]
            if not a.get("ops"):
                continue
            if not a.get("toposort"):
                no_topo += 1
                continue
            for t in a["toposort"]:
                try:
                    tcases.append((p, a, t, c16_trace.toposort_case(t)))
                except (KeyError, TypeError, ValueError) as ex:
                    ck.violation("hook toposort_tables logged something unexpected: %s" % ex, {"program": p})
        if no_topo:
            ck.violation("hook `toposort_tables` (hooks/toposort-tables.diff) logged nothing for %d program(s) that were lowered: the toposort model was NOT "
                         "compared with the code" % no_topo, {"programs_without_toposort_event": no_topo}, no_input=True)
        if tcases:
            tv = coq_eval(c16_trace.COQ_HEADER, [c[3][0] for c in tcases])
            for (p, a, t, (expr, order, names)), v in zip(tcases, tv):
                ck.count("toposort-tables", p)
                ok = isinstance(v, tuple) and v[0] == "Some" and list(v[1]) == order
                lowered = c16_trace.lowered_names(a["ops"])
                expect = [n_[-1] for n_ in names]
                # a compilation that failed stops lowering tables early: the names lowered must be a prefix of the order
                order_ok = lowered == expect[:len(lowered)] and ("ok" not in a or len(lowered) == len(expect))
                ck.stat("toposort-tables", "agrees" if ok and order_ok else "DISAGREES")
                ck.stat("toposort-tables", "tables=%d" % min(len(order), 6))
                if "ok" in a:
                    bad = c16_trace.deps_vs_refs(a["ops"], t)
                    ck.stat("toposort-tables", "TableDepsCollector = tables instantiated" if not bad else "DEPS-DIFFER-FROM-REFERENCES")
                    if bad:
                        ck.violation("the dependencies toposort_tables was given (TableDepsCollector) are not the declared tables the lowering of that table instantiates: %s" % (bad[:2],),
                                     {"program": p, "differences": bad[:5]})
                if not ok:
                    ck.violation("utils/toposort.rs and the toposort model (Model/Lowerer.v) disagree", {"program": p, "event": t, "model": str(v)})
                elif not order_ok:
                    ck.violation("tables are not lowered in the order toposort_tables returned", {"program": p, "order": names, "lowered": lowered})
        # the comparison has teeth: a trace with one id changed, one event dropped or one redirect pair removed must NOT replay
        muts, meta = [], []
        for p, term, qc, nops, a in cases[:ck.n(60, 400)]:
            for name, ops2 in c16_trace.perturbations(a["ops"], ck.rng):
                try:
                    t2, _, _ = c16_trace.to_ops(ops2, a["ok"])
                except (c16_trace.TraceError, rqcoq.RqConvError, KeyError, TypeError):
                    ck.count("op-trace-selftest", p + "|" + name)
                    ck.stat("op-trace-selftest", name + ":rejected-by-grammar")
                    continue
                muts.append("(replay_l_ok false %s %s)" % (t2, qc))
                meta.append((p, name))
        if muts:
            for (p, name), v in zip(meta, coq_eval(c16_trace.COQ_HEADER, muts)):
                ck.count("op-trace-selftest", p + "|" + name)
                ck.stat("op-trace-selftest", name + (":rejected-by-replay" if v is False else ":ACCEPTED"))
                if v is not False:
                    ck.violation("the op-trace replay accepts a corrupted trace (%s): the correspondence check is not discriminating" % name, {"program": p, "perturbation": name})
    # programs of the replay sample whose trace could not be replayed (hook missing, trace does not parse): rq_diags the ordinary way
    coq_vs_mirror([(p, q) for p, q in accepted if p not in mirror_done])
    ck.coverage["op_trace"] = {"programs_replayed": len(cases), "agree": trace_ok, "operations": sum(c[3] for c in cases), "programs_without_trace": nohook}

    # ---------------------------------------------------------------- 4. feed each accepted RQ to the SQL back end
    reqs = [{"src": p, "target": "sql.sqlite"} for p, _ in accepted]
    be = harness("compile", reqs)
    for (p, q), a in zip(accepted, be):
        ck.count("backend-lookups", p)
        if "panic" in a:
            loc, msg = a["panic"].get("loc", ""), a["panic"].get("msg", "")
            missing = bool(MISSING_ID_PANIC.search(msg)) and any(f in loc for f in ID_LOOKUP_FILES)
            ck.stat("backend-lookups", ("missing-id-panic:" if missing else "other-panic(C12):") + loc.split("/src/")[-1])
            if missing:
                d = py[p]
                case = {"program": p, "panic": a["panic"], "diagnostics": [list(x) for x in d]}
                if not d:
                    ck.violation("back-end lookup of an id failed on an RQ that passed rq_wf -- contradicts wf_implies_lookups_total: %s (%s)" % (msg[:100], loc), case)
                else:
                    # explained by the RQ not being well-formed: already reported / classified above
                    ck.stat("backend-lookups", "missing-id-panic-on-non-wf-rq")
        elif "ok" in a:
            ck.stat("backend-lookups", "sql")
        else:
            ck.stat("backend-lookups", "error")

    # ---------------------------------------------------------------- 4b. identifiers are only names: the staged API's second half
    # (json::to_rq -> rq_to_sql; AnchorContext::of loads its id generators from the query, utils/id_gen.rs) must give the same SQL
    # for the same RQ under an order-preserving renaming of its column and table ids, and must refuse -- not overflow on --
    # an id above usize::MAX / 2 (79f4a51; Props/C16.v idgen_load_*)
    USIZE_MAX = (1 << 64) - 1
    sel = [(p, q) for p, q in accepted if not py[p]][:ck.n(250, 2500)]
    if sel:
        K = 1 + ck.rng.randrange(1, 5000)
        base = harness("c16_rq2sql", [{"rq": rawjson[p], "target": "sql.sqlite"} for p, _ in sel])
        ren = harness("c16_rq2sql", [{"rq": rqcoq.rename_ids(rawjson[p], lambda c: 2 * c + K, lambda t: 3 * t + K), "target": "sql.sqlite"} for p, _ in sel])
        for (p, q), b, r in zip(sel, base, ren):
            ck.count("id-renaming", p)
            kb = next((k for k in ("ok", "err", "panic") if k in b), "other")
            kr = next((k for k in ("ok", "err", "panic") if k in r), "other")
            ck.stat("id-renaming", "same:" + kb if (kb == kr and b.get("ok") == r.get("ok")) else "DIFFERENT")
            if kb != kr or b.get("ok") != r.get("ok"):
                ck.violation("rq_to_sql gives a different result for the same RQ after an order-preserving renaming of its ids (c -> 2c+%d, t -> 3t+%d)" % (K, K),
                             {"program": p, "before": b, "after": r})
        # the bounds of IdGenerator::load
        small = sel[:ck.n(40, 300)]
        reqs, meta = [], []
        for p, q in small:
            cids = sorted(set(c16_wf.all_defs(q)))
            tids = [t[1] for t in q[1]]
            if not cids:
                continue
            cm = cids[-1]
            for what, val in (("max/2", USIZE_MAX // 2), ("max/2+1", USIZE_MAX // 2 + 1), ("max", USIZE_MAX)):
                reqs.append({"rq": rqcoq.rename_ids(rawjson[p], lambda c, cm=cm, val=val: val if c == cm else c, lambda t: t), "target": "sql.sqlite"})
                meta.append((p, "cid", what))
            if tids:
                tm = max(tids)
                for what, val in (("max/2", USIZE_MAX // 2), ("max/2+1", USIZE_MAX // 2 + 1), ("max", USIZE_MAX)):
                    reqs.append({"rq": rqcoq.rename_ids(rawjson[p], lambda c: c, lambda t, tm=tm, val=val: val if t == tm else t), "target": "sql.sqlite"})
                    meta.append((p, "tid", what))
        base_of = dict((p, b) for (p, _), b in zip(sel, base))
        for (p, kind, what), a in zip(meta, harness("c16_rq2sql", reqs) if reqs else []):
            ck.count("id-load-bounds", p + "|" + kind + "|" + what)
            b = base_of[p]
            if what == "max/2":
                kind_of = lambda x: next((k for k in ("ok", "err", "panic") if k in x), "other")
                # same outcome as with small ids: the same SQL, or the same kind of failure (an `err`, or one of the back-end
                # panics that are C12's subject and occur with small ids as well)
                good = kind_of(a) == kind_of(b) and a.get("ok") == b.get("ok") and (a.get("panic") or {}).get("loc") == (b.get("panic") or {}).get("loc")
                exp = "the same outcome as with small ids"
            else:
                reasons = " | ".join(e.get("reason", "") for e in a.get("err", [])) if "err" in a else ""
                good = "too large" in reasons
                exp = "the error `id .. is too large`"
            ck.stat("id-load-bounds", "%s=%s:%s" % (kind, what, "as-modelled" if good else "UNEXPECTED"))
            if not good:
                ck.violation("IdGenerator::load on an RQ whose largest %s is usize::%s: expected %s (Model/Lowerer.v idgen_load)" % (kind, what.upper(), exp),
                             {"program": p, "kind": kind, "id": what, "answer": a})

    # ---------------------------------------------------------------- 5. replay the recorded findings
    not_reproduced = []
    for f in ck.findings:
        src = (f.get("replay") or {}).get("src")
        if not src or replay:
            continue
        is_open = f.get("status", "open") == "open"
        # fixed findings are replayed as well: no classifier returns their id, so a defect that is back is a VIOLATION
        a = harness("c16_rq", [{"src": src}], shards=1)[0]
        ck.count("finding-replay", src)
        got = None
        if "ok" in a:
            q = rqcoq.norm(a["ok"])
            d = c16_wf.rq_diags(q)
            if d:
                got = ck.disagreement("recorded finding %s (%s) reproduces: %s%s" % (f["id"], f.get("status", "open"), d[:4], regression_text(regression_of(q, d, src))),
                                      {"program": src, "diagnostics": [list(x) for x in d]}, lambda c, q=q, d=d: classify_diags(q, d, c.get("program", "")))
                got = got or "violation"
        elif "panic" in a:
            case = {"program": src, "panic": a["panic"]}
            ck.disagreement("recorded finding %s (%s) reproduces: panic %s%s" % (f["id"], f.get("status", "open"), a["panic"].get("msg", "")[:100], regression_text(lowerer_regression(case))),
                            case, classify_lowerer_failure)
            got = "violation"
        if got is None:
            ck.stat("finding-replay", "no-longer-reproduces:" + f["id"])
            if is_open:
                not_reproduced.append(f["id"])
        elif is_open and got != f["id"]:
            ck.stat("finding-replay", "open-finding-replay-classified-as:%s:%s" % (f["id"], got))
    # an OPEN finding whose own replay is clean has probably been repaired: it has to be audited (status -> fixed, classifier
    # narrowed), not carried along.  Not a violation of the property, so only reported (evidence + a NOTE line).
    ck.coverage["open_findings_whose_replay_no_longer_fails"] = not_reproduced
    for fid in not_reproduced:
        print("NOTE: property=C16 the replay of OPEN finding %s no longer fails -- repaired? audit known_findings.d/C16.json" % fid)

    for p, q in accepted[:6]:
        ck.sample({"program": p, "tables": len(q[1]), "diagnostics": [list(x) for x in py[p]]})
    ck.coverage["programs"] = {"generated": len(progs), "accepted_by_resolver": len(accepted)}
    ck.proof_broken_violation(found_input=bool(ck.violations))
    ck.assumptions += [
        "programs the resolver rejects are outside the quantifier (counted: rejected-by-resolver)",
        "resolver panics outside semantic/lowering.rs are C12's subject and only counted here",
    ]
    ck.finish(TRUSTED, "pool + fixed shapes + %d generated programs (nested group/window, joins of sub-pipelines, loop, append, let-tables "
              "referenced several times, user functions, relation literals, s-strings, built-in relations); a case = one program; distinct by text; "
              "non-trivial = accepted by the resolver, so an RQ exists" % (len(progs)))

"""C16 -- every emitted relational query (RQ) is closed and consistently identified.

proof      Props/C16.v: rq_wf (the five clauses, executable, with diagnostics) implies that the back end's lookups
           are total and unambiguous; the Lowerer state machine keeps ids fresh / uses defined / tables declared
           before use / pipelines closed by a Select of the declared arity for ALL operation sequences.
tie        for every program of a large generated family: RQ JSON of the implementation -> Coq term (vplib/rqcoq.py,
           fails loudly on an unknown node) -> rq_diags evaluated inside Coq, and a python mirror evaluated on all
           programs and cross-validated against Coq on every program evaluated in Coq.
oracle     any RQ the resolver emits that fails a clause is reported with the program as replay; the RQ is
           round-tripped through JSON and re-checked; each accepted RQ is fed to the SQL back end (sqlite): a
           missing-id panic on an RQ that passed rq_wf contradicts wf_implies_lookups_total.
"""
import json
import os
import re

from ..common import Check, coq_eval, harness
from .. import rqcoq
from ..programs import POOL
from . import c16_gen, c16_wf

TRUSTED = [
    "Coq 8.16.1 kernel (coqc, vm_compute); no axioms: every theorem is 'Closed under the global context'",
    "vplib/rqcoq.py (RQ JSON -> Coq term; every unknown node kind / field raises) and prqlc's serde encoding of RQ",
    "harness/src/c16.rs (prql_to_pl, pl_to_rq, json::from_rq/to_rq, rq_to_sql) and the python comparison",
    "modelled, not verified: the resolver itself -- that the RQ it emits satisfies rq_wf is validated per program (this stream), not proved; "
    "the Lowerer state machine (Model/Lowerer.v) is a hand-written restatement of semantic/lowering.rs' use of its id generators, "
    "node_mapping, pipeline buffer and table_buffer; it is tied to the code only through the resulting RQ (no op trace hook)",
    "the back end's lookups are modelled over the whole query (lookup_cid / lookup_tid); the real AnchorContext fills its maps "
    "incrementally, which is why visibility (strict rq_wf), not only definedness, is what it needs",
]

F1 = "C16-F1-carried-sort-not-visible"
F2 = "C16-F2-carried-sort-other-pipeline"
F3 = "C16-F3-lookup-cid-panic"
F4 = "C16-F4-duplicate-column-instance"
F5 = "C16-F5-group-partition-in-relational-argument"
F6 = "C16-F6-relation-parameter-used-twice"
F7 = "C16-F7-excluded-column-of-sub-pipeline"

MISSING_ID_PANIC = re.compile(r"no entry found for key|cannot find cid|called `Option::unwrap\(\)` on a `None` value")
ID_LOOKUP_FILES = ("sql/pq/context.rs", "sql/pq/anchor.rs", "sql/pq/positional_mapping.rs", "semantic/lowering.rs")


def canon_coq(v):
    out = []
    for d in v:
        out.append((d,) if isinstance(d, str) else tuple(d))
    return out


def relation_defs_at(q, w):
    r = q[1][w][3] if w < len(q[1]) else q[2]
    return c16_wf.relation_defs(r)


def dup_column_tables(q):
    """cids defined inside tables whose declared columns repeat a RelationColumn (create_a_table_instance
    de-duplicates them with .unique(), so an instance has fewer columns than the table's closing Select)"""
    out = set()
    for t in q[1]:
        cols = t[3][2]
        if len(set(cols)) != len(cols):
            out |= set(c16_wf.relation_defs(t[3]))
    return out


def rel_param_twice(src):
    """the program declares and calls a function whose last (relation) parameter is mentioned at least twice in its
    body: the argument pipeline -- one PL node -- is lowered twice"""
    for m in re.finditer(r"(?m)^let\s+(\w+)\s*=\s*([^\n]*?)->\s*(.*)$", src):
        name, params, body = m.group(1), m.group(2), m.group(3)
        ps = [w for w in re.findall(r"[A-Za-z_]\w*(?::\S+)?", params) if ":" not in w and w != "func"]
        if not ps:
            continue
        last = ps[-1]
        if len(re.findall(r"\b%s\b" % re.escape(last), body)) >= 2 and re.search(r"\b%s\b" % re.escape(name), src[m.end():]):
            return True
    return False


def paren_body(src, i):
    """text between the parenthesis at src[i] and its match"""
    depth = 0
    for j in range(i, len(src)):
        if src[j] == "(":
            depth += 1
        elif src[j] == ")":
            depth -= 1
            if depth == 0:
                return src[i + 1:j]
    return src[i + 1:]


def group_with_relational_argument(src):
    for m in re.finditer(r"\bgroup\s*(\{[^}]*\}|[\w.`]+)\s*\(", src):
        if re.search(r"\b(append|join|remove|intersect|loop)\b", paren_body(src, m.end() - 1)):
            return True
    return False


def exclusion_in_sub_pipeline(src):
    for m in re.finditer(r"select\s*!\{", src):
        if src[:m.start()].count("(") > src[:m.start()].count(")"):
            return True
    return False


def tableref_cids(q):
    out = set()

    def walk(p):
        for t in p:
            if t[0] in ("TFrom", "TAppend"):
                out.update(c for _, c in t[1][2])
            elif t[0] == "TJoin":
                out.update(c for _, c in t[2][2])
            elif t[0] == "TLoop":
                walk(t[1])
    for t in q[1]:
        if t[3][1][0] == "KPipeline":
            walk(t[3][1][1])
    if q[2][1][0] == "KPipeline":
        walk(q[2][1][1])
    return out


def classify_diags(q, diags, src=""):
    """known-finding id explaining ALL diagnostics of this RQ, or None.
    F2 is returned for its class as well; it is recorded as fixed, so Check.disagreement reports it as a VIOLATION."""
    if not diags:
        return None
    sortsite = ("STakeSort", "SWinSort")
    partsite = ("STakePartition", "SWinPartition", "SAggPartition")
    if all(d[0] in ("DForeign", "DNotVisible") for d in diags) and rel_param_twice(src):
        return F6
    f1 = [d for d in diags if c16_wf.lax_diag(d)]
    f5 = [d for d in diags if d[0] == "DForeign" and d[2] in partsite] if group_with_relational_argument(src) else []
    f2 = [d for d in diags if d[0] == "DForeign" and d[2] in sortsite]
    rest = [d for d in diags if d not in f1 and d not in f2 and d not in f5]
    if f2:
        return F2
    if rest:
        # F4: an id of a sub-pipeline whose declared columns repeat a name (or contain two unnamed columns) escapes
        # un-redirected into the pipeline that instantiates it
        leaked = dup_column_tables(q)
        if all(d[0] == "DForeign" and d[3] in leaked for d in rest):
            return F4
        # F7: a column excluded by `select !{..}` inside a joined sub-pipeline is still resolvable from outside and is
        # bound to the sub-pipeline's own table-instance column
        if exclusion_in_sub_pipeline(src) and all(d[0] == "DForeign" and d[3] in tableref_cids(q) for d in rest):
            return F7
        return None
    if f5:
        return F5
    return F1


def has_multi_input_relation(src):
    """a join / append inside parentheses: a relation with several inputs that is instantiated as one input
    (let-table `let x = (from a | join b ..)` or aliased sub-pipeline `from x = (from a | join b ..)`)"""
    depth = 0
    i = 0
    instr = None
    while i < len(src):
        ch = src[i]
        if instr:
            if ch == instr:
                instr = None
        elif ch in "\"'":
            instr = ch
        elif ch in "([{":
            depth += 1
        elif ch in ")]}":
            depth -= 1
        elif depth >= 1 and (src.startswith("join", i) or src.startswith("append", i)) and (i == 0 or not (src[i - 1].isalnum() or src[i - 1] == "_")):
            return True
        i += 1
    return False


def classify_lowerer_failure(case):
    p = case.get("panic") or {}
    if "cannot find cid by id=" in p.get("msg", "") and "lowering.rs" in p.get("loc", ""):
        if rel_param_twice(case["program"]):
            return F6
        if has_multi_input_relation(case["program"]):
            return F3
    return None


def programs(ck):
    g = c16_gen.Gen(ck.rng, closed=False)
    n = ck.n(1000, 9000)
    progs = list(POOL) + list(c16_gen.FIXED)
    feats = []
    for _ in range(n):
        p = g.program()
        progs.append(p.text())
        feats.append(p.features)
    # a slice of fully declared (closed-frame) programs as well
    g2 = c16_gen.Gen(ck.rng, closed=True)
    for _ in range(ck.n(200, 1500)):
        progs.append(g2.program().text())
    return list(dict.fromkeys(progs))


def run():
    ck = Check("C16", level="proof")
    pr = ck.prove()

    replay = os.environ.get("VERIF_REPLAY")
    if replay:
        rp = json.load(open(replay))
        progs = [rp["replay"]["program"]] if "program" in rp.get("replay", {}) else []
    else:
        progs = programs(ck)

    # ---------------------------------------------------------------- 1. the implementation's RQ (and its JSON round trip)
    ans = harness("c16_rq", [{"src": p} for p in progs])
    accepted = []   # (program, q)
    for p, a in zip(progs, ans):
        if "ok" in a:
            try:
                q = rqcoq.norm(a["ok"])
            except rqcoq.RqConvError as ex:
                ck.count("rq-wf", p)
                ck.violation("RQ JSON has a node the model does not know (RQ definition changed?): %s" % ex, {"program": p, "error": str(ex)})
                continue
            accepted.append((p, q))
            # JSON round trip: same value, same normal form
            ck.count("rq-json-roundtrip", p)
            if "rt" not in a:
                ck.violation("RQ does not survive its own JSON form", {"program": p, "rt_err": a.get("rt_err")})
            else:
                try:
                    q2 = rqcoq.norm(a["rt"])
                except rqcoq.RqConvError as ex:
                    q2 = None
                if not a.get("rt_value_eq") or q2 != q or c16_wf.rq_diags(q2) != c16_wf.rq_diags(q):
                    ck.violation("RQ changes through JSON (to_rq . from_rq)", {"program": p, "value_eq": a.get("rt_value_eq")})
        elif "err" in a:
            ck.stat("rq-wf", "rejected-by-resolver")
            reasons = " | ".join(e.get("reason", "") for e in a["err"])
            if "internal compiler error" in reasons and re.search(r"3870|4474|4317", reasons):
                ck.count("lowerer-internal", p)
                ck.disagreement("the Lowerer's own id lookup failed (internal compiler error) on a generated program",
                                {"program": p, "errors": reasons}, classify_lowerer_failure)
        elif "panic" in a:
            loc = a["panic"].get("loc", "")
            if "semantic/lowering.rs" in loc:
                ck.count("lowerer-internal", p)
                ck.stat("lowerer-internal", "panic:" + loc.split("/src/")[-1])
                ck.disagreement("panic inside the Lowerer: %s (%s)" % (a["panic"].get("msg", "")[:120], loc),
                                {"program": p, "panic": a["panic"]}, classify_lowerer_failure)
            else:
                ck.stat("rq-wf", "resolver-panic-elsewhere(C12):" + loc.split("/src/")[-1])
        else:
            ck.stat("rq-wf", "abort")

    # ---------------------------------------------------------------- 2. python mirror on ALL programs
    py = {}
    for p, q in accepted:
        d = c16_wf.rq_diags(q)
        py[p] = d
        ck.count("rq-wf", p)
        for k in c16_wf.shape(q):
            ck.stat("rq-wf", "shape:" + k)
        ck.stat("rq-wf", "wf" if not d else ("lax-only(F1)" if all(c16_wf.lax_diag(x) for x in d) else "NOT-WF"))
        if d:
            case = {"program": p, "diagnostics": [list(x) for x in d], "rq": rqcoq.to_coq(q)}
            ck.disagreement("the resolver emitted an RQ that violates the property: %s" % (d[:4],), case,
                            lambda c, q=q, d=d: classify_diags(q, d, c.get("program", "")))

    # ---------------------------------------------------------------- 3. the same predicate evaluated in Coq, cross-validated
    coq_ok = False
    if accepted and (pr["ok"] or os.path.exists(os.path.join(os.path.dirname(__file__), "..", "..", "coq", "Model", "RqWf.vo"))):
        sel = accepted if ck.thorough or len(accepted) <= 2500 else accepted[:2500]
        try:
            vals = coq_eval(rqcoq.COQ_HEADER, ["(rq_diags %s)" % rqcoq.to_coq(q) for _, q in sel])
            coq_ok = True
            for (p, q), v in zip(sel, vals):
                ck.count("coq-vs-mirror", p)
                if v is None or canon_coq(v) != [tuple(x) for x in py[p]]:
                    ck.violation("python mirror of rq_wf disagrees with the Coq definition (bug in the check, or the model changed)",
                                 {"program": p, "coq": str(v), "mirror": [list(x) for x in py[p]]})
        except RuntimeError as ex:
            ck.coverage["model_eval_error"] = str(ex)[-600:]
    ck.coverage["coq_evaluated"] = coq_ok

    # ---------------------------------------------------------------- 4. feed each accepted RQ to the SQL back end
    reqs = [{"src": p, "target": "sql.sqlite"} for p, _ in accepted]
    be = harness("compile", reqs)
    for (p, q), a in zip(accepted, be):
        ck.count("backend-lookups", p)
        if "panic" in a:
            loc, msg = a["panic"].get("loc", ""), a["panic"].get("msg", "")
            missing = bool(MISSING_ID_PANIC.search(msg)) and any(f in loc for f in ID_LOOKUP_FILES)
            ck.stat("backend-lookups", ("missing-id-panic:" if missing else "other-panic(C12):") + loc.split("/src/")[-1])
            if missing:
                d = py[p]
                case = {"program": p, "panic": a["panic"], "diagnostics": [list(x) for x in d]}
                if not d:
                    ck.violation("back-end lookup of an id failed on an RQ that passed rq_wf -- contradicts wf_implies_lookups_total: %s (%s)" % (msg[:100], loc), case)
                else:
                    # explained by the RQ not being well-formed: already reported / classified above
                    ck.stat("backend-lookups", "missing-id-panic-on-non-wf-rq")
        elif "ok" in a:
            ck.stat("backend-lookups", "sql")
        else:
            ck.stat("backend-lookups", "error")

    # ---------------------------------------------------------------- 5. replay the recorded findings
    for f in ck.findings:
        src = (f.get("replay") or {}).get("src")
        if not src or replay:
            continue
        # fixed findings are replayed as well: if the defect is back, the classifier names a finding that is not open
        # any more and Check.disagreement turns it into a VIOLATION
        a = harness("c16_rq", [{"src": src}], shards=1)[0]
        ck.count("finding-replay", src)
        if "ok" in a:
            q = rqcoq.norm(a["ok"])
            d = c16_wf.rq_diags(q)
            if d:
                ck.disagreement("recorded finding reproduces", {"program": src, "diagnostics": [list(x) for x in d]}, lambda c, q=q, d=d: classify_diags(q, d, c.get("program", "")))
            else:
                ck.stat("finding-replay", "no-longer-reproduces:" + f["id"])
        elif "panic" in a:
            ck.disagreement("recorded finding reproduces", {"program": src, "panic": a["panic"]}, classify_lowerer_failure)
        else:
            ck.stat("finding-replay", "no-longer-reproduces:" + f["id"])

    for p, q in accepted[:6]:
        ck.sample({"program": p, "tables": len(q[1]), "diagnostics": [list(x) for x in py[p]]})
    ck.coverage["programs"] = {"generated": len(progs), "accepted_by_resolver": len(accepted)}
    ck.proof_broken_violation(found_input=bool(ck.violations))
    ck.assumptions += [
        "programs the resolver rejects are outside the quantifier (counted: rejected-by-resolver)",
        "resolver panics outside semantic/lowering.rs are C12's subject and only counted here",
    ]
    ck.finish(TRUSTED, "pool + fixed shapes + %d generated programs (nested group/window, joins of sub-pipelines, loop, append, let-tables "
              "referenced several times, user functions, relation literals, s-strings, built-in relations); a case = one program; distinct by text; "
              "non-trivial = accepted by the resolver, so an RQ exists" % (len(progs)))

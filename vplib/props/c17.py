"""C17 -- tokens tile the source and re-lex to themselves.

run():  translator (gen_lex_tables) -> ck.prove() (Props/C17.v) -> for each stream of strings
  (T) correspondence: Model/Lexer.v evaluated inside Coq (vm_compute) vs prqlc's lexer (harness `lex`):
      token kinds, payloads and byte spans must be identical, and accept/reject must agree;
  (S) the direct property oracle on the implementation alone: spans in bounds / on char boundaries /
      ordered / disjoint / gaps inline whitespace only / every token's slice re-lexes to that token;
      rejected input reports >= 1 error.
Streams: hand-picked corpus; word-contexts (every reserved / literal-like word of the current tables x left contexts in five position
classes x right contexts); interp-inner (the inner lexer of s-/f-strings, Model/LexerInterp.v, vs interpolation::parse); exhaustive strings over the lexical alphabet (length <= 3; thorough tier: also all of
length 4 when the measured rate allows it within ~15 min, else a recorded sample), a seeded sample of the next
length; seeded random strings (noise, token soup up to ~200 chars, mutated soup).
`./check C17 --replay <file>` re-runs both comparisons on the `src` of a recorded replay.
"""
import json
import os
import time

from ..common import Check, coq_eval, coq_make, harness, harness1, Lock
from ..translate import gen_lex_tables
from . import c17_lib as L

TRUSTED = [
    "Coq 8.16.1 kernel (coqc, vm_compute); no axioms: every theorem is 'Closed under the global context'",
    "translator vplib/translate/gen_lex_tables.py (scanners over prqlc-parser/src/lexer/mod.rs; fail closed on any unknown alternative, arm or combinator shape)",
    "modelled, not verified: coq/Model/Lexer.v is a hand re-statement of the chumsky combinators of lexer/mod.rs (chumsky 0.12 `choice`, `repeated`, `or_not`, `rewind`, `text::inline_whitespace`, `text::digits` semantics as read from its source); its tie to the code is this correspondence run plus the regenerated tables",
    "Rust's char::is_alphabetic / is_alphanumeric: Section variables in the theorems (hypotheses class_ok for the re-lex theorem); the executable instance Model/LexerExec.v is validated against Rust (harness `charclass`) on its whole declared domain on every run and only strings over that domain are fed to the model",
    "float payloads are compared through python float() of the model's decimal text vs serde_json's f64; whether a literal is non-finite (then the whole source is rejected) is decided in the model by Lexer.float_nonfinite on the decimal text (value >= 2^1024 - 2^970), a hand model of Rust's correctly rounded str::parse::<f64>, checked against the implementation on the boundary cases of the corpus",
    "modelled, not verified: coq/Model/LexerInterp.v is a hand re-statement of parser/interpolation.rs (interpolated_parser, interpolate_ident_part); the translator pins the text of both functions, of the span rebasing in interpolation::parse and of its call in parser/expr.rs; tie = the interp-inner correspondence stream (observed through prql_to_pl)",
    "correspondence harness (harness/src/main.rs `lex` = prqlc::prql_to_tokens, serde of lr::Tokens; `pl` = prqlc::prql_to_pl) and the python/Coq comparison code (vplib/props/c17_lib.py, Model/LexerExec.v res_eqb, Model/LexerDecode.v: batches travel as one primitive-integer array; the transport is self-tested with a decode round trip and canaries on every run and an undecodable batch is a violation)",
]

HEADER_BASE = ("From Coq Require Import List NArith Bool.\n"
               "From PV Require Import Lib.ListX Model.Lexer Model.LexerExec%s.\n"
               "Import ListNotations.\nLocal Open Scope N_scope.\n")
# batches travel as one primitive-array literal each (Model/LexerDecode.v); ListNotations would capture `[|`, so lists are only *printed* with brackets
HEADER_ARR = ("From Coq Require Import List NArith Bool Uint63 PArray.\n"
              "From PV Require Import Lib.ListX Model.Lexer Model.LexerExec Model.LexerDecode%s.\n"
              "Notation \"[ ]\" := nil (only printing).\nNotation \"[ x ; .. ; y ]\" := (cons x .. (cons y nil) ..) (only printing).\n"
              "Open Scope uint63_scope.\n")
BATCH_MAX = 1500
CHUNK = 60000


class Run:
    def __init__(self, ck, info):
        self.ck = ck
        self.info = info
        self.relex_cache = {}
        self.header = None
        self.tables = None
        self.model_ok = False
        self.n_model = 0
        self.t_model = 0.0
        self.t_impl = 0.0
        self.n_impl = 0
        self.reported = {}
        self.unexplained = {}
        words = []
        if "error" not in info:
            words = list(info["keywords"]) + [info["true_word"], info["false_word"], info["null_word"]]
        self.kwlike = set(words or ["let", "into", "case", "prql", "type", "module", "internal", "func", "import", "enum", "true", "false", "null"])
        self.lit_words = {info.get("true_word", "true"): ("Literal", ("Boolean", True)), info.get("false_word", "false"): ("Literal", ("Boolean", False)),
                          info.get("null_word", "null"): ("Literal", ("Null",))}

    # ---------------------------------------------------------------- model availability
    def setup_model(self, pr):
        use_gen = "error" not in self.info
        with Lock("coq"):
            rc, out, err = coq_make(["Model/LexerDecode.vo", "Model/LexerInterpExec.vo"] + (["Model/LexerGen.vo"] if use_gen else []), timeout=900)
            if rc != 0 and use_gen:
                use_gen = False
                rc, out, err = coq_make(["Model/LexerDecode.vo", "Model/LexerInterpExec.vo"], timeout=900)
        if rc != 0:
            self.ck.coverage["model_build_error"] = (out + err)[-800:]
            return
        self.header = HEADER_BASE % (" Model.LexerGen" if use_gen else "")
        self.header_arr = HEADER_ARR % (" Model.LexerGen" if use_gen else "")
        self.header_interp = HEADER_BASE % (" Model.LexerInterp Model.LexerInterpExec" + (" Model.LexerGen" if use_gen else ""))
        self.tables = "gen_tables" if use_gen else "snapshot_tables"
        self.ck.coverage["model_tables"] = self.tables + ("" if use_gen else " (FALLBACK: translator failed closed; hand snapshot used only to drive the search)")
        self.model_ok = True

    # ---------------------------------------------------------------- F12 classifier (narrow)
    # terminators of the unchanged tree (end_expr): the known finding is about identifiers followed by a NON-terminator
    BASE_TERMINATORS = ",)]}\t >\n\r"

    def classify_relex(self, case):
        tok = case["token"]
        if tok[0][0] != "Ident":
            return None
        text = tok[0][1]
        if case["slice"] != text or text not in self.kwlike:
            return None
        rest = case["src"].encode("utf-8")[tok[2]:].decode("utf-8", "replace")
        if rest == "" or rest[0] in self.BASE_TERMINATORS or rest.startswith(".."):
            return None     # followed by a terminator: the lexer should have produced the keyword / literal itself
        n = len(text.encode())
        want_kind = self.lit_words.get(text, ("Keyword", text))
        rel = case["relexed"]
        if rel is not None and len(rel) == 2 and rel[0] == (("Start",), 0, 0) and rel[1] == (want_kind, 0, n):
            return "F12-keyword-like-ident"
        return None

    def report(self, kind, what, case, classify=None):
        """every fault is counted; faults explained by a known finding always go to the classifier's tally; of the unexplained ones the
        first 6 per kind become replays (the cap is on unexplained faults only, so known-finding noise cannot hide them)"""
        self.reported[kind] = self.reported.get(kind, 0) + 1
        fid = classify(case) if classify else None
        if fid is None:
            c = self.unexplained.get(kind, 0)
            self.unexplained[kind] = c + 1
            if c >= 6:
                return None
        return self.ck.disagreement(what, case, classify)

    def model_failed(self, why):
        """fail closed: the correspondence could not be run"""
        self.model_ok = False
        self.ck.coverage["model_eval_error"] = why
        self.ck.violation("C17 model/implementation correspondence could not be evaluated: " + why[:300], {"clause": "correspondence-machinery", "why": why})

    def transport_selftest(self):
        """the array transport (python enc_case -> Model/LexerDecode.v) is validated on every run:
        (1) the decoded corpus batch printed back by Coq equals the implementation's answers as python sees them;
        (2) canaries: answers falsified at known indices are reported as differing at exactly those indices."""
        if not self.model_ok:
            return
        strs = [s for s in L.CORPUS + L.TRANSPORT_EXTRA if all(L.in_domain(c) for c in s)]
        ans = harness("lex", [{"src": s} for s in strs])
        keep, enc = [], []
        for s, a in zip(strs, ans):
            try:
                enc.append(L.enc_case(s, a))
                keep.append((s, a))
            except (L.NeedsSlowPath, ValueError):
                pass
        vals = coq_eval(self.header_arr, ["decode_arr %s" % L.arr_literal(enc[j:j + 40]) for j in range(0, len(enc), 40)])
        back = []
        for v in vals:
            if not (isinstance(v, tuple) and v[0] == "Some"):
                self.model_failed("transport self-test: batch did not decode (%r)" % (v,))
                return
            back.extend(v[1])
        ok = len(back) == len(keep)
        kinds = set()
        for (s, a), b in zip(keep, back):
            src = "".join(chr(c) for c in b[0])
            toks = L.py_model(b[1])
            if src != s or toks != L.py_impl(a):
                ok = False
                self.ck.violation("transport self-test: Coq decoded %r differently from what python encoded" % s, {"src": s, "decoded": repr(b)[:600], "clause": "correspondence-machinery"})
                break
            for t in toks or []:
                kinds.add(t[0][0] if t[0][0] != "Literal" else "Literal:" + t[0][1][0])
        # canaries
        fals, want = [], []
        for i, (s, a) in enumerate(keep[:120]):
            if i % 3 == 0:
                fa = {"err": []} if "ok" in a else {"ok": [{"kind": "Start", "span": {"start": 0, "end": 0}}]}
                want.append(i)
            elif i % 3 == 1 and "ok" in a and len(a["ok"]) > 1:
                fa = {"ok": [dict(t) for t in a["ok"]]}
                fa["ok"][-1] = {"kind": a["ok"][-1]["kind"], "span": {"start": a["ok"][-1]["span"]["start"], "end": a["ok"][-1]["span"]["end"] + 1}}
                want.append(i)
            else:
                fa = a
            fals.append(L.enc_case(s, fa))
        r = coq_eval(self.header_arr, ["disagree_arr %s %s" % (self.tables, L.arr_literal(fals))])[0]
        got = list(r[1]) if isinstance(r, tuple) and r[0] == "Some" else None
        if got is None or not set(want) <= set(got):
            ok = False
            self.ck.violation("transport self-test: falsified answers were not all reported as differing", {"want": want, "got": got, "clause": "correspondence-machinery"})
        self.ck.coverage["transport_selftest"] = {"decoded_cases": len(back), "token_kinds_round_tripped": sorted(kinds), "canaries": len(want), "ok": ok,
                                                  "canaries_reported": None if got is None else len(got)}
        self.ck.count("transport-selftest", "corpus", nontrivial=True)

    # ---------------------------------------------------------------- inner structure of s-/f-strings
    def interp_stream(self, stream, srcs):
        """Model/LexerInterp.v (through Model/LexerInterpExec.run_interp: lexer model, then the inner lexer on the token's content)
        vs interpolation::parse as observed through prql_to_pl: item kinds, texts, ident paths, path spans, formats, accept/reject;
        plus the direct oracle on the model's extents (they tile the content)"""
        ck = self.ck
        if not self.model_ok:
            return
        srcs = [s for s in srcs if all(L.in_domain(c) for c in s)]
        ans = harness("pl", [{"src": s} for s in srcs])
        try:
            vals = coq_eval(self.header_interp, ["run_interp %s %s" % (self.tables, L.codes(s)) for s in srcs])
        except RuntimeError as ex:
            self.model_failed("interp model evaluation failed: %s" % str(ex)[-600:])
            return
        for s, a, v in zip(srcs, ans, vals):
            if v is None:
                self.model_failed("interp model: no result for %r" % s)
                return
            m = L.model_interp(v)
            im = L.impl_interp(a)
            if m is None:
                ck.count(stream, L.key(s), nontrivial=False)
                ck.stat(stream, "not-a-single-interpolation-token")
                continue
            ck.count(stream, L.key(s), nontrivial=True)
            if m[0] == "err":
                ck.stat(stream, "rejected")
                if im[0] != "err":
                    self.report("interp-corr", "interpolation model rejects the content of %r, the parser accepts it: %r" % (s, im), {"src": s, "clause": "interp-correspondence", "model": m, "implementation": im})
                continue
            ck.stat(stream, "accepted")
            ck.stat(stream, "items", len(m[2]))
            for it in m[2]:
                ck.stat(stream, "item:" + it[0] + (":format" if it[0] == "IExpr" and it[4] is not None else ""))
            if im[0] != "ok" or (im[1], im[2]) != (m[1], m[2]):
                self.report("interp-corr", "interpolation model and parser differ on %r: model %r, parser %r" % (s, m[1:3], im), {"src": s, "clause": "interp-correspondence", "model": m, "implementation": im})

    # ---------------------------------------------------------------- one chunk of strings
    def process(self, stream, strs):
        ck = self.ck
        t0 = time.time()
        ans = harness("lex", [{"src": s} for s in strs])
        self.t_impl += time.time() - t0
        self.n_impl += len(strs)
        impl = []
        for s, a in zip(strs, ans):
            if "ok" in a:
                impl.append(L.py_impl(a))
            else:
                impl.append(None)
                if not ("err" in a and isinstance(a["err"], list) and len(a["err"]) >= 1):
                    self.report("reject-shape", "rejected input did not yield >= 1 error (answer %s)" % json.dumps(a)[:200],
                                {"src": s, "answer": a, "clause": "reject-has-error"})
        # --- (S) direct oracle: structure
        need = {}
        for s, toks in zip(strs, impl):
            acc = toks is not None
            ck.count(stream, L.key(s), nontrivial=acc and len(toks) > 1)
            ck.stat(stream, "accepted" if acc else "rejected")
            if not acc:
                continue
            ck.stat(stream, "tokens", len(toks) - 1)
            for clause, detail in L.structural_faults(s, toks):
                self.report("struct-" + clause, "implementation violates C17 clause %s on %r: %s" % (clause, s, detail),
                            {"src": s, "clause": clause, "detail": detail, "tokens": toks})
            for i, sl in L.token_slices(s, toks):
                if sl not in self.relex_cache and sl not in need:
                    need[sl] = None
        # --- (S) direct oracle: re-lex every slice
        if need:
            keys = list(need)
            t0 = time.time()
            ra = harness("lex", [{"src": k} for k in keys])
            self.t_impl += time.time() - t0
            for k, a in zip(keys, ra):
                self.relex_cache[k] = L.py_impl(a)
            ck.stat(stream, "distinct-slices-relexed", len(keys))
        for s, toks in zip(strs, impl):
            if toks is None:
                continue
            for i, sl in L.token_slices(s, toks):
                rel = self.relex_cache.get(sl)
                ck.stat(stream, "kind:" + toks[i][0][0])
                if not L.relex_ok(toks[i], sl, rel):
                    case = {"src": s, "clause": "relex", "token_index": i, "token": toks[i], "slice": sl, "relexed": rel}
                    self.report("relex", "token %d of %r (%r) does not re-lex to itself: %r" % (i, s, toks[i], rel), case, self.classify_relex)
        # --- (T) model vs implementation
        if not self.model_ok:
            return
        dom = [all(L.in_domain(c) for c in s) for s in strs]
        fast, slow = [], []
        for i, (s, a) in enumerate(zip(strs, ans)):
            if not dom[i]:
                ck.stat(stream, "outside-validated-class-domain (oracle only)")
                continue
            try:
                fast.append((i, L.enc_case(s, a)))
            except L.NeedsSlowPath:
                slow.append(i)
            except ValueError as ex:
                self.report("encode", "cannot encode the implementation's answer: %s" % ex, {"src": s, "answer": a})
        t0 = time.time()
        batch = max(100, min(BATCH_MAX, (len(fast) + 31) // 32))
        exprs = ["disagree_arr %s %s" % (self.tables, L.arr_literal([e for _, e in fast[j:j + batch]])) for j in range(0, len(fast), batch)]
        try:
            res = coq_eval(self.header_arr, exprs)
        except RuntimeError as ex:
            self.model_failed("model evaluation failed: %s" % str(ex)[-600:])
            return
        bad = []
        for bi, r in enumerate(res):
            if r is None or r == "None" or not (isinstance(r, tuple) and r[0] == "Some"):
                self.model_failed("batch %d of stream %s: no result / the batch did not decode (%r)" % (bi, stream, r))
                return
            for k in r[1]:
                bad.append(fast[bi * batch + k][0])
        again = bad[:40] + slow
        vals = coq_eval(self.header, ["run %s %s" % (self.tables, L.codes(strs[i])) for i in again]) if again else []
        self.t_model += time.time() - t0
        self.n_model += len(fast) + len(slow)
        ck.stat(stream, "model-compared", len(fast) + len(slow))
        ck.stat(stream, "float-cases(slow path)", len(slow))
        for i, v in zip(again, vals):
            m = L.py_model(v)
            if m != impl[i]:
                self.report("corr", "model and implementation differ on %r" % strs[i],
                            {"src": strs[i], "clause": "correspondence", "model": m, "implementation": impl[i] if impl[i] is not None else ans[i]})
        for i in bad[40:]:
            self.report("corr", "model and implementation differ on %r" % strs[i], {"src": strs[i], "clause": "correspondence"})

    def stream(self, name, strs):
        strs = list(strs)
        for j in range(0, len(strs), CHUNK):
            self.process(name, strs[j:j + CHUNK])


# ---------------------------------------------------------------- generators

LEXEMES = ["a", "b1", "_x", "let", "into", "case", "func", "true", "false", "null", "1", "0", "42", "1.5", "1e5", "1_000", "0x1F", "0b101", "0o17", "2days", "3hours",
           "'s'", "\"d q\"", "\"\"\"t\"\"\"", "''", "r'raw'", "s\"{a}\"", "f'{b}'", "$p", "$1.x", "@2020-01-01", "@12:30", "@2020-01-01T10:00:00Z", "@", "`q r`",
           "->", "=>", "==", "!=", ">=", "<=", "~=", "&&", "||", "??", "//", "**", ">", "<", "/", "%", "=", "+", "-", "*", "[", "]", "(", ")", ".", ",", ":", "|", "!",
           "{", "}", "..", "\n", "\r\n", "#c", "#!d", "\n\\", "\n #c\n \\", "été", "中", "x²"]
SEPS = ["", "", " ", " ", "\t", "  "]


def gen_random(ck, n):
    rng = ck.rng
    out = []
    for _ in range(n):
        mode = rng.random()
        if mode < 0.35:      # noise over alphabet + fragments
            k = rng.randint(1, 12)
            out.append("".join(rng.choice(L.FRAGMENTS) for _ in range(k)))
        elif mode < 0.8:     # token soup
            k = rng.randint(1, 60)
            out.append("".join(rng.choice(LEXEMES) + rng.choice(SEPS) for _ in range(k)))
        else:                # soup with one mutation
            k = rng.randint(2, 40)
            parts = [rng.choice(LEXEMES) + rng.choice(SEPS) for _ in range(k)]
            parts[rng.randrange(k)] = rng.choice(L.FRAGMENTS)
            out.append("".join(parts))
    return out


def validate_classes(ck, R):
    """the executable class functions agree with Rust on the whole validated domain"""
    cc = harness1("charclass", {"lo": 0, "hi": 0x110000})
    A, N = set(cc["alphabetic"]), set(cc["alphanumeric"])
    if not R.model_ok:
        return
    pts = sorted(L.VALID_POINTS)
    exprs, want = [], []
    for a, b in L.VALID_RANGES:
        if b - a <= 2000:
            exprs.append("(filter alpha_exec (n_range %d %d), filter alnum_exec (n_range %d %d))" % (a, b - a, a, b - a))
            want.append(([c for c in range(a, b) if c in A], [c for c in range(a, b) if c in N]))
        else:
            exprs.append("(N.of_nat (length (filter alpha_exec (n_range %d %d))), N.of_nat (length (filter alnum_exec (n_range %d %d))))" % (a, b - a, a, b - a))
            want.append((sum(1 for c in range(a, b) if c in A), sum(1 for c in range(a, b) if c in N)))
            if want[-1] != (b - a, b - a):
                ck.violation("class validation: Rust does not classify all of %d..%d as alphabetic" % (a, b), {"range": [a, b]})
    exprs.append("(filter alpha_exec %s, filter alnum_exec %s)" % ("[" + ";".join(map(str, pts)) + "]", "[" + ";".join(map(str, pts)) + "]"))
    want.append(([c for c in pts if c in A], [c for c in pts if c in N]))
    vals = coq_eval(R.header, exprs)
    ok = True
    for e, v, w in zip(exprs, vals, want):
        got = (v[0], v[1])
        if (list(got[0]) if isinstance(got[0], list) else got[0], list(got[1]) if isinstance(got[1], list) else got[1]) != (w[0], w[1]):
            ok = False
            ck.violation("Model/LexerExec.v class functions differ from Rust's char::is_alphabetic/is_alphanumeric on the validated domain",
                         {"expr": e, "model": got, "rust": w})
    ck.coverage["class_validation"] = {"domain_ranges": L.VALID_RANGES, "domain_points": pts, "agrees_with_rust": ok}
    ck.count("class-validation", "domain", nontrivial=True)


def run():
    ck = Check("C17", level="proof")
    info = gen_lex_tables.generate()
    pr = ck.prove()
    R = Run(ck, info)
    R.setup_model(pr)
    if "error" in info:
        ck.coverage["translator_error"] = info["error"]

    replay = os.environ.get("VERIF_REPLAY")
    if replay:
        rp = json.load(open(replay))
        src = rp.get("replay", {}).get("src")
        if src is not None:
            R.stream("replay", [src])
        ck.proof_broken_violation(found_input=bool(ck.violations))
        ck.finish(TRUSTED, "replay of one recorded input")
        return

    validate_classes(ck, R)

    R.transport_selftest()
    # (a) corpus, and the directed family "unusual character at either end of a source": every corpus string with a
    #     BOM / NBSP / ZWSP / CR / VT / FF / NEL / LS / ideographic space put in front of it or after it
    R.stream("corpus", L.CORPUS)
    R.stream("corpus-edge-chars", [e + s for e in L.EDGE_CHARS for s in L.CORPUS] + [s + e for e in L.EDGE_CHARS for s in L.CORPUS])
    # (a') directed family: every reserved / literal-like word of the current tables x every left context (line start, after a token,
    #      glued to a token, inside brackets, after operators) x every right context (terminators and non-terminators).
    #      quick: all (word, left) pairs with a small right set + all (word, right) pairs with a small left set; thorough: the full product
    words = L.context_words(info if "error" not in info else {}, ck.thorough, ck.rng)
    wc = list(L.word_contexts(words, full=ck.thorough))
    for cls, _ in wc:
        ck.stat("word-contexts", "position-class:" + cls)
    R.stream("word-contexts", [src for _, src in wc])
    ck.coverage["word_contexts"] = {"words": words, "left_contexts": {k: len(v) for k, v in L.LEFT_CONTEXTS.items()},
                                    "right_contexts": len(L.RIGHT_TERMINATORS) + len(L.RIGHT_OTHERS), "full_product": ck.thorough, "sources": len(wc)}
    # (a") the inner lexer of s-/f-strings: all contents of length <= 4 (thorough: 5) over its 9-character alphabet, corpus, seeded random
    R.interp_stream("interp-inner", L.interp_sources(ck.rng, ck.n(4, 5), ck.n(2500, 20000)))
    # (a4) forward lexing: random lists of renderable tokens (identifiers incl. near misses of reserved words, keywords, true / false / null,
    #      integers up to i64::MAX, control characters, operators, plain strings, parameters) written with one space between tokens: the
    #      implementation must return exactly the tokens and spans c17_render_lex_roundtrip predicts; the sources also go through the
    #      direct oracle and the model
    rc = L.render_cases(ck.rng, info if "error" not in info else {}, ck.n(3000, 30000))
    rans = harness("lex", [{"src": s} for s, _ in rc])
    for (s, want), a in zip(rc, rans):
        got = L.py_impl(a)
        ck.count("render-roundtrip", L.key(s), nontrivial=True)
        ck.stat("render-roundtrip", "tokens", len(want) - 1)
        if got != want:
            R.report("render-roundtrip", "rendered token list does not lex back to itself: %r -> %r, expected %r" % (s, got, want),
                     {"src": s, "clause": "render-lex-roundtrip", "implementation": got if got is not None else a, "expected": want})
    R.stream("render-roundtrip-sources", [s for s, _ in rc])
    # (b) exhaustive over the lexical alphabet: all strings of length <= 3; in the thorough tier also all of length 4
    #     when the measured rate allows it within ~15 minutes (otherwise a seeded sample of that length, recorded)
    import itertools
    n_ex = 3
    t0 = time.time()
    R.stream("exhaustive", L.exhaustive(L.ALPHABET, 3))
    ex_s = time.time() - t0
    n3 = sum(len(L.ALPHABET) ** i for i in range(1, 4))
    rate = n3 / max(ex_s, 1e-3)
    n4 = len(L.ALPHABET) ** 4
    budget_note = None
    if ck.thorough:
        if n4 / rate <= 900:
            t1 = time.time()
            R.stream("exhaustive", ("".join(x) for x in itertools.product(L.ALPHABET, repeat=4)))
            ex_s += time.time() - t1
            n_ex = 4
        else:
            budget_note = "length 4 not enumerated: measured %.0f cases/s, %d strings would take %.0f s" % (rate, n4, n4 / rate)
    #     seeded sample of the next length
    k = n_ex + 1
    n_sample = ck.n(8000, 60000) if budget_note is None else int(min(300000, rate * 600))
    sample = ["".join(ck.rng.choice(L.ALPHABET) for _ in range(k)) for _ in range(n_sample)]
    R.stream("sample-next-length", sample)
    # (c) random longer strings
    R.stream("random", gen_random(ck, ck.n(3000, 30000)))

    ck.coverage["alphabet"] = L.ALPHABET
    ck.coverage["exhaustive"] = {"max_length": n_ex, "strings": sum(len(L.ALPHABET) ** i for i in range(1, n_ex + 1)), "seconds": round(ex_s, 1),
                                 "cases_per_s_end_to_end": round(rate, 1), "sampled_length": k, "sampled": len(sample), "note": budget_note}
    ck.coverage["rates"] = {"model_cases_per_s": round(R.n_model / R.t_model, 1) if R.t_model else None,
                            "implementation_cases_per_s": round(R.n_impl / R.t_impl, 1) if R.t_impl else None,
                            "model_cases": R.n_model, "distinct_slices_relexed": len(R.relex_cache)}
    ck.coverage["faults_by_kind"] = R.reported
    ck.coverage["unexplained_faults_by_kind"] = R.unexplained
    ck.proof_broken_violation(found_input=bool(ck.violations))
    ck.assumptions += ["strings fed to the model use only code points of the validated class domain; strings outside it go through the implementation-only oracle",
                       "the lexer is deterministic (C11): slices are re-lexed once and cached"]
    ck.finish(TRUSTED, "a case is one source string; streams: hand corpus (%d), word-contexts (reserved / literal-like words x left contexts x right contexts, %d sources), "
              "all strings of length <= %d over the %d-character lexical alphabet, a seeded sample of length %d, "
              "seeded random strings (noise / token soup up to ~200 chars / mutated soup); every case is lexed by the implementation, checked by the direct C17 oracle "
              "(with every token slice re-lexed) and compared with the Coq model; interp-inner: sources that are one s-/f-string, the inner-lexer model vs interpolation::parse; "
              "non-trivial = accepted with at least one real token (interp-inner: the source is a single interpolation token); distinct by hashing the string"
              % (len(L.CORPUS), len(wc), n_ex, len(L.ALPHABET), k))

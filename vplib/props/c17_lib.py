"""C17 helpers: encoding of the implementation's tokens as Coq terms / python values, the direct
property oracle on the implementation alone, generators."""
import itertools
import json
import math

OPS = ["ArrowThin", "ArrowFat", "Eq", "Ne", "Gte", "Lte", "RegexSearch", "And", "Or", "Coalesce", "DivInt", "Pow"]

# the lexically significant alphabet of DESIGN.md section 5 (C17)
ALPHABET = ["a", "l", "e", "t", "0", "1", ".", "_", " ", "\t", "\n", "\r", "\\", "#", "!", "'", '"', "`", "@", "$", "-", ":",
            "=", "&", "|", "{", "}", "(", "\u00e9", "\U0001F600"]
# fragments for the random stream (multi-character lexemes and characters outside the small alphabet)
FRAGMENTS = ALPHABET + ["let", "true", "false", "null", "case", "into", "func", "..", " .. ", "s\"", "f'", "r'", "r\"", "e5", "E+1", "0x", "0b", "0o",
                        "days", "hours", "years", "2", "3", "7", "9", "F", "x", "Z", "T", "2020-01-01", "12:30", ":05", ".5", "+05:30", "-0800",
                        "\"\"\"", "''", "\\n", "\\u{41}", "\\x4", "\\\"", ",", ")", "]", ">", "<", "/", "%", "+", "*", "[", "?", "??", "~=", "->", "=>", "==", "!=",
                        ">=", "<=", "&&", "||", "//", "**", "~", ";", "^", "\r\n", "#!", "\u00b2", "\u0663", "\u4e2d", "\u00a0", "\u2028", "\u3000", "\u00df", "\u0394",
                        "\u00d7", "\u02b0", "\u0085", "\u200b", "\ufeff", "\ufffd", "\U0010ffff", "\ud7ff", "\ue000", "\x0b", "\x0c", "\x00", "\x7f"]

import sys as _sys
if hasattr(_sys, "set_int_max_str_digits"):
    _sys.set_int_max_str_digits(0)
# 2^1024 - 2^970: the smallest value str::parse::<f64> maps to infinity (midpoint above f64::MAX, ties to even), and its predecessor
_F64_T = str((1 << 1024) - (1 << 970))
_F64_T1 = str((1 << 1024) - (1 << 970) - 1)

CORPUS = ["", " ", "\t ", "from a | select {b, c}", "x = true.a", "case(", "let x = 5", "1..2", "a ..b", " .. ", "a .. b", "..", "...", "....", "1.5e3", "0x1F", "0b_101",
          "0o777", "0b2", "0x", "0xg", "0x_", "0x1234567890abcdef", "0b" + "1" * 33, "2days", "2days(", "1_0years ", "0days", "9223372036854775808days", "@2020-01-01",
          "@12:30:15.5Z", "@2020-01-01T10:00+05:30 ", "@2020-01-01T10:00-0800", "@2020-01-01T", "@20222-01-01", "@12:30:15.1234567", "@1", "@12", "@12:3", "@a", "@",
          "@2020-01-01x", "'a\\'b'", "\"\"\"a\"\"b\"\"\"", "\"\"", "''''", "'''a'''", "'''a''", "\"a", "f\"{a}\"", "s'x'", "s\"", "f", "r\"a\\n\"", "r'a\"", "r'a\nb'", "r",
          "$1.x", "$", "$ a", "a\n  # c\n  \\ b", "a\n#c\n#!d\n\\b", "a\n#c\\", "\n\\", "\r\n\\", "\r\\", "\n \t\\", "#! doc\n", "#c", "#", "#\r", "a && b", "a&&b", "a &&", "a && ..",
          "a || b", "a||b", "`x y`.`z`", "``", "`a", "`a\nb`", "\"\\u{41}\\x41\\x4g\\q\"", "\"\\u{}\"", "\"\\u{110000}\"", "\"\\u{d800}\"", "\"\\u{1234567}\"", "\"\\u41\"",
          "\"\\x\"", "\"\\x4\"", "\"\\\\\"", "\"\\", "\"\\\"", "\"\\b\\f\\n\\r\\t\\/\"", "1_000.5_5", "9223372036854775807", "9223372036854775808", "1e400", "1e-400", "01", "0_1",
          "1.", "1.a", "1.e5", "1e", "1e+", "1E-5x", "1__2", "\u00e9 = 1", "a\r\nb", "a\rb", "==x", "a ?? b // c ** d", "a?b", "1days2", "true", "nullx", "true,", "false)", "null..",
          "let\n", "let\t", "let>", "let}", "let]", "let{", "let.", "let..", "into.a", "internal(", "import:", "enum=", "type\\", "module#", "prql$", "func@", "truea", "true(",
          "false.", "null:", "\U0001F600", "a\U0001F600", "\"\U0001F600\" \u00e9", "#\U0001F600\n\u00e9", "\u00e9\u00e9 ..\u00e9", "\u4e2d\u6587 = 1", "x\u00b2", "\u00b2", "\u0663",
          "1.7976931348623158e308", "1.7976931348623159e308", "17976931348623158" + "0" * 292, "17976931348623159" + "0" * 292, "1" + "0" * 400, "0e999", "0.0e999999999999999999",
          "1e309 a", "a\n1e999", "[1e400]", "1_0e3_0", _F64_T1 + ".99", _F64_T,
          "9223372036854775807days", "9_223_372_036_854_775_808years", "99999999999999999999hours(",
          "a\u0663", "$\u0663", "a\u00a0b", "a\u2028b", "\u3000", "a\x0bb", "a\x0c", "-1", "a-b", "a - b", "[1, 2]", "{a=1}", "(a)", "a:b", "a.b.c", "f x y", "s\"{a} b\" f'c'",
          "@{a}", "@ 1", "1 .. 2", "1.. 2", "1 ..2", "a..", "..a", "a\t..\tb", "a \n b", " a", "a ", " a ", "\ta\t", "a\\b", "\\", "a\n\\", "~", "~=", "?", "&", "&&", "||", "|", "&&&",
          "|||", "&&)", "||}", "let let", "letx", "let1", "let_", "_let", "_", "__a1", "a\u0301", "\u0301"]

# sources that together contain every token kind / literal variant / operator (used by the transport self-test)
TRANSPORT_EXTRA = ["a -> b => c == d != e >= f <= g ~= h && i || j ?? k // l ** m", "s\"x {a}\" f'y' r'z' @2020-01-01 @12:30 @2020-01-01T10:00:00Z 2days $p.q #c",
                   "#!doc", "a\n #c\n #!d\n \\ b", "null true false 5 'str' \"\\u{e9}\"", " .. ", "a..b", "@ x", "let case\n", "`q r` 0x1f 0b1 0o7 9223372036854775807"]

EDGE_CHARS = ["\ufeff", "\u00a0", "\u200b", "\r", "\x0b", "\x0c", "\u0085", "\u2028", "\u3000"]

VALID_POINTS = [0x2028, 0x2029, 0x3000, 0x1F600, 0xFFFD, 0x10FFFF, 0xD7FF, 0xE000, 0x200B, 0xFEFF, 0x0301]
VALID_RANGES = [(0, 1154), (0x4E00, 0xA000), (1632, 1642), (1776, 1786)]


def in_domain(c):
    o = ord(c)
    return o in VALID_POINTS or any(a <= o < b for a, b in VALID_RANGES)


def codes(s):
    return "[" + ";".join(str(ord(c)) for c in s) + "]"


class NeedsSlowPath(Exception):
    pass


def coq_lit(l, floats_ok=False):
    if l == "Null":
        return "LNull"
    (k, v), = l.items()
    if k == "Integer":
        if v < 0:
            return "LInt 0 (* negative: %d *)" % v  # cannot happen; never equal to the model
        return "LInt %d" % v
    if k == "Float":
        raise NeedsSlowPath()
    if k == "Boolean":
        return "LBool %s" % ("true" if v else "false")
    if k in ("String", "RawString", "Date", "Time", "Timestamp"):
        return "%s %s" % ({"String": "LString", "RawString": "LRaw", "Date": "LDate", "Time": "LTime", "Timestamp": "LTimestamp"}[k], codes(v))
    if k == "ValueAndUnit":
        return "LVU %d %s" % (v["n"], codes(v["unit"]))
    raise ValueError("unknown literal %r" % (l,))


def coq_kind(k):
    if isinstance(k, str):
        if k == "NewLine":
            return "KNewLine"
        if k == "Start":
            return "KStart"
        if k == "Annotate":
            return "KAnnotate"
        if k in OPS:
            return "KOp %s" % codes(k)
        raise ValueError("unknown unit kind %r" % k)
    (t, v), = k.items()
    if t in ("Ident", "Keyword", "Param", "Comment", "DocComment"):
        return "K%s %s" % (t, codes(v))
    if t == "Literal":
        return "KLiteral (%s)" % coq_lit(v)
    if t == "Range":
        return "KRange %s %s" % ("true" if v["bind_left"] else "false", "true" if v["bind_right"] else "false")
    if t == "Interpolation":
        return "KInterp %d %s" % (ord(v[0]), codes(v[1]))
    if t == "Control":
        return "KControl %d" % ord(v)
    if t == "LineWrap":
        cs = []
        for c in v:
            (ct, cv), = c.items()
            if ct not in ("Comment", "DocComment"):
                raise ValueError("unexpected kind inside LineWrap: %r" % (c,))
            cs.append("(%s, %s)" % ("true" if ct == "DocComment" else "false", codes(cv)))
        return "KLineWrap [" + "; ".join(cs) + "]"
    raise ValueError("unknown kind %r" % (k,))


def coq_answer(ans):
    """harness `lex` answer -> Coq term of type option (list (kind * (N * N)))"""
    if "ok" not in ans:
        return "None"
    return "Some [" + "; ".join("(%s, (%d, %d))" % (coq_kind(t["kind"]), t["span"]["start"], t["span"]["end"]) for t in ans["ok"]) + "]"


# ---- compact transport of a batch of cases into Coq: one primitive array of 63-bit integers
#      (wire format and deserialiser: coq/Model/LexerDecode.v)

KIND_TAG = {"NewLine": 0, "Ident": 1, "Keyword": 2, "Literal": 3, "Param": 4, "Range": 5, "Interpolation": 6, "Control": 7, "Annotate": 9,
            "Comment": 10, "DocComment": 11, "LineWrap": 12, "Start": 13}
LIT_TAG = {"Integer": 1, "Boolean": 3, "String": 4, "RawString": 5, "Date": 6, "Time": 7, "Timestamp": 8, "ValueAndUnit": 9}
INT_MAX = (1 << 63) - 1


def enc_str(out, s):
    out.append(len(s))
    out.extend(ord(c) for c in s)


def enc_lit(out, l):
    if l == "Null":
        out.append(0)
        return
    (k, v), = l.items()
    if k == "Float":
        raise NeedsSlowPath()
    if k not in LIT_TAG:
        raise ValueError("unknown literal %r" % (l,))
    out.append(LIT_TAG[k])
    if k == "Integer":
        if not (0 <= v <= INT_MAX):
            raise ValueError("integer literal out of range: %r" % v)   # the lexer never produces negative literals
        out.append(v)
    elif k == "Boolean":
        out.append(1 if v else 0)
    elif k == "ValueAndUnit":
        if not (0 <= v["n"] <= INT_MAX):
            raise ValueError("value_and_unit out of range: %r" % (v,))
        out.append(v["n"])
        enc_str(out, v["unit"])
    else:
        enc_str(out, v)


def enc_kind(out, k):
    if isinstance(k, str):
        if k in OPS:
            out.append(8)
            enc_str(out, k)
        elif k in ("NewLine", "Start", "Annotate"):
            out.append(KIND_TAG[k])
        else:
            raise ValueError("unknown unit kind %r" % k)
        return
    (t, v), = k.items()
    if t not in KIND_TAG:
        raise ValueError("unknown kind %r" % (k,))
    out.append(KIND_TAG[t])
    if t in ("Ident", "Keyword", "Param", "Comment", "DocComment"):
        enc_str(out, v)
    elif t == "Literal":
        enc_lit(out, v)
    elif t == "Range":
        out.extend((1 if v["bind_left"] else 0, 1 if v["bind_right"] else 0))
    elif t == "Interpolation":
        out.append(ord(v[0]))
        enc_str(out, v[1])
    elif t == "Control":
        out.append(ord(v))
    elif t == "LineWrap":
        out.append(len(v))
        for c in v:
            (ct, cv), = c.items()
            if ct not in ("Comment", "DocComment"):
                raise ValueError("unexpected kind inside LineWrap: %r" % (c,))
            out.append(1 if ct == "DocComment" else 0)
            enc_str(out, cv)
    else:
        raise ValueError("unknown kind %r" % (k,))


def enc_case(s, ans):
    """(source, harness `lex` answer) -> list of ints (one `case` of the wire format)"""
    out = []
    enc_str(out, s)
    if "ok" not in ans:
        out.append(0)
        return out
    out.append(1)
    out.append(len(ans["ok"]))
    for t in ans["ok"]:
        enc_kind(out, t["kind"])
        out.extend((t["span"]["start"], t["span"]["end"]))
    return out


def arr_literal(cases):
    """list of encoded cases -> Coq primitive-array literal of the batch: the numbers [len(cases)] + cases as LEB128 bytes,
    7 bytes per 63-bit cell (least significant first), cell 0 = number of bytes"""
    bs = bytearray()
    def put(v):
        while v >= 128:
            bs.append((v & 127) | 128)
            v >>= 7
        bs.append(v)
    put(len(cases))
    for c in cases:
        for v in c:
            put(v)
    n = len(bs)
    bs.extend(b"\0" * (-n % 7))
    cells = [str(n)] + [str(int.from_bytes(bs[i:i + 7], "little")) for i in range(0, len(bs), 7)]
    return "[| " + ";".join(cells) + " | 0 |]"


# ---- python view of both sides (slow path: floats, and printing the model's answer for a replay)

def _s(x):
    return "".join(chr(c) for c in x)


def py_model_lit(l):
    if l == "LNull":
        return ("Null",)
    h = l[0]
    if h == "LInt":
        return ("Integer", l[1])
    if h == "LFloat":
        try:
            f = float(_s(l[1]))
        except ValueError:
            f = "unparsable:" + _s(l[1])
        return ("Float", None if isinstance(f, float) and (math.isinf(f) or math.isnan(f)) else f)
    if h == "LBool":
        return ("Boolean", l[1])
    if h == "LVU":
        return ("ValueAndUnit", l[1], _s(l[2]))
    return ({"LString": "String", "LRaw": "RawString", "LDate": "Date", "LTime": "Time", "LTimestamp": "Timestamp"}[h], _s(l[1]))


def py_model_kind(k):
    if isinstance(k, str):
        return ({"KNewLine": "NewLine", "KStart": "Start", "KAnnotate": "Annotate"}[k],)
    h = k[0]
    if h == "KOp":
        return (_s(k[1]),)
    if h in ("KIdent", "KKeyword", "KParam", "KComment", "KDocComment"):
        return (h[1:], _s(k[1]))
    if h == "KLiteral":
        return ("Literal", py_model_lit(k[1]))
    if h == "KRange":
        return ("Range", k[1], k[2])
    if h == "KInterp":
        return ("Interpolation", chr(k[1]), _s(k[2]))
    if h == "KControl":
        return ("Control", chr(k[1]))
    if h == "KLineWrap":
        return ("LineWrap", tuple(("DocComment" if d else "Comment", _s(t)) for d, t in k[1]))
    raise ValueError("unknown model kind %r" % (k,))


def py_model(v):
    """parse_term value of `run T s` -> None | list of (kind tuple, start, end)"""
    if v == "None":
        return None
    assert v[0] == "Some", v
    return [(py_model_kind(k), a, b) for (k, (a, b)) in v[1]]


def py_impl_lit(l):
    if l == "Null":
        return ("Null",)
    (k, v), = l.items()
    if k == "ValueAndUnit":
        return (k, v["n"], v["unit"])
    return (k, v)


def py_impl_kind(k):
    if isinstance(k, str):
        return (k,)
    (t, v), = k.items()
    if t == "Literal":
        return (t, py_impl_lit(v))
    if t == "Range":
        return (t, v["bind_left"], v["bind_right"])
    if t == "Interpolation":
        return (t, v[0], v[1])
    if t == "LineWrap":
        return (t, tuple(py_impl_kind(c) for c in v))
    return (t, v)


def py_impl(ans):
    if "ok" not in ans:
        return None
    return [(py_impl_kind(t["kind"]), t["span"]["start"], t["span"]["end"]) for t in ans["ok"]]


# ---- the direct property oracle on the implementation alone

INLINE_WS = b" \t"


def char_boundaries(src):
    b = set()
    off = 0
    b.add(0)
    for c in src:
        off += len(c.encode("utf-8"))
        b.add(off)
    return b, off


def structural_faults(src, toks):
    """clauses 1-4 of C17 on one accepted source; returns list of (clause, detail)"""
    faults = []
    raw = src.encode("utf-8")
    bnd, n = char_boundaries(src)
    if not toks or toks[0][0] != ("Start",) or toks[0][1:] != (0, 0):
        faults.append(("start-token", "first token is not Start 0..0"))
    prev_end = 0
    for i, (k, a, b) in enumerate(toks):
        if not (0 <= a <= b <= n):
            faults.append(("in-bounds", "token %d span %d..%d outside 0..%d" % (i, a, b, n)))
            continue
        if a not in bnd or b not in bnd:
            faults.append(("char-boundary", "token %d span %d..%d splits a code point" % (i, a, b)))
        if i > 0 and a == b:
            faults.append(("non-empty", "token %d has an empty span" % i))
        if a < prev_end:
            faults.append(("ordered-disjoint", "token %d starts at %d before the previous token ends at %d" % (i, a, prev_end)))
        else:
            gap = raw[prev_end:a]
            if any(x not in INLINE_WS for x in gap):
                faults.append(("gap", "text %r between tokens %d and %d is not inline whitespace" % (gap, i - 1, i)))
        prev_end = max(prev_end, b)
    tail = raw[prev_end:]
    if any(x not in INLINE_WS for x in tail):
        faults.append(("gap", "text %r after the last token is not inline whitespace" % tail))
    return faults


def token_slices(src, toks):
    """[(index, slice text)] of the non-Start tokens whose span is well-formed"""
    raw = src.encode("utf-8")
    out = []
    for i, (k, a, b) in enumerate(toks):
        if i == 0:
            continue
        if 0 <= a <= b <= len(raw):
            try:
                out.append((i, raw[a:b].decode("utf-8")))
            except UnicodeDecodeError:
                pass
    return out


def relex_ok(tok, sl, relexed):
    """does lexing the slice alone give [Start, the same token at 0..len]?"""
    if relexed is None:
        return False
    n = len(sl.encode("utf-8"))
    return relexed == [(("Start",), 0, 0), (tok[0], 0, n)]


def exhaustive(alphabet, n):
    for k in range(1, n + 1):
        for t in itertools.product(alphabet, repeat=k):
            yield "".join(t)


def key(s):
    return json.dumps(s)


# ---- the directed family "every reserved / literal-like word x every left context x every right context"
#      (a token's kind must be a function of its own text: C17's re-lex clause; anything that makes the kind depend on
#      what precedes or follows the word shows up here with a concrete source)

LEFT_CONTEXTS = {
    "line-start": ["", " ", "\t", "\n", "\r\n", "a\n", "a\n  ", "a\r\n\t", "#c\n", "#!d\n", "a #c\n", "\n\n", "a\n\\ ", "\n\\", "a\n #c\n \\ ", "1\n", ")\n", "let\n"],
    "after-token": ["a ", "a\t", "1 ", "1.5 ", "let ", "x = ", "from t | ", "from t\nfilter ", "'s' ", "\"d\" ", "r'w' ", "f\"{a}\" ", "$p ", "@2020-01-01 ", "@1 ", "a.b ",
                    "f x ", "`q r` ", "2days ", "true ", "null ", ") ", "] ", "} "],
    "glued-after-token": ["1", "2", "1.5", "'s'", "\"d\"", ")", "]", "}", "`q`", "$", "$p.", "@2020-01-01", "@"],
    "brackets": ["(", "[", "{", "( ", "[ ", "{ ", "{a, ", "{a,", "(a ", "[1, ", "{a = ", "{a=", "f(", "f (", "select {", "select {name, ", "((", "{{", "[(", "{\n", "(\n  "],
    "operators": ["=", "= ", "==", "== ", "!=", "!= ", ">=", ">= ", "<=", "<= ", "~=", "~= ", "&&", "&& ", "||", "|| ", "??", "?? ", "//", "// ", "**", "** ", "->", "-> ", "=>", "=> ",
                  "!", "! ", "-", "- ", "+", "+ ", "*", "* ", "/", "/ ", "%", "% ", "<", "< ", ">", "> ", "|", "| ", ",", ", ", ":", ": ", ".", "a.", "1.", "..", ".. ", "a..", "a .. ",
                  " ..", "a == ", "a && ", "a ?? ", "a + ", "-a + ", "x -> ", "?", "? "],
}
RIGHT_TERMINATORS = ["", " ", "\t", "\n", "\r\n", "\r", ",", ")", "]", "}", ">", "..", " ..", " = 1", " x", " (", " #c", "\n\\ a", ", a}", " | b", " == 1"]
RIGHT_OTHERS = ["(", "()", ".", ".a", ":", ":a", "=", "=1", "==", "[", "[0]", "{", "|", "-", "-1", "+", "*", "/", "!", "<", ">=", "#c", "\\", "'", "''", "\"x\"", "`", "`a`", "1", "_", "_a", "a",
                "$", "@", "?", "??", "&&", "||", "->", "=>", "\u00e9", ";", "~"]
LEFT_SMALL = ["", "\n", "a ", "1 ", "(", "{a, ", "== ", "-", "| ", ".", "..", "a\n\\ ", "'s'", "} "]
RIGHT_SMALL = ["", " ", "\n", ",", ")", "..", "(", ".", "=", " x"]
PREFIX_WORDS = ["r", "s", "f", "e", "x", "T", "Z"]      # letters that are part of literal syntax (r'..' s".." f".." 1e5 0x.. dates)


def context_words(info, full, rng):
    """reserved and literal-like words of the CURRENT tables: every keyword, true/false/null and every letter that is part of literal
    syntax, always; interval units and capitalised / upper-case spellings: all of them in the full family, a seeded sample
    otherwise; plus plain identifiers as the control"""
    kws = list(info.get("keywords") or ["let", "into", "case", "prql", "type", "module", "internal", "func", "import", "enum"])
    lits = [info.get("true_word", "true"), info.get("false_word", "false"), info.get("null_word", "null")]
    units = list(info.get("units") or ["microseconds", "milliseconds", "seconds", "minutes", "hours", "days", "weeks", "months", "years"])
    based = [p for p, *_ in (info.get("based") or [("0b",), ("0x",), ("0o",)])]
    caps = [w.capitalize() for w in kws + lits] + [w.upper() for w in lits]
    if not full:
        units = rng.sample(units, min(3, len(units)))
        caps = rng.sample(caps, min(4, len(caps)))
    ws = kws + lits + units + PREFIX_WORDS + [p[1:] for p in based if len(p) > 1] + caps + ["a", "from"]
    seen, out = set(), []
    for w in ws:
        if w and w not in seen:
            seen.add(w)
            out.append(w)
    return out


def word_contexts(words, full):
    """yield (position class, source): full = the whole product; otherwise every (word, left) pair with the small right set and
    every (word, right) pair with the small left set"""
    rights = RIGHT_TERMINATORS + RIGHT_OTHERS
    seen = set()
    for cls, lefts in LEFT_CONTEXTS.items():
        for l in lefts:
            for w in words:
                for r in (rights if full else RIGHT_SMALL):
                    src = l + w + r
                    if src not in seen:
                        seen.add(src)
                        yield cls, src
    if not full:
        for l in LEFT_SMALL:
            for w in words:
                for r in rights:
                    src = l + w + r
                    if src not in seen:
                        seen.add(src)
                        yield "right-context", src


# ---- the inner structure of s-/f-strings (Model/LexerInterp.v vs interpolation::parse, observed through prql_to_pl)

INTERP_ALPHABET = ["a", "_", "1", ".", ":", "{", "}", "`", " "]
INTERP_FRAGMENTS = INTERP_ALPHABET + ["b", "{{", "}}", "{a}", "{a.b}", "{a:x}", "{a.b:>5}", "{`a b`}", "{`a`.`b`.c}", "{a.}", "{.a}", "{a..b}", "{a:}", "{a:{}", "{a:}}", "{}", "{ a}",
                                      "{a }", "{1}", "{_}", "{a1_}", "{\u00e9}", "\u00e9", "\u4e2d", "x y", "'", "\\n", "\\\\", "\\u{7b}", "\\x7d", "``", "{``}", "{`{`}", "{`}`}",
                                      "{a:`}", ",", "(", ")", "=", "{{{a}}}", "{{a}", "{a}}", "}{", "\t", "{a\nb}", "{a:\nb}"]
INTERP_WRAPS = [('f"', '"'), ("f'", "'"), ('s"', '"'), ("s'", "'"), ('f"""', '"""'), ("s'''", "'''"), ('f""', ''), ("s''", "")]
INTERP_CORPUS = ['f"a{b.c:>5}d{{e}}"', 's"x {`a b`.c} y"', 'f"{a"', 'f"}"', "f'''a'{b}''c'''", 'f"{a}{b}"', 'f""', 'f"{a:}"', 'f"{\u00e9}"', 'f"{ a}"', 's"{a.}"', 's"{a.b.}"',
                 's"{.a}"', 'f"{{"', 'f"}}"', 'f"{{{{"', 'f"{{{"', 'f"{}"', 'f"{a}}"', 'f"{{a}"', 's"SELECT {a} FROM {b.c} WHERE {`x y`:z}"', 'f"\\u{7b}a}"', 'f"{a\\x7d"', 'f"{a:\\u{7d}}"',
                 's"{a:b:c}"', 's"{a:{b}"', 's"{`a`}"', 's"{``}"', 's"{`a"', 's"{a`b`}"', 's"{a.`b`}"', 's"{1a}"', 's"{_1}"', 's"{a-b}"', 'f"{a} {a}"', 'f" "', 'f"\u4e2d{\u4e2d}\u4e2d"', 's"{a.b.c.d.e}"']


def interp_sources(rng, n_exh, n_rand):
    """sources that are one s-/f-string: the corpus, all contents of length <= n_exh over INTERP_ALPHABET in f"..", seeded random longer
    contents in every wrapping (single / triple quotes of both kinds, the empty even-quoted string)"""
    out = list(INTERP_CORPUS)
    for k in range(0, n_exh + 1):
        for t in itertools.product(INTERP_ALPHABET, repeat=k):
            out.append('f"' + "".join(t) + '"')
    for _ in range(n_rand):
        a, b = rng.choice(INTERP_WRAPS)
        out.append(a + "".join(rng.choice(INTERP_FRAGMENTS) for _ in range(rng.randint(1, 8))) + b)
    seen, res = set(), []
    for s in out:
        if s not in seen:
            seen.add(s)
            res.append(s)
    return res


_SPAN = None


def impl_interp(ans):
    """harness `pl` answer for a source that is one s-/f-string -> ("err",) | ("ok", prefix, [items]) | ("other", why)
    items: ("IString", text) | ("IExpr", (parts..), start, end, format|None) with start/end relative to the content (the parser adds
    token start + 2)"""
    import re
    if "err" in ans:
        return ("err",)
    if "ok" not in ans:
        return ("other", json.dumps(ans)[:200])
    st = ans["ok"].get("stmts", [])
    if len(st) != 1 or "VarDef" not in st[0]:
        return ("other", "not a single main expression")
    v = st[0]["VarDef"].get("value") or {}
    key = "FString" if "FString" in v else "SString" if "SString" in v else None
    if key is None:
        return ("other", "main is not an s-/f-string: %s" % list(v)[:3])
    items = []
    for it in v[key]:
        if "String" in it:
            items.append(("IString", it["String"]))
        elif "Expr" in it:
            e = it["Expr"]["expr"]
            m = re.fullmatch(r"\d+:(\d+)-(\d+)", e.get("span") or "")
            if "Ident" not in e or not m:
                return ("other", "unexpected Expr item %s" % json.dumps(it)[:200])
            items.append(("IExpr", tuple(e["Ident"]), int(m.group(1)) - 2, int(m.group(2)) - 2, it["Expr"].get("format")))
        else:
            return ("other", "unexpected item %s" % json.dumps(it)[:200])
    return ("ok", "f" if key == "FString" else "s", items)


def model_interp(v):
    """parse_term value of `run_interp T s` -> None (not comparable) | ("err",) | ("ok", prefix, items, extents)"""
    if v == "None":
        return None
    c, r = v[1]
    if r == "None":
        return ("err",)
    items, ext = [], []
    for it, (a, b) in r[1]:
        if it[0] == "IString":
            items.append(("IString", _s(it[1])))
        else:
            items.append(("IExpr", tuple(_s(p) for p in it[1]), it[2], it[3], None if it[4] == "None" else _s(it[4][1])))
        ext.append((a, b))
    return ("ok", chr(c), items, ext)


# ---- forward lexing (Proofs/LexForward.v): token lists of the renderable classes, written with one space between tokens,
#      must lex back to exactly those tokens with exactly those spans (c17_render_lex_roundtrip / c17_render_kinds_roundtrip)

IDENT_STARTS = "abcxyzsfr_ABZé中"
IDENT_CONTS = IDENT_STARTS + "0189٣"
STRING_CHARS = "ab z0,.(){}[]'#$@-=\n\té中\U0001F600"


def render_cases(rng, info, n):
    """n random token lists -> [(source, expected python view of the implementation's tokens incl. Start)]"""
    kws = list(info.get("keywords") or ["let", "into", "case", "prql", "type", "module", "internal", "func", "import", "enum"])
    words = [(info.get("true_word", "true"), ("Literal", ("Boolean", True))), (info.get("false_word", "false"), ("Literal", ("Boolean", False))),
             (info.get("null_word", "null"), ("Literal", ("Null",)))]
    reserved = set(kws) | {w for w, _ in words}
    controls = list(info.get("controls") or "><%=+-*[]().,:|!{}/")
    ops = [(t, k) for t, k, _ in (info.get("ops") or [("->", "ArrowThin", False), ("==", "Eq", False), ("&&", "And", True)])]

    def ident():
        while True:
            w = rng.choice(IDENT_STARTS) + "".join(rng.choice(IDENT_CONTS) for _ in range(rng.randint(0, 6)))
            if rng.random() < 0.3:
                w = rng.choice(sorted(reserved)) + rng.choice(["x", "_", "1", "s", ""])      # near misses of reserved words
            if w not in reserved:
                return w, ("Ident", w)

    def integer():
        v = rng.choice([0, 1, 7, 42, 100, 2 ** 31, 2 ** 63 - 1, rng.randrange(10 ** rng.randint(1, 18))])
        return str(v), ("Literal", ("Integer", v))

    def string():
        b = "".join(rng.choice(STRING_CHARS) for _ in range(rng.randint(0, 8)))
        return '"' + b + '"', ("Literal", ("String", b))

    def param():
        b = "".join(rng.choice(IDENT_CONTS + ".") for _ in range(rng.randint(0, 5)))
        return "$" + b, ("Param", b)

    def keyword():
        k = rng.choice(kws)
        return k, ("Keyword", k)

    def word():
        return rng.choice(words)

    def control():
        c = rng.choice(controls)
        return c, ("Control", c)

    def op():
        t, k = rng.choice(ops)
        return t, (k,)

    makers = [ident, ident, integer, string, param, keyword, word, control, op]
    out = []
    for _ in range(n):
        toks = [rng.choice(makers)() for _ in range(rng.randint(1, 12))]
        src, want, pos = "", [(("Start",), 0, 0)], 0
        for i, (x, k) in enumerate(toks):
            if i:
                src += " "
                pos += 1
            n_b = len(x.encode("utf-8"))
            want.append((k, pos, pos + n_b))
            src += x
            pos += n_b
        out.append((src, want))
    return out

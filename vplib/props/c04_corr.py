"""C04 correspondence (Tie B): Model/Frame.v vs the implementation.
  frame_of   (window arguments -> (kind,start,end))      vs the frame of RQ `Compute.window` (transforms.rs, flatten.rs, lowering.rs)
  emit_frame (elision + bound signs -> frame clause text) vs the text inside OVER (...) of the emitted SQL (gen_expr.rs)
Exhaustive over kinds x bounds {open,-2..2}^2 (incl. empty ranges) x sorted/unsorted x grouped/ungrouped x
{function with window_frame=true, function without, ranking function} + rolling -1..3 + expanding + argument
combinations (which argument wins)."""
import json
import re

from ..common import coq_eval, harness
from .c04_e2e import over_clauses

HEADER = ("From Coq Require Import List ZArith NArith.\nFrom PV Require Import Lib.ListX Model.Rel Model.Frame.\n"
          "Import ListNotations.\nLocal Open Scope Z_scope.\n")
B = [None, -2, -1, 0, 1, 2]


def rb(x, paren):
    return "" if x is None else ("(%d)" % x if (x < 0 and paren) else str(x))


def coq_oz(x):
    return "None" if x is None else "(Some (%d))" % x


def coq_bounds(ab):
    return "None" if ab is None else "(Some (%s, %s))" % (coq_oz(ab[0]), coq_oz(ab[1]))


def arg_sets(thorough):
    """list of (prql argument text, Coq wargs term)"""
    out = []

    def add(rows=None, range_=None, expanding=None, rolling=None, paren=True):
        parts = []
        if rows is not None:
            parts.append("rows:%s..%s" % (rb(rows[0], paren), rb(rows[1], paren)))
        if range_ is not None:
            parts.append("range:%s..%s" % (rb(range_[0], paren), rb(range_[1], paren)))
        if expanding is not None:
            parts.append("expanding:%s" % ("true" if expanding else "false"))
        if rolling is not None:
            parts.append("rolling:%s" % (rb(rolling, True)))
        coq = "(mk_wargs %s %s %s %s)" % (coq_bounds(rows), coq_bounds(range_), "None" if expanding is None else "(Some %s)" % ("true" if expanding else "false"), coq_oz(rolling))
        out.append((" ".join(parts), coq))
    for a in B:
        for b in B:
            add(rows=(a, b))
            add(range_=(a, b))
    for n in (-1, 0, 1, 2, 3):
        add(rolling=n)
    add(expanding=True)
    add(expanding=False)
    # which argument wins
    add(rows=(-1, 1), range_=(0, 2))
    add(rows=(1, -1), range_=(0, 2))
    add(rows=(1, -1), range_=(2, 0))
    add(rows=(-1, 1), rolling=2)
    add(range_=(-1, 1), rolling=3)
    add(rows=(-1, 1), expanding=True)
    add(rolling=2, expanding=True)
    add(rows=(None, None), rolling=0)
    add(range_=(None, 0), rolling=-2)
    add(rows=(-2, None), paren=False)
    add(rows=(-2, -1), paren=False)
    add(range_=(-1, None), paren=False)
    return out


FNS = [("sum b", "SUM", True), ("count b", "COUNT", True), ("min b", "MIN", True), ("average b", "AVG", True), ("max b", "MAX", True),
       ("first b", "FIRST_VALUE", False), ("last b", "LAST_VALUE", False), ("rank b", "RANK", False), ("lag 1 b", "LAG", False),
       ("lead 1 b", "LEAD", False), ("rank_dense b", "DENSE_RANK", False), ("row_number b", "ROW_NUMBER", False)]


def run(ck, supports_table=None):
    """supports_table: {prql fn name: bool} from the translator (what std.sql.prql says NOW); falls back to
    the table above (the unchanged tree) when the translator failed"""
    args = arg_sets(ck.thorough)
    cases = []
    for sorted_ in (True, False):
        for grouped in (False, True):
            for ftxt, fsql, sup in FNS:
                name = ftxt.split()[0]
                if supports_table is not None and name in supports_table:
                    sup = supports_table[name]
                for atxt, acoq in args:
                    inner = ("sort a | " if sorted_ else "") + ("window %s (derive {x = %s})" % (atxt, ftxt) if atxt else "derive {x = %s}" % ftxt)
                    src = "from t | " + ("group g (%s)" % inner if grouped else inner) + " | select {x}"
                    cases.append({"src": src, "args": acoq, "sorted": sorted_, "grouped": grouped, "fn": fsql, "supports": sup, "atxt": atxt})
    # no window at all
    for sorted_ in (True, False):
        for ftxt, fsql, sup in FNS:
            name = ftxt.split()[0]
            if supports_table is not None and name in supports_table:
                sup = supports_table[name]
            src = "from t | " + ("sort a | " if sorted_ else "") + "derive {x = %s} | select {x}" % ftxt
            cases.append({"src": src, "args": None, "sorted": sorted_, "grouped": False, "fn": fsql, "supports": sup, "atxt": "(no window)"})
    exprs = []
    for c in cases:
        f3 = "no_window" if c["args"] is None else "(frame_of %s)" % c["args"]
        exprs.append("(frame3_data %s, show_frame (emit_frame %s %s %s))" % (f3, "true" if c["supports"] else "false", "true" if c["sorted"] else "false", f3))
    try:
        mv = coq_eval(HEADER, exprs)
    except RuntimeError:
        mv = coq_eval(HEADER, exprs, shards=4)      # a coqc shard killed under memory pressure: once more, fewer processes
    comp = harness("compile", [{"src": c["src"], "target": "sql.sqlite"} for c in cases])
    rqs = harness("rq", [{"src": c["src"]} for c in cases])
    for c, m, a, q in zip(cases, mv, comp, rqs):
        ck.count("frame-corr", c["src"])
        ck.stat("frame-corr", "fn:" + c["fn"])
        kind, ms, me, mtext = m
        mtext = "".join(chr(x) for x in mtext)
        want_rq = ("Rows" if kind == 0 else "Range", ms[0] if ms else None, me[0] if me else None)
        # --- RQ frame
        got_rq = None
        if "ok" in q:
            def lit(e):
                if e is None:
                    return None
                return e["kind"]["Literal"]["Integer"]
            for t in q["ok"]["relation"]["kind"]["Pipeline"]:
                if "Compute" in t and t["Compute"].get("window"):
                    w = t["Compute"]["window"]
                    got_rq = (w["frame"]["kind"], lit(w["frame"]["range"]["start"]), lit(w["frame"]["range"]["end"]),
                              len(w["partition"]), len(w["sort"]))
        if got_rq is None or got_rq[:3] != want_rq or got_rq[3] != (1 if c["grouped"] else 0) or got_rq[4] != (1 if c["sorted"] else 0):
            ck.stat("frame-corr", "disagreement:rq-window")
            ck.disagreement("window frame in RQ differs from the model of the `window` transform: %s: impl %r, model %r (partition %d, sort %d expected)" % (
                c["src"], got_rq, want_rq, 1 if c["grouped"] else 0, 1 if c["sorted"] else 0),
                {"src": c["src"], "impl_rq_window": got_rq, "model": list(want_rq), "rq": q if "ok" not in q else None}, lambda _c: None)
        # --- emitted OVER text
        got = None
        if "ok" in a:
            cl = over_clauses(a["ok"], c["fn"])
            if len(cl) == 1 and cl[0] is not None:
                got = cl[0]
            else:
                got = "?" + a["ok"]
        want = ("PARTITION BY g " if c["grouped"] else "") + ("ORDER BY a " if c["sorted"] else "") + mtext
        want = want.strip()
        ck.stat("frame-corr", "elided" if not mtext else "explicit")
        if got != want:
            ck.stat("frame-corr", "disagreement:over-text")
            ck.disagreement("OVER clause differs from the model: %s: impl %r, model %r" % (c["src"], got, want),
                            {"src": c["src"], "impl": a, "model_over": want}, lambda _c: None)
    ck.coverage["frame_corr_exhaustive"] = {"argument_sets": len(args), "cases": len(cases)}

"""C04 correspondence (Tie B): Model/Frame.v vs the implementation.
  frame_of   (window arguments -> (kind,start,end))      vs the frame of RQ `Compute.window` (transforms.rs, flatten.rs, lowering.rs)
  emit_frame (elision + bound signs -> frame clause text) vs the text inside OVER (...) of the emitted SQL (gen_expr.rs)
  frame_of = WEmptyRange arg                              vs the compile error `window: `arg` is an empty range ...` (/repo 7b31f75)
  scope_run  (partition / frame handed to a column)      vs RQ `Compute.window` of nested group / window / join programs (flatten.rs, 592b6f8)
Exhaustive over kinds x bounds {open,-2..2}^2 (incl. empty ranges) x sorted/unsorted x grouped/ungrouped x
{function with window_frame=true, function without, ranking function} + rolling -1..3 + expanding + argument
combinations (which argument wins, rejection in front of expanding / rolling)."""
import json
import re

from ..common import coq_eval, harness
from .c04_e2e import over_clauses

HEADER = ("From Coq Require Import List ZArith NArith.\nFrom PV Require Import Lib.ListX Model.Rel Model.Frame.\n"
          "Import ListNotations.\nLocal Open Scope Z_scope.\n")
B = [None, -2, -1, 0, 1, 2]
RANGE_KEYS_MSG = "window: a `range` with an offset needs exactly one sort key"                 # pinned by gen_window.extract_gen_expr
EMPTY_RANGE_MSG = "window: `%s` is an empty range (its start is after its end)"     # pinned in the source by gen_window.extract_transforms


def rb(x, paren):
    return "" if x is None else ("(%d)" % x if (x < 0 and paren) else str(x))


def coq_oz(x):
    return "None" if x is None else "(Some (%d))" % x


def coq_bounds(ab):
    return "None" if ab is None else "(Some (%s, %s))" % (coq_oz(ab[0]), coq_oz(ab[1]))


def arg_sets(thorough):
    """list of (prql argument text, Coq wargs term)"""
    out = []

    def add(rows=None, range_=None, expanding=None, rolling=None, paren=True):
        parts = []
        if rows is not None:
            parts.append("rows:%s..%s" % (rb(rows[0], paren), rb(rows[1], paren)))
        if range_ is not None:
            parts.append("range:%s..%s" % (rb(range_[0], paren), rb(range_[1], paren)))
        if expanding is not None:
            parts.append("expanding:%s" % ("true" if expanding else "false"))
        if rolling is not None:
            parts.append("rolling:%s" % (rb(rolling, True)))
        coq = "(mk_wargs %s %s %s %s)" % (coq_bounds(rows), coq_bounds(range_), "None" if expanding is None else "(Some %s)" % ("true" if expanding else "false"), coq_oz(rolling))
        out.append((" ".join(parts), coq))
    for a in B:
        for b in B:
            add(rows=(a, b))
            add(range_=(a, b))
    for n in (-1, 0, 1, 2, 3):
        add(rolling=n)
    add(expanding=True)
    add(expanding=False)
    # which argument wins
    add(rows=(-1, 1), range_=(0, 2))
    add(rows=(1, -1), range_=(0, 2))
    add(rows=(1, -1), range_=(2, 0))
    add(rows=(-1, 1), rolling=2)
    add(range_=(-1, 1), rolling=3)
    add(rows=(-1, 1), expanding=True)
    add(rolling=2, expanding=True)
    add(rows=(None, None), rolling=0)
    add(range_=(None, 0), rolling=-2)
    # the edges of i64 (222f71a: the PRECEDING distance is |z|, `-rolling + 1` stays in range)
    add(rows=(-9223372036854775807, 0))
    add(rows=(0, 9223372036854775807))
    add(rows=(-9223372036854775807, 9223372036854775807))
    add(range_=(-9223372036854775807, None))
    add(rolling=9223372036854775807)
    # the rejection of an empty range comes first, whatever else is given; `rows` is looked at before `range`
    add(rows=(1, 0), expanding=True)
    add(rows=(1, 0), rolling=2)
    add(range_=(2, -1), expanding=True)
    add(range_=(2, -1), rolling=3)
    add(rows=(2, 1), range_=(1, 0))
    add(rows=(-1, 1), range_=(1, 0))
    add(rows=(0, -1), range_=(1, 0))
    # the spelling of the default, written out: "argument not given"
    add(rows=(0, -1), range_=(0, -1))
    add(rows=(0, -1), range_=(-1, 1))
    add(rows=(0, -1), rolling=2)
    add(range_=(0, -1), expanding=True)
    add(rows=(-2, None), paren=False)
    add(rows=(-2, -1), paren=False)
    add(range_=(-1, None), paren=False)
    return out


FNS = [("sum b", "SUM", True), ("count b", "COUNT", True), ("min b", "MIN", True), ("average b", "AVG", True), ("max b", "MAX", True),
       ("first b", "FIRST_VALUE", False), ("last b", "LAST_VALUE", False), ("rank b", "RANK", False), ("lag 1 b", "LAG", False),
       ("lead 1 b", "LEAD", False), ("rank_dense b", "DENSE_RANK", False), ("row_number b", "ROW_NUMBER", False)]


def run(ck, supports_table=None, full=False):
    """supports_table: {prql fn name: bool} from the translator (what std.sql.prql says NOW); falls back to
    the table above (the unchanged tree) when the translator failed"""
    args = arg_sets(ck.thorough)
    full = ck.thorough or full
    rot = ck.seed
    cases = []
    for sorted_ in (True, False):
        for grouped in (False, True):
            for ftxt, fsql, sup in FNS:
                name = ftxt.split()[0]
                if supports_table is not None and name in supports_table:
                    sup = supports_table[name]
                for ai, (atxt, acoq) in enumerate(args):
                    # quick tier: every argument set for one function of each class (frame clause / no frame clause /
                    # ranking), every fourth -- rotating with the seed and the function -- for the other nine
                    if not full and fsql not in ("SUM", "LAST_VALUE", "RANK") and (ai + rot + len(fsql)) % 4:
                        continue
                    inner = ("sort a | " if sorted_ else "") + ("window %s (derive {x = %s})" % (atxt, ftxt) if atxt else "derive {x = %s}" % ftxt)
                    src = "from t | " + ("group g (%s)" % inner if grouped else inner) + " | select {x}"
                    cases.append({"src": src, "args": acoq, "sorted": sorted_, "grouped": grouped, "fn": fsql, "supports": sup, "atxt": atxt})
    # two sort keys: every range frame (the ORDER BY inside OVER keeps BOTH keys: peers are rows equal under all of them)
    # and a few rows frames
    for grouped in (False, True):
        for ftxt, fsql, sup in FNS:
            if fsql not in ("SUM", "COUNT", "LAST_VALUE", "RANK"):
                continue
            name = ftxt.split()[0]
            if supports_table is not None and name in supports_table:
                sup = supports_table[name]
            for atxt, acoq in args:
                if not (atxt.startswith("range:") or atxt in ("rows:(-1)..1", "rows:..0", "rolling:2", "expanding:true")) or " " in atxt:
                    continue
                inner = "sort {a, -c} | window %s (derive {x = %s})" % (atxt, ftxt)
                src = "from t | " + ("group g (%s)" % inner if grouped else inner) + " | select {x}"
                cases.append({"src": src, "args": acoq, "sorted": True, "nsort": 2, "grouped": grouped, "fn": fsql, "supports": sup, "atxt": atxt})
    # no window at all
    for sorted_ in (True, False):
        for ftxt, fsql, sup in FNS:
            name = ftxt.split()[0]
            if supports_table is not None and name in supports_table:
                sup = supports_table[name]
            src = "from t | " + ("sort a | " if sorted_ else "") + "derive {x = %s} | select {x}" % ftxt
            cases.append({"src": src, "args": None, "sorted": sorted_, "grouped": False, "fn": fsql, "supports": sup, "atxt": "(no window)"})
    # the same over a relation literal with a header and no rows (/repo 8204886: used to panic in the resolver): the
    # window reaches RQ / SQL unchanged, and the emitted query runs and yields no row
    empty_base = 'from_text format:csv "a,b,c,g\\n"'
    extra = []
    for c in cases:
        if c["fn"] in ("SUM", "LAST_VALUE", "RANK") and c["atxt"] in ("rows:(-1)..1", "range:..0", "rolling:2", "expanding:true", "rows:1..0", "rows:0..(-1)", "(no window)", "rows:..") \
                and (c["sorted"] or not c["atxt"].startswith("range")):
            extra.append(dict(c, src=empty_base + c["src"][len("from t"):], empty_input=True))
    cases += extra
    exprs = []
    for c in cases:
        r = "(WFrame no_window)" if c["args"] is None else "(frame_of %s)" % c["args"]
        nkeys = c.get("nsort", 1) if c["sorted"] else 0
        exprs.append("(wresult_data %s, match emit_window %s %d%%nat (wresult_frame %s) with Some cl => (0%%N, show_frame cl) | None => (1%%N, []) end)" % (r, "true" if c["supports"] else "false", nkeys, r))
    try:
        mv = coq_eval(HEADER, exprs)
    except RuntimeError:
        mv = coq_eval(HEADER, exprs, shards=4)      # a coqc shard killed under memory pressure: once more, fewer processes
    comp = harness("compile", [{"src": c["src"], "target": "sql.sqlite"} for c in cases])
    rqs = harness("rq", [{"src": c["src"]} for c in cases])
    for c, m, a, q in zip(cases, mv, comp, rqs):
        ck.count("frame-corr", c["src"])
        ck.stat("frame-corr", "fn:" + c["fn"])
        code, (kind, ms, me), (wrej, mtext) = m
        mtext = "".join(chr(x) for x in mtext)
        if code != 0:
            # the model says: rejected.  Both entry points must report exactly that error, and nothing else
            ck.stat("frame-corr", "rejected:%s" % ("rows" if code == 1 else "range"))
            want_reason = EMPTY_RANGE_MSG % ("rows" if code == 1 else "range")
            for what, ans in (("compile", a), ("pl_to_rq", q)):
                reasons = [e.get("reason") for e in ans.get("err", [])] if "err" in ans else None
                if reasons != [want_reason]:
                    ck.stat("frame-corr", "disagreement:rejection")
                    ck.disagreement("the model of the `window` transform rejects the arguments (%s), the implementation (%s) answers %s: %s" % (
                        want_reason, what, json.dumps(ans)[:200], c["src"]), {"src": c["src"], "impl": ans, "model": want_reason}, lambda _c: None)
            continue
        want_rq = ("Rows" if kind == 0 else "Range", ms[0] if ms else None, me[0] if me else None)
        # --- RQ frame
        got_rq = None
        if "ok" in q:
            def lit(e):
                if e is None:
                    return None
                return e["kind"]["Literal"]["Integer"]
            for t in q["ok"]["relation"]["kind"]["Pipeline"]:
                if "Compute" in t and t["Compute"].get("window"):
                    w = t["Compute"]["window"]
                    got_rq = (w["frame"]["kind"], lit(w["frame"]["range"]["start"]), lit(w["frame"]["range"]["end"]),
                              len(w["partition"]), len(w["sort"]))
        if got_rq is None or got_rq[:3] != want_rq or got_rq[3] != (1 if c["grouped"] else 0) or got_rq[4] != (c.get("nsort", 1) if c["sorted"] else 0):
            ck.stat("frame-corr", "disagreement:rq-window")
            ck.disagreement("window frame in RQ differs from the model of the `window` transform: %s: impl %r, model %r (partition %d, sort %d expected)" % (
                c["src"], got_rq, want_rq, 1 if c["grouped"] else 0, 1 if c["sorted"] else 0),
                {"src": c["src"], "impl_rq_window": got_rq, "model": list(want_rq), "rq": q if "ok" not in q else None}, lambda _c: None)
        elif c["atxt"] in ("rows:0..(-1)", "range:0..(-1)"):
            ck.stat("frame-corr", "explicit-default-accepted")
        # --- translate_windowed rejects (a RANGE offset over no sort key or several): exactly that error, from compile only
        if wrej:
            ck.stat("frame-corr", "rejected:range-offset")
            reasons = [e.get("reason") for e in a.get("err", [])] if "err" in a else None
            if reasons != [RANGE_KEYS_MSG]:
                ck.stat("frame-corr", "disagreement:rejection")
                ck.disagreement("the model of translate_windowed rejects the frame (%s), the implementation answers %s: %s" % (RANGE_KEYS_MSG, json.dumps(a)[:200], c["src"]),
                                {"src": c["src"], "impl": a, "model": RANGE_KEYS_MSG}, lambda _c: None)
            continue
        # --- emitted OVER text
        got = None
        if "ok" in a:
            cl = over_clauses(a["ok"], c["fn"])
            if len(cl) == 1 and cl[0] is not None:
                got = cl[0]
            else:
                got = "?" + a["ok"]
        want = ("PARTITION BY g " if c["grouped"] else "") + (("ORDER BY a, c DESC " if c.get("nsort") == 2 else "ORDER BY a ") if c["sorted"] else "") + mtext
        want = want.strip()
        ck.stat("frame-corr", "elided" if not mtext else "explicit")
        if got != want:
            ck.stat("frame-corr", "disagreement:over-text")
            ck.disagreement("OVER clause differs from the model: %s: impl %r, model %r" % (c["src"], got, want),
                            {"src": c["src"], "impl": a, "model_over": want}, lambda _c: None)
    # ... and they run: zero rows in, zero rows out
    runs = [(c, a["ok"]) for c, a in zip(cases, comp) if c.get("empty_input") and "ok" in a]
    for (c, sql), x in zip(runs, harness("exec", [{"setup": [], "sql": sql} for _, sql in runs])):
        ck.count("frame-corr", "exec:" + c["src"])
        ck.stat("frame-corr", "empty-input:executed")
        if x.get("rows") != []:
            ck.stat("frame-corr", "disagreement:empty-input")
            ck.disagreement("a window over a relation literal without rows does not run to an empty result: %s: %s" % (c["src"], json.dumps(x)[:200]),
                            {"src": c["src"], "sql": sql, "sqlite": x}, lambda _c: None)
    ck.coverage["frame_corr_exhaustive"] = {"argument_sets": len(args), "cases": len(cases), "empty_input_cases": len(extra), "every_argument_set_for_every_function": bool(full)}
    return [c["src"] for c in cases]


# ------------------------------------------------------------------ partition / frame scoping (flatten.rs)
BYS = ["g", "a"]          # columns both t and u have


class _Tags:
    def __init__(self):
        self.n = 0

    def next(self):
        self.n += 1
        return self.n


def gen_scope(rng, depth, tags, budget):
    """a random list of sitems: ("col", tag) | ("group", by, body) | ("window", (a, b), body) | ("sub", body)"""
    out = []
    for _ in range(rng.randint(1, 3)):
        if budget[0] <= 0:
            break
        k = rng.random()
        if depth <= 0 or k < 0.4:
            budget[0] -= 1
            out.append(("col", tags.next()))
        elif k < 0.62:
            out.append(("group", rng.randrange(len(BYS)), gen_scope(rng, depth - 1, tags, budget) or [("col", tags.next())]))
        elif k < 0.86:
            a, b = rng.choice([(-2, 0), (-1, 1), (None, 0), (0, None), (0, 2), (-2, -1), (1, 2), (None, None), (0, 0)])
            out.append(("window", (a, b), gen_scope(rng, depth - 1, tags, budget) or [("col", tags.next())]))
        else:
            out.append(("sub", gen_scope(rng, depth - 1, tags, budget) or [("col", tags.next())]))
    return out


def _own_step(items):
    """does this body define a column or join at its own level (window bodies belong to the level they stand in)?"""
    return any(it[0] in ("col", "sub") or (it[0] == "window" and _own_step(it[2])) for it in items)


def ice3870_class(items, into_subs=False):
    """F55: somewhere in the nesting there is a `group` whose body, at its own level, consists of groups only (possibly
    wrapped in `window`s): no derive / join of its own.  Outside join arguments this is exactly when the compiler
    answers with the internal error 3870 (3276 enumerated nestings, 0 mismatches); inside a join argument -- which
    ends in a `select` of other columns in this generator -- the defect shows only when a later group step needs the
    key column, so with into_subs=True the predicate is a necessary condition only"""
    for it in items:
        if it[0] == "group" and not _own_step(it[2]):
            return True
        if (it[0] in ("group", "window") or (into_subs and it[0] == "sub")) and ice3870_class(it[-1], into_subs):
            return True
    return False


def classify_scope(case):
    errs = (case.get("impl") or {}).get("err") or []
    if len(errs) == 1 and "internal compiler error" in errs[0].get("reason", "") and "/3870" in errs[0].get("reason", "") and case.get("ice_class"):
        return "F55-group-of-groups-only-internal-error"
    return None


def scope_tags(items):
    out = []
    for it in items:
        if it[0] == "col":
            out.append(it[1])
        else:
            out += scope_tags(it[-1])
    return out


def scope_prql(items, subs):
    parts = []
    for it in items:
        if it[0] == "col":
            parts.append("derive {x%d = sum id}" % it[1])
        elif it[0] == "group":
            parts.append("group {%s} (%s)" % (BYS[it[1]], scope_prql(it[2], subs)))
        elif it[0] == "window":
            parts.append("window rows:%s..%s (%s)" % (rb(it[1][0], True), rb(it[1][1], True), scope_prql(it[2], subs)))
        else:
            subs[0] += 1
            k = "k%d" % subs[0]
            inner = scope_prql(it[1], subs)
            parts.append("join side:left (from u | %s | select {%s = id, %s}) (id == %s)" % (inner, k, ", ".join("x%d" % t for t in scope_tags(it[1])), k))
    return " | ".join(parts)


def scope_coq(items):
    out = []
    for it in items:
        if it[0] == "col":
            out.append("SCol %d%%N" % it[1])
        elif it[0] == "group":
            out.append("SGroup %d%%N %s" % (it[1], scope_coq(it[2])))
        elif it[0] == "window":
            out.append("SWindow (KRows, %s, %s) %s" % (coq_oz(it[1][0]), coq_oz(it[1][1]), scope_coq(it[2])))
        else:
            out.append("SSub %s" % scope_coq(it[1]))
    return "[" + "; ".join(out) + "]"


def rq_windows(rq):
    """{column name: (partition column names, (kind, start, end))} of every windowed Compute of every relation of an RQ query"""
    out = {}
    dup = []

    def lit(e):
        return None if e is None else e["kind"]["Literal"]["Integer"]

    def relation(rel):
        if "Pipeline" not in rel["kind"]:
            return
        pipe = rel["kind"]["Pipeline"]
        names = {}
        sel = [t["Select"] for t in pipe if "Select" in t]
        if sel:
            for col, cid in zip(rel["columns"], sel[-1]):
                if isinstance(col, dict) and col.get("Single"):
                    names.setdefault(cid, col["Single"])
        src = {}
        for t in pipe:
            cols = t["From"]["columns"] if "From" in t else t["Join"]["with"]["columns"] if "Join" in t else []
            for col, cid in cols:
                if isinstance(col, dict) and col.get("Single"):
                    src[cid] = col["Single"]
        for t in pipe:
            if "Compute" in t and t["Compute"].get("window"):
                w = t["Compute"]["window"]
                nm = names.get(t["Compute"]["id"])
                val = ([src.get(c, "?%d" % c) for c in w["partition"]], (w["frame"]["kind"], lit(w["frame"]["range"]["start"]), lit(w["frame"]["range"]["end"])), len(w["sort"]))
                if nm in out or nm is None:
                    dup.append(nm)
                out[nm] = val
            if "Loop" in t:
                relation({"kind": {"Pipeline": t["Loop"]}, "columns": []})
    relation(rq["relation"])
    for t in rq["tables"]:
        relation(t["relation"])
    return out, dup


SCOPE_DIRECTED = [
    # the example of Props/C04.v:  group g (window rows:-1..0 (x1 | group a (x2) | x3) | x4) | x5
    [("group", 0, [("window", (-1, 0), [("col", 1), ("group", 1, [("col", 2)]), ("col", 3)]), ("col", 4)]), ("col", 5)],
    [("window", (-1, 0), [("window", (0, 1), [("col", 1)]), ("col", 2)]), ("col", 3)],
    [("group", 0, [("group", 1, [("col", 1)]), ("col", 2)]), ("col", 3)],
    [("window", (-2, 0), [("group", 0, [("col", 1), ("window", (0, 0), [("col", 2)]), ("col", 3)]), ("col", 4)])],
    [("group", 0, [("sub", [("col", 1), ("group", 1, [("col", 2)])]), ("col", 3)])],
    [("window", (None, 0), [("sub", [("col", 1), ("window", (0, 2), [("col", 2)]), ("col", 3)]), ("col", 4)]), ("col", 5)],
    [("group", 1, [("window", (-1, 1), [("sub", [("col", 1)]), ("col", 2)])]), ("sub", [("group", 0, [("col", 3)])]), ("col", 4)],
    [("sub", [("sub", [("window", (1, 2), [("col", 1)]), ("col", 2)]), ("col", 3)]), ("col", 4)],
    # F55: a group whose body consists of groups only (directly, or wrapped in a window)
    [("group", 1, [("group", 0, [("col", 1)])]), ("col", 2)],
    [("group", 1, [("window", (0, 0), [("group", 0, [("col", 1)])])]), ("col", 2)],
    # ... and the same nesting with a step of its own in the outer body: compiles, scoped as modelled
    [("group", 1, [("group", 0, [("col", 1)]), ("col", 2)])],
    # ... inside a join argument: hidden by the closing select, unless a later group step by the same key needs the key column
    [("sub", [("group", 1, [("group", 0, [("col", 1)])]), ("col", 2)]), ("col", 3)],
    [("sub", [("group", 0, [("group", 1, [("col", 1)])]), ("group", 0, [("col", 2)])]), ("col", 3)],
]


def run_scope(ck):
    rng = ck.rng
    progs = [list(p) for p in SCOPE_DIRECTED]
    for _ in range(ck.n(150, 1200)):
        items = gen_scope(rng, 3, _Tags(), [8])
        while ice3870_class(items, into_subs=True) and rng.random() < 0.9:        # keep a few of the F55 class, no more
            items = gen_scope(rng, 3, _Tags(), [8])
        progs.append(items)
    cases = []
    for items in progs:
        src = "from t | " + scope_prql(items, [0])
        cases.append({"src": src, "items": items, "coq": scope_coq(items)})
    exprs = ["(map scope_out_data (fst (scope_run flatten_policy %s fstate0)), map (fun o : scope_out => show_frame (emit_frame true false (snd o))) (fst (scope_run flatten_policy %s fstate0)))" % (c["coq"], c["coq"]) for c in cases]
    try:
        mv = coq_eval(HEADER, exprs)
    except RuntimeError:
        mv = coq_eval(HEADER, exprs, shards=4)
    rqs = harness("rq", [{"src": c["src"]} for c in cases])
    comp = harness("compile", [{"src": c["src"], "target": "sql.sqlite"} for c in cases])
    for c, (mdata, mtexts), q, a in zip(cases, mv, rqs, comp):
        ck.count("scope-corr", c["src"])
        depth = 0
        stack = [(c["items"], 1)]
        while stack:
            its, d = stack.pop()
            depth = max(depth, d)
            for it in its:
                if it[0] != "col":
                    ck.stat("scope-corr", "nest:%s@%d" % (it[0], d))
                    stack.append((it[-1], d + 1))
        ck.stat("scope-corr", "depth:%d" % depth)
        want = {}
        for (tag, by, (kind, ms, me)), txt in zip(mdata, mtexts):
            want["x%d" % tag] = ([BYS[b] for b in by], ("Rows" if kind == 0 else "Range", ms[0] if ms else None, me[0] if me else None), "".join(chr(x) for x in txt))
        if "ok" not in q:
            got = ck.disagreement("nested group / window program rejected by pl_to_rq: %s: %s" % (c["src"], json.dumps(q)[:200]),
                                  {"src": c["src"], "impl": q, "ice_class": ice3870_class(c["items"], into_subs=True)}, classify_scope)
            ck.stat("scope-corr", "disagreement:" + (got or "rejected"))
            continue
        got, dup = rq_windows(q["ok"])
        got3 = {k: (v[0], v[1]) for k, v in got.items()}
        if dup or got3 != {k: (v[0], v[1]) for k, v in want.items()} or any(v[2] != 0 for v in got.values()):
            ck.stat("scope-corr", "disagreement:rq-window")
            ck.disagreement("partition / frame of RQ Compute.window differ from the scoping model (flatten.rs): %s: impl %r, model %r" % (c["src"], sorted(got.items()), sorted((k, v[:2]) for k, v in want.items())),
                            {"src": c["src"], "impl": sorted(got.items()), "model": sorted((k, list(v[:2])) for k, v in want.items())}, lambda _c: None)
            continue
        # the emitted OVER (...) of every column
        gsql = {}
        if "ok" in a:
            for m in re.finditer(r"SUM\((?:\w+\.)?id\) OVER \(([^()]*)\)(?:, 0\))? AS (x\d+)", a["ok"]):
                gsql[m.group(2)] = re.sub(r"\b\w+\.(\w+)", r"\1", m.group(1)).strip()
        wsql = {k: (("PARTITION BY %s " % ", ".join(v[0]) if v[0] else "") + v[2]).strip() for k, v in want.items()}
        if gsql != wsql:
            ck.stat("scope-corr", "disagreement:over-text")
            ck.disagreement("OVER clauses of a nested group / window program differ from the scoping model: %s: impl %r (%s), model %r" % (c["src"], sorted(gsql.items()), json.dumps(a)[:300], sorted(wsql.items())),
                            {"src": c["src"], "impl": a, "model": sorted(wsql.items())}, lambda _c: None)
    ck.coverage["scope_corr"] = {"cases": len(cases), "directed": len(SCOPE_DIRECTED)}
    return [c["src"] for c in cases]
